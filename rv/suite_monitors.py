"""Postconditions attached from the harness to real library functions while the repository's own test suite
(and through it the documentation examples) runs: every call made by that workload is observed (DESIGN §2.5).

Attached: skfem.quadrature.get_quadrature (C08 oracle), skfem.assembly.dofs.Dofs.__init__ (C04 structural oracle),
skfem.mesh.mesh.Mesh._init_facets (C11 connectivity oracle).  Results are Ctx partials written per pytest worker
to $RV_SUITE_LOG; the check merges them with its own workload.  The suite's pass/fail is not our oracle.
"""
from __future__ import annotations

import hashlib
import json
import os

import numpy as np

from .engine import Ctx, Skip, CaseTimeout

CTX = {}
SEEN = {"C04": set(), "C08": set(), "C11": set(), "C10": set(), "C12": set()}
ACTIVE = {"busy": False}
MAXCELLS = 1500


def _ctx(pid):
    if pid not in CTX:
        c = Ctx(pid, "thorough", int(os.environ.get("VERIF_SEED", "0")))
        c.family, c.k = "repository-suite", -1
        CTX[pid] = c
    return CTX[pid]


def _test():
    return os.environ.get("PYTEST_CURRENT_TEST", "?").split(" ")[0]


def _guard(pid, fn):
    """Run an oracle; the library must never see an exception from the harness."""
    if ACTIVE["busy"]:
        return
    ACTIVE["busy"] = True
    try:
        fn(_ctx(pid))
    except Skip as e:
        _ctx(pid).drop("suite-skip:" + str(e))
    except CaseTimeout:
        raise
    except Exception as e:  # harness problem on an object the generated workloads never produce: counted, not judged
        _ctx(pid).drop("suite-oracle-not-applicable:" + type(e).__name__)
    finally:
        ACTIVE["busy"] = False


def install(which):
    import skfem
    from skfem import quadrature as Q
    from skfem.assembly import dofs as D
    from skfem.mesh import mesh as M
    from .gen import meshes as G

    if "C08" in which:
        from .monitors import c08
        names = {v[0]: k for k, v in c08.CELLS.items()}
        orig = Q.get_quadrature

        def get_quadrature(refdom_or_elem, norder):
            X, W = orig(refdom_or_elem, norder)
            refdom = getattr(refdom_or_elem, "refdom", refdom_or_elem)
            cell = names.get(getattr(refdom, "__name__", ""))
            key = (cell, norder if isinstance(norder, (int, np.integer)) else None)
            if cell and key[1] is not None and key not in SEEN["C08"]:
                SEEN["C08"].add(key)

                def oracle(ctx):
                    c08.judge_rule(ctx, cell, int(norder), np.asarray(X, float), np.asarray(W, float))
                    ctx.nontrivial("suite", cell, int(norder))
                    ctx.sample({"from": "repository-suite", "test": _test(), "cell": cell, "order": int(norder)})
                _guard("C08", oracle)
            return X, W
        # every module namespace that holds the name
        import sys
        for mod in list(sys.modules.values()):
            if mod is not None and getattr(mod, "get_quadrature", None) is orig:
                setattr(mod, "get_quadrature", get_quadrature)

    if "C04" in which:
        from .monitors import c04
        orig_init = D.Dofs.__init__

        def __init__(self, topo, element, offset=0):
            orig_init(self, topo, element, offset)

            def oracle(ctx):
                try:
                    kind = G.kind_of(topo)
                except ValueError:
                    raise Skip("mesh-kind")
                if "DG" in type(topo).__name__ or topo.t.shape[1] > MAXCELLS or offset != 0:
                    raise Skip("mesh-outside-oracle")
                used = np.unique(np.asarray(topo.t))
                if used.size != int(used[-1]) + 1:
                    # vertices referenced by no cell: not a valid mesh (Mesh.is_valid() says so too); the suite builds
                    # such objects on purpose (remove_unused_nodes tests)
                    raise Skip("mesh-with-unused-vertices")
                key = (type(topo).__name__, hashlib.blake2b(np.ascontiguousarray(topo.t).tobytes(), digest_size=8).hexdigest(),
                       type(element).__name__, element.nodal_dofs, element.edge_dofs, element.facet_dofs, element.interior_dofs)
                if key in SEEN["C04"]:
                    return
                SEEN["C04"].add(key)
                rec = c04._Named(type(element).__name__)
                c04.check_dofs_structure(ctx, topo, kind, topo.dim(), element, self, rec, {"from": "repository-suite", "test": _test()})
                ctx.sample({"from": "repository-suite", "test": _test(), "mesh": type(topo).__name__, "elem": rec.name,
                            "N": int(self.N)})
            _guard("C04", oracle)
        D.Dofs.__init__ = __init__

    if "C11" in which:
        from .monitors import c11
        orig_if = M.Mesh._init_facets
        hex_if = skfem.MeshHex1._init_facets

        def make(orig_fn):
            def _init_facets(self):
                orig_fn(self)

                def oracle(ctx):
                    try:
                        kind = G.kind_of(self)
                    except ValueError:
                        raise Skip("mesh-kind")
                    if "DG" in type(self).__name__ or self.t.shape[1] > MAXCELLS:
                        raise Skip("mesh-outside-oracle")
                    used = np.unique(np.asarray(self.t))
                    if used.size != int(used[-1]) + 1:
                        raise Skip("mesh-with-unused-vertices")
                    key = (type(self).__name__, hashlib.blake2b(np.ascontiguousarray(self.t).tobytes(), digest_size=8).hexdigest())
                    if key in SEEN["C11"]:
                        return
                    SEEN["C11"].add(key)
                    topo, fkeys = c11.check_mesh(ctx, self, kind, {"from": "repository-suite", "test": _test()})
                    if topo is not None and topo.boundary_facet_keys() and topo.interior_facet_keys():
                        ctx.nontrivial(type(self).__name__, "suite", _test())
                    ctx.sample({"from": "repository-suite", "test": _test(), "mesh": type(self).__name__,
                                "cells": int(self.t.shape[1])})
                _guard("C11", oracle)
            return _init_facets
        M.Mesh._init_facets = make(orig_if)
        skfem.MeshHex1._init_facets = make(hex_if)


def install_more(which):
    """C10: F(invF(x)) = x for every inverse map the suite computes; C12: every clause of the refinement oracle for every
    uniform Mesh.refined(k) call the suite makes."""
    import skfem
    from skfem.mesh import mesh as M
    from .gen import meshes as G

    if "C10" in which:
        from skfem.mapping.mapping_affine import MappingAffine
        from skfem.mapping.mapping_isoparametric import MappingIsoparametric

        def wrap(cls, clipped):
            orig = cls.invF

            def invF(self, x, tind=None, **kw):
                X = orig(self, x, tind, **kw)

                def oracle(ctx):
                    xa, Xa = np.asarray(x, dtype=float), np.asarray(X, dtype=float)
                    if xa.ndim != 3 or Xa.shape != xa.shape or xa.size == 0 or xa.size > 200000:
                        raise Skip("layout-outside-oracle")
                    back = np.asarray(self.F(Xa, tind), dtype=float)
                    if back.shape != xa.shape:
                        raise Skip("F-layout")
                    inside = np.ones(xa.shape[1:], dtype=bool)
                    if clipped:
                        # the isoparametric inverse clips to the unit box: only points it left strictly inside are
                        # claimed to be inverse images
                        inside = ((Xa > 1e-9) & (Xa < 1 - 1e-9)).all(axis=0)
                    if not inside.any():
                        raise Skip("no-interior-points")
                    mp = np.asarray(self.mesh.p, dtype=float)
                    span = float(np.ptp(mp, axis=1).max()) + 1e-300          # extent of the mesh
                    sc = float(np.abs(mp).max()) * 1e-6 + span
                    err = float(np.abs(back - xa)[:, inside].max())
                    ctx.check("F-invF-identity", err <= 1e-7 * sc, mech=f"suite:F-invF:{cls.__name__}", err=err, scale=sc,
                              test=_test(), mesh=type(getattr(self, "mesh", None)).__name__)
                    key = (cls.__name__, _test())
                    if key not in SEEN["C10"]:
                        SEEN["C10"].add(key)
                        ctx.nontrivial("suite", cls.__name__, _test())
                        ctx.sample({"from": "repository-suite", "test": _test(), "mapping": cls.__name__,
                                    "points": int(inside.sum())})
                _guard("C10", oracle)
                return X
            cls.invF = invF
        wrap(MappingAffine, False)
        wrap(MappingIsoparametric, True)

    if "C12" in which:
        from .monitors import c12
        orig_refined = M.Mesh.refined

        def refined(self, times_or_ix=1):
            if not isinstance(times_or_ix, (int, np.integer)) or isinstance(times_or_ix, bool) or ACTIVE["busy"]:
                return orig_refined(self, times_or_ix)
            with c12.captured_warnings() as recs:
                child = orig_refined(self, times_or_ix)
            records = list(recs)

            def oracle(ctx):
                try:
                    kind = G.kind_of(self)
                except ValueError:
                    raise Skip("mesh-kind")
                k = int(times_or_ix)
                if "DG" in type(self).__name__ or kind == "wedge" or k < 1 or k > 3 or child.t.shape[1] > MAXCELLS:
                    raise Skip("mesh-outside-oracle")
                used = np.unique(np.asarray(self.t)[:G.NVERT[kind]])
                if used.size != int(used[-1]) + 1:
                    raise Skip("mesh-with-unused-vertices")
                if G.order_of(self) == 2:
                    # the statement is about straight-sided meshes; curved second-order meshes are outside it
                    m1 = G.mesh_class(kind, 2).from_mesh(G.mesh_class(kind, 1)(np.asarray(self.p)[:, :used.size],
                                                                               np.asarray(self.t)[:G.NVERT[kind]]))
                    if not np.allclose(np.asarray(m1.doflocs), np.asarray(self.doflocs), atol=1e-12):
                        raise Skip("curved-second-order-mesh")
                key = (type(self).__name__, k, hashlib.blake2b(np.ascontiguousarray(self.t).tobytes() +
                                                                 np.ascontiguousarray(self.doflocs).tobytes(), digest_size=8).hexdigest(),
                       repr(sorted((self.boundaries or {}).keys())), repr(sorted((self.subdomains or {}).keys())))
                if key in SEEN["C12"]:
                    return
                SEEN["C12"].add(key)
                c12.judge(ctx, self, child, k, records, kind, {"from": "repository-suite", "test": _test()}, history="suite")
                ctx.nontrivial("suite", type(self).__name__, k, _test())
                ctx.sample({"from": "repository-suite", "test": _test(), "mesh": type(self).__name__, "k": k,
                            "cells": [int(self.t.shape[1]), int(child.t.shape[1])]})
            _guard("C12", oracle)
            return child
        M.Mesh.refined = refined


def dump():
    out = os.environ.get("RV_SUITE_LOG")
    if not out:
        return
    os.makedirs(out, exist_ok=True)
    wid = os.environ.get("PYTEST_XDIST_WORKER", "main")
    for pid, c in CTX.items():
        p = c.partial()
        p["track"] = {}
        with open(os.path.join(out, f"{pid}-{wid}-{os.getpid()}.json"), "w") as f:
            json.dump(p, f)
