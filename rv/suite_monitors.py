"""Postconditions attached from the harness to real library functions while the repository's own test suite
(and through it the documentation examples) runs: every call made by that workload is observed (DESIGN §2.5).

Attached: skfem.quadrature.get_quadrature (C08 oracle), skfem.assembly.dofs.Dofs.__init__ (C04 structural oracle),
skfem.mesh.mesh.Mesh._init_facets (C11 connectivity oracle).  Results are Ctx partials written per pytest worker
to $RV_SUITE_LOG; the check merges them with its own workload.  The suite's pass/fail is not our oracle.
"""
from __future__ import annotations

import hashlib
import json
import os

import numpy as np

from .engine import Ctx, Skip, CaseTimeout

CTX = {}
SEEN = {"C04": set(), "C08": set(), "C11": set()}
ACTIVE = {"busy": False}
MAXCELLS = 1500


def _ctx(pid):
    if pid not in CTX:
        c = Ctx(pid, "thorough", int(os.environ.get("VERIF_SEED", "0")))
        c.family, c.k = "repository-suite", -1
        CTX[pid] = c
    return CTX[pid]


def _test():
    return os.environ.get("PYTEST_CURRENT_TEST", "?").split(" ")[0]


def _guard(pid, fn):
    """Run an oracle; the library must never see an exception from the harness."""
    if ACTIVE["busy"]:
        return
    ACTIVE["busy"] = True
    try:
        fn(_ctx(pid))
    except Skip as e:
        _ctx(pid).drop("suite-skip:" + str(e))
    except CaseTimeout:
        raise
    except Exception as e:  # harness problem on an object the generated workloads never produce: counted, not judged
        _ctx(pid).drop("suite-oracle-not-applicable:" + type(e).__name__)
    finally:
        ACTIVE["busy"] = False


def install(which):
    import skfem
    from skfem import quadrature as Q
    from skfem.assembly import dofs as D
    from skfem.mesh import mesh as M
    from .gen import meshes as G

    if "C08" in which:
        from .monitors import c08
        names = {v[0]: k for k, v in c08.CELLS.items()}
        orig = Q.get_quadrature

        def get_quadrature(refdom_or_elem, norder):
            X, W = orig(refdom_or_elem, norder)
            refdom = getattr(refdom_or_elem, "refdom", refdom_or_elem)
            cell = names.get(getattr(refdom, "__name__", ""))
            key = (cell, norder if isinstance(norder, (int, np.integer)) else None)
            if cell and key[1] is not None and key not in SEEN["C08"]:
                SEEN["C08"].add(key)

                def oracle(ctx):
                    c08.judge_rule(ctx, cell, int(norder), np.asarray(X, float), np.asarray(W, float))
                    ctx.nontrivial("suite", cell, int(norder))
                    ctx.sample({"from": "repository-suite", "test": _test(), "cell": cell, "order": int(norder)})
                _guard("C08", oracle)
            return X, W
        # every module namespace that holds the name
        import sys
        for mod in list(sys.modules.values()):
            if mod is not None and getattr(mod, "get_quadrature", None) is orig:
                setattr(mod, "get_quadrature", get_quadrature)

    if "C04" in which:
        from .monitors import c04
        orig_init = D.Dofs.__init__

        def __init__(self, topo, element, offset=0):
            orig_init(self, topo, element, offset)

            def oracle(ctx):
                try:
                    kind = G.kind_of(topo)
                except ValueError:
                    raise Skip("mesh-kind")
                if "DG" in type(topo).__name__ or topo.t.shape[1] > MAXCELLS or offset != 0:
                    raise Skip("mesh-outside-oracle")
                used = np.unique(np.asarray(topo.t))
                if used.size != int(used[-1]) + 1:
                    # vertices referenced by no cell: not a valid mesh (Mesh.is_valid() says so too); the suite builds
                    # such objects on purpose (remove_unused_nodes tests)
                    raise Skip("mesh-with-unused-vertices")
                key = (type(topo).__name__, hashlib.blake2b(np.ascontiguousarray(topo.t).tobytes(), digest_size=8).hexdigest(),
                       type(element).__name__, element.nodal_dofs, element.edge_dofs, element.facet_dofs, element.interior_dofs)
                if key in SEEN["C04"]:
                    return
                SEEN["C04"].add(key)
                rec = c04._Named(type(element).__name__)
                c04.check_dofs_structure(ctx, topo, kind, topo.dim(), element, self, rec, {"from": "repository-suite", "test": _test()})
                ctx.sample({"from": "repository-suite", "test": _test(), "mesh": type(topo).__name__, "elem": rec.name,
                            "N": int(self.N)})
            _guard("C04", oracle)
        D.Dofs.__init__ = __init__

    if "C11" in which:
        from .monitors import c11
        orig_if = M.Mesh._init_facets
        hex_if = skfem.MeshHex1._init_facets

        def make(orig_fn):
            def _init_facets(self):
                orig_fn(self)

                def oracle(ctx):
                    try:
                        kind = G.kind_of(self)
                    except ValueError:
                        raise Skip("mesh-kind")
                    if "DG" in type(self).__name__ or self.t.shape[1] > MAXCELLS:
                        raise Skip("mesh-outside-oracle")
                    used = np.unique(np.asarray(self.t))
                    if used.size != int(used[-1]) + 1:
                        raise Skip("mesh-with-unused-vertices")
                    key = (type(self).__name__, hashlib.blake2b(np.ascontiguousarray(self.t).tobytes(), digest_size=8).hexdigest())
                    if key in SEEN["C11"]:
                        return
                    SEEN["C11"].add(key)
                    topo, fkeys = c11.check_mesh(ctx, self, kind, {"from": "repository-suite", "test": _test()})
                    if topo is not None and topo.boundary_facet_keys() and topo.interior_facet_keys():
                        ctx.nontrivial(type(self).__name__, "suite", _test())
                    ctx.sample({"from": "repository-suite", "test": _test(), "mesh": type(self).__name__,
                                "cells": int(self.t.shape[1])})
                _guard("C11", oracle)
            return _init_facets
        M.Mesh._init_facets = make(orig_if)
        skfem.MeshHex1._init_facets = make(hex_if)


def dump():
    out = os.environ.get("RV_SUITE_LOG")
    if not out:
        return
    os.makedirs(out, exist_ok=True)
    wid = os.environ.get("PYTEST_XDIST_WORKER", "main")
    for pid, c in CTX.items():
        p = c.partial()
        p["track"] = {}
        with open(os.path.join(out, f"{pid}-{wid}-{os.getpid()}.json"), "w") as f:
            json.dump(p, f)
