"""C16 harness: observe and steer the worker threads of BilinearForm(nthreads=k).

Nothing in /repo is edited.  Everything is attached to ONE BilinearForm *instance*:

* the integrand (form callable) is wrapped: every kernel invocation is logged with the thread that
  made it and the local index pair (i, j) it belongs to, the pair being recovered from the *object
  identity* of the DiscreteFields handed in (`u is ubasis.basis[j][0]`, `v is vbasis.basis[i][0]`);
* `inst._threaded_kernel` is shadowed by a wrapper that registers the calling thread as a worker
  and hands the real `BilinearForm._threaded_kernel` a `LoggingArray` *view* of the shared output
  block, so that every store `data[j, i] = ...` is recorded (writer, slots, value read back) while
  still landing in the real block;
* `inst._assemble` is shadowed to record the moment the real `_assemble` returns and which
  workers are still alive at that moment.

Modes
  free        nothing blocks; the OS / the yield injector choose the schedule.
  controlled  every gate point blocks until a scheduler thread grants it.  The scheduler walks
              a prescribed list of worker indices; after a grant it waits until that worker
              is parked at its next gate (or has finished) before granting the next one, so the
              global order of gate passages is exactly the prescribed interleaving.
              Gate points: 'c' = entry of the integrand (kernel granularity); with fine=True
              also 's' = entry of LoggingArray.__setitem__, i.e. after the right-hand side was
              computed and before it is stored.

All harness state (event log, gate book-keeping) is guarded by ONE lock (`self.cond`).
Watchdogs: every wait has a timeout; a timeout sets `abort` (all gates fall open) and is
reported as `watchdog`, which the monitor turns into an inconclusive case, never a violation.

Pitfall recorded here: `threading.get_ident()` values are re-used as soon as a thread has exited
(a worker with an empty chunk is gone before the next worker starts), so workers are keyed by
their Thread *object* (kept referenced); the ident is logged for information only.
"""
from __future__ import annotations

import functools
import hashlib
import math
import random
import sys
import threading
import time

import numpy as np


# --------------------------------------------------------------------------- interleavings
def multinomial(counts):
    n = sum(counts)
    out = math.factorial(n)
    for c in counts:
        out //= math.factorial(c)
    return out


def all_interleavings(counts):
    """All distinct orderings of the multiset {w repeated counts[w]} (lexicographic)."""
    a = [w for w, c in enumerate(counts) for _ in range(c)]
    n = len(a)
    if n == 0:
        yield ()
        return
    while True:
        yield tuple(a)
        i = n - 2
        while i >= 0 and a[i] >= a[i + 1]:
            i -= 1
        if i < 0:
            return
        j = n - 1
        while a[j] <= a[i]:
            j -= 1
        a[i], a[j] = a[j], a[i]
        a[i + 1:] = reversed(a[i + 1:])


def structured_interleavings(counts):
    """Adversarial hand-picked orders: each worker run to completion in every rotation of the
    worker order and its reverse, round robin (and reversed), 'first step of everybody, then ...'."""
    ws = [w for w, c in enumerate(counts) if c]
    out = []
    for r in range(len(ws)):
        order = ws[r:] + ws[:r]
        for o in (order, order[::-1]):
            out.append(tuple(w for w in o for _ in range(counts[w])))
            left = list(counts)
            rr = []
            while any(left[w] for w in o):
                for w in o:
                    if left[w]:
                        rr.append(w)
                        left[w] -= 1
            out.append(tuple(rr))
    # one worker held back until all others are done / one worker runs ahead of everybody
    for w in ws:
        others = tuple(x for x in ws if x != w for _ in range(counts[x]))
        out.append(others + (w,) * counts[w])
        if counts[w] > 1:
            out.append((w,) + others + (w,) * (counts[w] - 1))
    seen, uniq = set(), []
    for s in out:
        if s not in seen:
            seen.add(s)
            uniq.append(s)
    return uniq


def sampled_interleavings(rng, counts, n):
    base = np.array([w for w, c in enumerate(counts) for _ in range(c)], dtype=int)
    out = structured_interleavings(counts)
    seen = set(out)
    tries = 0
    while len(out) < n and tries < 20 * n:
        tries += 1
        s = tuple(int(x) for x in rng.permutation(base))
        if s not in seen:
            seen.add(s)
            out.append(s)
    return out[:max(n, 1)]


# --------------------------------------------------------------------------- checksums
def digest_array(a):
    a = np.asarray(a)
    h = hashlib.blake2b(digest_size=12)
    h.update(repr((a.shape, a.dtype.str)).encode())
    h.update(np.ascontiguousarray(a).tobytes())
    return h.hexdigest()


def digest_obj(o, depth=0):
    """Content fingerprint of basis tuples / DiscreteFields / dicts / arrays / scalars."""
    if o is None:
        return "None"
    if isinstance(o, np.ndarray) and hasattr(o, "astuple") and depth < 6:
        # DiscreteField: an ndarray subclass carrying grad/div/curl/hess/... as attributes
        return "DF(" + ",".join(digest_obj(None if c is None else np.asarray(c).view(np.ndarray), depth + 1)
                                for c in o.astuple) + ")" + ("" if o.flags.writeable else ":read-only")
    if isinstance(o, np.ndarray):
        # (the writeable flag is part of the state of a shared input: an array the caller could update in place before the
        # call must still be updatable after it)
        return digest_array(o) + ("" if o.flags.writeable else ":read-only")
    if isinstance(o, dict):
        return "{" + ",".join(f"{k}:{digest_obj(o[k], depth + 1)}" for k in sorted(o, key=str)) + "}"
    if isinstance(o, (list, tuple)):  # DiscreteField is a NamedTuple
        return "(" + ",".join(digest_obj(x, depth + 1) for x in o) + ")"
    if isinstance(o, (int, float, complex, str, bool, np.number)):
        return repr(o)
    return "obj:" + type(o).__name__


# --------------------------------------------------------------------------- logging ndarray
class LoggingArray(np.ndarray):
    """View of the shared output block that reports every store to the harness.

    `_imap` has the shape of the view and holds, per element, the flat slot number inside the
    root block; it follows `__getitem__`, so `data[j][i] = x` is resolved like `data[j, i] = x`.
    Views obtained in other ways (reshape, .T, ...) lose the map; a store through them is logged
    with slots=None and the monitor then drops the ownership checks of that run (it never guesses).
    """
    _h = None
    _imap = None

    def __array_finalize__(self, obj):
        self._h = getattr(obj, "_h", None)
        self._imap = None

    def __getitem__(self, key):
        out = super().__getitem__(key)
        if isinstance(out, LoggingArray) and self._imap is not None:
            try:
                out._imap = self._imap[key]
            except Exception:
                out._imap = None
        return out

    def __setitem__(self, key, value):
        h = self._h
        if h is None:
            return super().__setitem__(key, value)
        h._before_store()
        super().__setitem__(key, value)
        try:
            slots = None if self._imap is None else np.array(self._imap[key]).ravel()
            back = np.array(self.view(np.ndarray)[key]).ravel()
        except Exception:
            slots, back = None, None
        h._after_store(slots, back)

    # in-place arithmetic (data[...] += x style code would come through __setitem__ as well, but
    # `np.add(..., out=data)` would not): not used by the code under judgement; left unlogged.


# --------------------------------------------------------------------------- the harness
class Harness:
    def __init__(self, ubasis, vbasis, raw_form, mode="free", schedule=None, fine=False,
                 first_pair_to_worker=None, step_timeout=30.0, total_timeout=120.0, expire_join_timeouts=False):
        assert mode in ("free", "controlled")
        # "a worker may take arbitrarily long": while the real `_assemble` runs, every Thread.join with a *finite*
        # timeout issued by the assembling thread on a thread the harness did not create returns at once, as if the
        # timeout had elapsed (join() / join(None) is left alone).  A loop `while t.is_alive(): t.join(1.)` still
        # waits for the worker; a single `t.join(5.)` does not.
        self.expire_join_timeouts = bool(expire_join_timeouts)
        self.finite_joins = 0
        self.join_patch_used = False
        self.own_threads = set()
        self.ub = ubasis
        self.vb = vbasis if vbasis is not None else ubasis
        self.raw = raw_form
        self.mode = mode
        self.fine = bool(fine)
        self.schedule = list(schedule) if schedule is not None else []
        self.first_pair_to_worker = dict(first_pair_to_worker or {})
        self.step_timeout = step_timeout
        self.total_timeout = total_timeout

        self.lock = threading.Lock()                        # the one lock
        self.cond = threading.Condition(self.lock)          # scheduler / main wait here
        self.cv_w = {}                                      # widx -> Condition(self.lock): worker w parks here
        self.log = []                          # (kind, tk, a, b, t)
        self.threads = {}                      # Thread object -> tk (small int); main thread = 0
        self.thread_objs = []                  # index tk -> Thread object
        self.worker_tks = []                   # tks that entered _threaded_kernel
        self.widx_of = {}                      # tk -> schedule worker index
        self.claimed = set()
        self.waiting = {}                      # widx -> (gatekind, pair)
        self.grant = {}                        # widx -> bool
        self.done_w = set()                    # widx of finished workers
        self.abort = False
        self.abort_reason = None
        self.watchdog = False
        self.free_after = False                # schedule exhausted -> later gates fall open
        self.steps_done = 0
        self.w_seen = None                     # the parameter dict handed to the integrand
        self.w_ids = set()
        self.w_digest_first = None
        self.unresolved_pairs = 0
        self.operand_mismatch = []
        self.assemble_out = None
        self.nu = len(self.ub.basis[0])
        self.nv = len(self.vb.basis[0])
        self.umap = {id(self.ub.basis[j][0]): j for j in range(len(self.ub.basis))}
        self.vmap = {id(self.vb.basis[i][0]): i for i in range(len(self.vb.basis))}
        self.ids_unique = (len(self.umap) == len(self.ub.basis) and len(self.vmap) == len(self.vb.basis))
        self._tk()                             # main thread gets tk 0

    # ---- helpers (call with self.cond held)
    def _tk(self):
        th = threading.current_thread()
        tk = self.threads.get(th)
        if tk is None:
            tk = len(self.thread_objs)
            self.threads[th] = tk
            self.thread_objs.append(th)
        return tk

    def _ev(self, kind, tk, a=None, b=None):
        self.log.append((kind, tk, a, b, time.perf_counter()))

    def _set_abort(self, reason, watchdog=False):
        if not self.abort:
            self.abort = True
            self.abort_reason = reason
            self.watchdog = self.watchdog or watchdog
        self._wake_all()

    def _wake_all(self):
        self.cond.notify_all()
        for cv in self.cv_w.values():
            cv.notify_all()

    # ---- gate
    def _gate(self, kind, pair):
        """Called with self.cond held, in the thread that reached the gate."""
        tk = self._tk()
        if self.mode != "controlled" or self.abort or self.free_after:
            self._ev("go", tk, kind, pair)
            return
        w = self.widx_of.get(tk)
        if w is None:
            w = self.first_pair_to_worker.get(pair)
            if w is None or w in self.claimed:
                # a thread the probe run did not announce (the partition changed between runs):
                # the schedule cannot be realised; let everything run and report 'not realised'
                self._set_abort("unknown-worker-at-gate")
                self._ev("go", tk, kind, pair)
                return
            self.widx_of[tk] = w
            self.claimed.add(w)
        self.waiting[w] = (kind, pair)
        cv = self.cv_w.get(w)
        if cv is None:
            cv = self.cv_w[w] = threading.Condition(self.lock)
        self.cond.notify_all()
        t_end = time.monotonic() + self.total_timeout
        while not self.grant.get(w) and not self.abort and not self.free_after:
            cv.wait(0.5)
            if time.monotonic() > t_end:
                self._set_abort("watchdog:gate-never-granted", watchdog=True)
        self.grant[w] = False
        self.waiting.pop(w, None)
        self._ev("go", tk, kind, pair)
        self.cond.notify_all()

    # ---- scheduler thread
    def _scheduler(self):
        with self.cond:
            for w in self.schedule:
                ok = self.cond.wait_for(lambda: w in self.waiting or w in self.done_w or self.abort,
                                        timeout=self.step_timeout)
                if self.abort:
                    return
                if not ok:
                    self._set_abort(f"watchdog:worker-{w}-did-not-arrive", watchdog=True)
                    return
                if w not in self.waiting:
                    self._set_abort("worker-finished-before-its-scheduled-step")
                    return
                self.grant[w] = True
                self.cv_w[w].notify_all()
                ok = self.cond.wait_for(
                    lambda: (not self.grant[w] and (w in self.waiting or w in self.done_w)) or self.abort,
                    timeout=self.step_timeout)
                if self.abort:
                    return
                if not ok:
                    self._set_abort(f"watchdog:worker-{w}-did-not-reach-next-gate", watchdog=True)
                    return
                self.steps_done += 1
            self.free_after = True
            self._wake_all()

    # ---- integrand wrapper
    def wrap_form(self):
        raw = self.raw
        nu, nv = self.nu, self.nv

        @functools.wraps(raw)
        def wrapped(*args):
            with self.cond:
                tk = self._tk()
                j = self.umap.get(id(args[0]))
                i = self.vmap.get(id(args[nu])) if len(args) > nu else None
                pair = None
                if i is None or j is None or len(args) != nu + nv + 1:
                    self.unresolved_pairs += 1
                else:
                    pair = (i, j)
                    ok = all(a is b for a, b in zip(args[:nu], self.ub.basis[j])) and \
                        all(a is b for a, b in zip(args[nu:nu + nv], self.vb.basis[i]))
                    if not ok:
                        self.operand_mismatch.append((tk, pair))
                w = args[-1]
                self.w_ids.add(id(w))
                if self.w_seen is None:
                    self.w_seen = w
                    self.w_digest_first = digest_obj(dict(w)) if isinstance(w, dict) else digest_obj(w)
                self._ev("enter", tk, pair)
                self._gate("c", pair)
            try:
                out = raw(*args)
            except BaseException as e:
                with self.cond:
                    self._ev("raise", tk, pair, repr(e)[:200])
                raise
            with self.cond:
                self._ev("exit", tk, pair)
            return out
        return wrapped

    # ---- store hooks (LoggingArray)
    def _before_store(self):
        with self.cond:
            tk = self._tk()
            self._ev("prestore", tk)
            if self.fine:
                self._gate("s", None)

    def _after_store(self, slots, back):
        with self.cond:
            self._ev("store", self._tk(), slots, back)

    # ---- instance instrumentation
    def instrument(self, inst):
        cls = type(inst)
        real_tk = cls._threaded_kernel
        real_asm = cls._assemble
        h = self

        def threaded_kernel(data, *rest, **kw):
            with h.cond:
                tk = h._tk()
                h.worker_tks.append(tk)
                chunk = None
                try:
                    if rest and isinstance(rest[0], np.ndarray):
                        chunk = tuple(tuple(int(x) for x in r) for r in np.asarray(rest[0]).tolist())
                except Exception:
                    chunk = None
                h._ev("spawn", tk, threading.get_ident(), chunk)
            err = None
            try:
                if isinstance(data, np.ndarray):
                    lg = data.view(LoggingArray)
                    lg._h = h
                    lg._imap = np.arange(data.size).reshape(data.shape)
                else:
                    lg = data
                return real_tk(inst, lg, *rest, **kw)
            except BaseException as e:  # recorded, then re-raised so the library's behaviour is unchanged
                err = f"{type(e).__name__}: {e}"[:300]
                raise
            finally:
                with h.cond:
                    h._ev("done", tk, err)
                    w = h.widx_of.get(tk)
                    if w is not None:
                        h.done_w.add(w)
                    h.cond.notify_all()

        def assemble(*a, **kw):
            if not h.expire_join_timeouts:
                out = real_asm(inst, *a, **kw)
            else:
                orig_join = threading.Thread.join
                caller = threading.current_thread()

                def join(self, timeout=None):
                    if timeout is not None and threading.current_thread() is caller and self not in h.own_threads:
                        h.finite_joins += 1
                        return orig_join(self, 0)
                    return orig_join(self, timeout)
                threading.Thread.join = join
                h.join_patch_used = True
                try:
                    out = real_asm(inst, *a, **kw)
                finally:
                    threading.Thread.join = orig_join
            with h.cond:
                alive = [tk for tk in h.worker_tks if h.thread_objs[tk].is_alive()]
                h._ev("return", h._tk(), alive)
                h.assemble_out = out
            return out

        inst._threaded_kernel = threaded_kernel
        inst._assemble = assemble
        return inst

    # ---- run one assembly under this harness
    def run(self, inst, vb_arg, kwargs):
        """inst: BilinearForm built on self.wrap_form(), already instrument()-ed.  `vb_arg` is what is
        passed as the test basis (None = single-basis call)."""
        sched_thread = None
        quiet = _QuietExcepthook()
        quiet.__enter__()
        A = None
        before = set(threading.enumerate())
        try:
            if self.mode == "controlled":
                sched_thread = threading.Thread(target=self._scheduler, name="c16-scheduler", daemon=True)
                self.own_threads.add(sched_thread)
                sched_thread.start()
            if vb_arg is None:
                A = inst.assemble(self.ub, **kwargs)
            else:
                A = inst.assemble(self.ub, vb_arg, **kwargs)
            if sched_thread is not None:
                sched_thread.join(self.total_timeout)
                if sched_thread.is_alive():
                    with self.cond:
                        self._set_abort("watchdog:scheduler-did-not-finish", watchdog=True)
            # workers the library did not join (including ones that were started but have not reached the
            # wrapper yet): wait for them here so that the log is complete before it is judged
            with self.cond:
                pending = [self.thread_objs[tk] for tk in self.worker_tks]
            pending += [th for th in threading.enumerate()
                        if th not in before and th is not sched_thread and th is not threading.current_thread()]
            for th in pending:
                th.join(self.total_timeout)
                if th.is_alive():
                    with self.cond:
                        self._set_abort("watchdog:worker-did-not-finish", watchdog=True)
        finally:
            with self.cond:
                if (sched_thread is not None and sched_thread.is_alive()) or \
                        any(self.thread_objs[tk].is_alive() for tk in self.worker_tks):
                    self._set_abort(self.abort_reason or "cleanup")
            if sched_thread is not None:
                sched_thread.join(10.0)
            for tk in list(self.worker_tks):
                self.thread_objs[tk].join(10.0)
            quiet.__exit__(None, None, None)
            self.thread_deaths = quiet.seen
        return A

    # ---- derived views of the log (after run(); no thread is running any more)
    def per_thread_pairs(self):
        seq = {}
        for kind, tk, a, b, t in self.log:
            if kind == "enter":
                seq.setdefault(tk, []).append(a)
        return seq

    def kernel_order(self):
        """Global order in which kernel invocations (and, in fine mode, stores) passed their gate."""
        return [(tk, a, b) for kind, tk, a, b, t in self.log if kind == "go"]

    def order_hash(self, tk_names=None):
        """Hash of the global gate-passage order with threads named by the first pair they computed
        (so the hash does not depend on spawn order or thread idents)."""
        first = {}
        for kind, tk, a, b, t in self.log:
            if kind == "enter" and tk not in first:
                first[tk] = a
        h = hashlib.blake2b(digest_size=8)
        for kind, tk, a, b, t in self.log:
            if kind == "go":
                h.update(repr((first.get(tk), a, b)).encode())
        return h.hexdigest()

    def lifetimes(self):
        """tk -> (seq of spawn, seq of done) for workers; seq = index in the log."""
        sp, dn = {}, {}
        for s, (kind, tk, a, b, t) in enumerate(self.log):
            if kind == "spawn":
                sp[tk] = s
            elif kind == "done":
                dn[tk] = s
        return {tk: (sp[tk], dn.get(tk, len(self.log))) for tk in sp}


class _QuietExcepthook:
    """Collect exceptions that kill threads instead of printing them to stderr."""

    def __enter__(self):
        self.seen = []
        self.old = threading.excepthook
        threading.excepthook = lambda args: self.seen.append(
            (getattr(args.thread, "name", "?"), f"{args.exc_type.__name__}: {args.exc_value}"[:300]))
        return self

    def __exit__(self, *a):
        threading.excepthook = self.old


# --------------------------------------------------------------------------- yield injection
class YieldInjector:
    """sys.monitoring LINE / PY_RETURN callbacks inside the given code objects that give up the GIL
    (`time.sleep(0)`) or sleep 0-200 microseconds, per thread from an own seeded stream.

    PY_RETURN of `_kernel` fires after the block of a pair has been computed and before
    `_threaded_kernel` stores it: that is the 'between compute and store' point; LINE events cover
    the loop header, the unpacking of (i, j) and the argument evaluation.
    Tool id 3 (the reach tracker owns 4)."""
    TOOL = 3

    def __init__(self, codes, seed, p_yield=0.35, p_sleep=0.35, max_us=200, main_factor=0.5):
        self.codes = list(codes)
        self.seed = int(seed)
        self.p_yield, self.p_sleep, self.max_us = p_yield, p_sleep, max_us
        self.main_factor = main_factor
        self.local = threading.local()
        self.lock = threading.Lock()
        self.counters = []
        self.nthreads_seen = 0
        self.active = False
        self.main = threading.main_thread()

    def start(self):
        mon = sys.monitoring
        mon.use_tool_id(self.TOOL, "rv-c16-yield")
        E = mon.events
        for c in self.codes:
            mon.set_local_events(self.TOOL, c, E.LINE | E.PY_RETURN)
        mon.register_callback(self.TOOL, E.LINE, self._line)
        mon.register_callback(self.TOOL, E.PY_RETURN, self._ret)
        self.active = True

    def stop(self):
        if not self.active:
            return
        mon = sys.monitoring
        for c in self.codes:
            mon.set_local_events(self.TOOL, c, 0)
        mon.register_callback(self.TOOL, mon.events.LINE, None)
        mon.register_callback(self.TOOL, mon.events.PY_RETURN, None)
        mon.free_tool_id(self.TOOL)
        self.active = False

    def _state(self):
        st = getattr(self.local, "st", None)
        if st is None:
            with self.lock:
                n = self.nthreads_seen
                self.nthreads_seen += 1
                st = {"rng": random.Random(self.seed * 1000003 + n), "yields": 0, "sleeps": 0, "events": 0,
                      "scale": self.main_factor if threading.current_thread() is self.main else 1.0}
                self.counters.append(st)
            self.local.st = st
        return st

    def _inject(self):
        st = self._state()
        st["events"] += 1
        r = st["rng"].random()
        if r < self.p_yield * st["scale"]:
            st["yields"] += 1
            time.sleep(0)
        elif r < (self.p_yield + self.p_sleep) * st["scale"]:
            st["sleeps"] += 1
            time.sleep(st["rng"].random() * self.max_us * 1e-6)

    def _line(self, code, line):
        self._inject()

    def _ret(self, code, offset, retval):
        self._inject()

    def totals(self):
        with self.lock:
            return {k: sum(c[k] for c in self.counters) for k in ("events", "yields", "sleeps")}
