"""Workload generators: meshes.

Every generator returns a MeshCase: the skfem mesh built with the library's *default*
constructors, the cell kind, order and a JSON-able descriptor.  Coordinates are dyadic
rationals so that reference models can work in exact Fractions.
"""
from __future__ import annotations

import itertools
from dataclasses import dataclass, field

import numpy as np

from ..exact import HEX_CORNERS, QUAD_CORNERS

KINDS = ("line", "tri", "quad", "tet", "hex", "wedge")
DIM = {"line": 1, "tri": 2, "quad": 2, "tet": 3, "hex": 3, "wedge": 3}
NVERT = {"line": 2, "tri": 3, "quad": 4, "tet": 4, "hex": 8, "wedge": 6}


@dataclass
class MeshCase:
    mesh: object
    kind: str
    order: int = 1
    desc: dict = field(default_factory=dict)
    # geometry class flags used by oracles to decide what mathematics promises
    affine_cells: bool = True      # every cell is an affine image of the reference cell
    straight: bool = True          # straight-sided (second-order classes: nodes at midpoints)
    planar_faces: bool = True      # 3-D multilinear cells with planar faces
    convex: bool = True

    @property
    def dim(self):
        return DIM[self.kind]


def mesh_class(kind, order=1):
    import skfem
    return {("line", 1): skfem.MeshLine1, ("tri", 1): skfem.MeshTri1, ("quad", 1): skfem.MeshQuad1,
            ("tet", 1): skfem.MeshTet1, ("hex", 1): skfem.MeshHex1, ("wedge", 1): skfem.MeshWedge1,
            ("tri", 2): skfem.MeshTri2, ("quad", 2): skfem.MeshQuad2, ("tet", 2): skfem.MeshTet2,
            ("hex", 2): skfem.MeshHex2}[(kind, order)]


def kind_of(mesh):
    import skfem
    for k, c in (("hex", skfem.MeshHex1), ("wedge", skfem.MeshWedge1), ("tet", skfem.MeshTet1),
                 ("quad", skfem.MeshQuad1), ("tri", skfem.MeshTri1), ("line", skfem.MeshLine1)):
        if isinstance(mesh, c):
            return k
    raise ValueError(type(mesh))


def order_of(mesh):
    return 2 if type(mesh).__name__.rstrip("DG").endswith("2") else 1


# ----------------------------------------------------------------- helpers
def dyadic(rng, shape, bits=8, lo=0.0, hi=1.0):
    n = 2 ** bits
    return lo + (hi - lo) * rng.integers(0, n + 1, size=shape) / n


def snap(x, bits=10):
    return np.round(np.asarray(x, dtype=float) * 2 ** bits) / 2 ** bits


def clean(p, t):
    """Drop unused vertices."""
    used = np.unique(t)
    inv = -np.ones(p.shape[1], dtype=np.int64)
    inv[used] = np.arange(used.size)
    return p[:, used], inv[t]


def simplex_dets(p, t):
    d = p.shape[0]
    E = np.stack([p[:, t[i + 1]] - p[:, t[0]] for i in range(d)], axis=0)  # (d(edge), d(coord), nt)
    return np.linalg.det(np.moveaxis(E, 2, 0))


def simplex_hmax(p, t):
    h = np.zeros(t.shape[1])
    for i, j in itertools.combinations(range(t.shape[0]), 2):
        h = np.maximum(h, np.linalg.norm(p[:, t[i]] - p[:, t[j]], axis=0))
    return h


def quality_filter(p, t, floor):
    d = p.shape[0]
    q = np.abs(simplex_dets(p, t)) / simplex_hmax(p, t) ** d
    return t[:, q >= floor]


PYTHAG2 = [((3, -4), (4, 3), 5), ((5, -12), (12, 5), 13), ((-4, -3), (3, -4), 5), ((8, -15), (15, 8), 17)]


def rigid_motion(rng, d):
    """Rational rotation (entries k/5, k/13, …) and integer-ish dyadic translation."""
    if d == 1:
        R = np.array([[float(rng.choice([1.0, -1.0]))]])
    elif d == 2:
        a, b, n = PYTHAG2[rng.integers(len(PYTHAG2))]
        R = np.array([a, b], dtype=float) / n
    else:
        a, b, n = PYTHAG2[rng.integers(len(PYTHAG2))]
        R2 = np.array([a, b], dtype=float) / n
        R = np.eye(3)
        ax = rng.permutation(3)
        R[np.ix_(ax[:2], ax[:2])] = R2
        a, b, n = PYTHAG2[rng.integers(len(PYTHAG2))]
        R3 = np.eye(3)
        ax = rng.permutation(3)
        R3[np.ix_(ax[:2], ax[:2])] = np.array([a, b], dtype=float) / n
        R = R3 @ R
    shift = rng.integers(-3, 4, size=(d, 1)).astype(float) / 2
    return R, shift


# ------------------------------------------------------ local-order groups
def _cube_rotations():
    """Vertex permutations pi of RefHex induced by the 24 proper rotations R of the unit
    cube: corner[pi[k]] == R(corner[k])."""
    C = np.array(HEX_CORNERS, dtype=float) - 0.5
    perms = []
    for axes in itertools.permutations(range(3)):
        for signs in itertools.product((1, -1), repeat=3):
            R = np.zeros((3, 3))
            for i, (a, s) in enumerate(zip(axes, signs)):
                R[i, a] = s
            if round(np.linalg.det(R)) != 1:
                continue
            img = C @ R.T
            pi = [int(np.argmin(np.abs(C - img[k]).sum(1))) for k in range(8)]
            perms.append(pi)
    return perms


CUBE_ROTATIONS = _cube_rotations()
QUAD_SHIFTS = [[(i + s) % 4 for i in range(4)] for s in range(4)]
WEDGE_SHIFTS = [[(i + s) % 3 for i in range(3)] + [3 + (i + s) % 3 for i in range(3)] for s in range(3)]


def local_perms(kind):
    if kind in ("line", "tri", "tet"):
        return [list(pm) for pm in itertools.permutations(range(NVERT[kind]))]
    if kind == "quad":
        return QUAD_SHIFTS
    if kind == "hex":
        return CUBE_ROTATIONS
    if kind == "wedge":
        return WEDGE_SHIFTS
    raise ValueError(kind)


def renumber(rng, p, t, kind, vertices=True, cells=True, local=True):
    """Random vertex renumbering, cell permutation and admissible local vertex order per cell.
    Returns (p, t, info) with info = (vertex perm old->new, cell perm new->old)."""
    nv, nt = p.shape[1], t.shape[1]
    p = p.copy()
    t = t.copy()
    vperm = np.arange(nv)
    cperm = np.arange(nt)
    if local:
        perms = local_perms(kind)
        choice = rng.integers(len(perms), size=nt)
        P = np.array(perms)[choice]  # (nt, nvert)
        t = np.take_along_axis(t, P.T, axis=0)
    if vertices:
        new_of_old = rng.permutation(nv)
        p2 = np.empty_like(p)
        p2[:, new_of_old] = p
        p = p2
        t = new_of_old[t]
        vperm = new_of_old
    if cells:
        cperm = rng.permutation(nt)
        t = t[:, cperm]
    return p, t, (vperm, cperm)


# ------------------------------------------------------------------- lines
def line_mesh(rng, n=None, style=None):
    import skfem
    n = n or int(rng.integers(2, 12))
    style = style or rng.choice(["sorted", "unsorted", "reversed", "graded", "components"])
    if style == "graded":
        x = np.concatenate([[0.0], np.cumsum(2.0 ** -rng.integers(0, 10, size=n))])
    else:
        x = np.unique(dyadic(rng, n + 1, bits=8, lo=-1, hi=2))
        while x.size < 3:
            x = np.unique(dyadic(rng, n + 3, bits=8, lo=-1, hi=2))
    nn = x.size
    t = np.vstack([np.arange(nn - 1), np.arange(1, nn)])
    p = x[None, :]
    if style == "components" and nn >= 5:
        keep = np.ones(nn - 1, dtype=bool)
        keep[rng.integers(1, nn - 2)] = False
        t = t[:, keep]
        p, t = clean(p, t)
    if style in ("unsorted", "components"):
        p, t, _ = renumber(rng, p, t, "line", local=False)
    if style == "reversed":
        flip = rng.random(t.shape[1]) < 0.5
        t[:, flip] = t[::-1, flip]
        p, t, _ = renumber(rng, p, t, "line", local=False)
    m = skfem.MeshLine1(p, t)
    return MeshCase(m, "line", 1, {"gen": "line", "style": str(style), "ncells": int(t.shape[1])})


# --------------------------------------------------------------- triangles
def _tri_points(rng, style, n):
    if style == "jitter":
        g = int(max(2, round(np.sqrt(n))))
        X, Y = np.meshgrid(np.arange(g + 1), np.arange(g + 1))
        P = np.vstack([X.ravel(), Y.ravel()]).astype(float) / g
        J = (rng.integers(-90, 91, size=P.shape) / 256.0) / g
        P = snap(P + J, 10)
    elif style == "random":
        P = dyadic(rng, (2, n), bits=8)
        P = np.unique(P, axis=1)
    elif style == "cocircular":
        g = int(max(2, round(np.sqrt(n))))
        X, Y = np.meshgrid(np.arange(g + 1), np.arange(g + 1))
        P = np.vstack([X.ravel(), Y.ravel()]).astype(float) / g
    elif style == "anisotropic":
        P = dyadic(rng, (2, n), bits=8)
        P = np.unique(P, axis=1)
        P[1] = P[1] / 2 ** int(rng.integers(3, 8))
    else:
        raise ValueError(style)
    return P


def tri_mesh(rng, n=None, style=None, renum=True, holes=None, floor=2.0 ** -10, build=True):
    import skfem
    from scipy.spatial import Delaunay
    style = style or rng.choice(["jitter", "random", "cocircular", "anisotropic", "tensor", "lshaped",
                                 "symmetric", "sqsymmetric"], p=[.3, .2, .08, .08, .12, .08, .07, .07])
    n = n or int(rng.integers(6, 40))
    desc = {"gen": "tri", "style": str(style)}
    if style in ("jitter", "random", "cocircular", "anisotropic"):
        P = _tri_points(rng, style, n)
        tri = Delaunay(P.T, qhull_options="QJ Pp" if style == "cocircular" else None)
        t = tri.simplices.T.astype(np.int64)
        scale_floor = floor if style != "anisotropic" else floor / 2 ** 9
        t = quality_filter(P, t, scale_floor)
        p = P
    elif style == "tensor":
        x = np.unique(dyadic(rng, int(rng.integers(3, 7)), bits=6))
        y = np.unique(dyadic(rng, int(rng.integers(3, 7)), bits=6))
        m0 = skfem.MeshTri1.init_tensor(x, y)
        p, t = m0.p.copy(), m0.t.astype(np.int64)
    else:
        m0 = getattr(skfem.MeshTri1, "init_" + style)()
        if rng.random() < 0.5:
            m0 = m0.refined(1)
        p, t = m0.p.copy(), m0.t.astype(np.int64)
    holes = (rng.random() < 0.3) if holes is None else holes
    if holes and t.shape[1] > 6:
        k = max(1, t.shape[1] // 8)
        drop = rng.choice(t.shape[1], size=k, replace=False)
        keep = np.ones(t.shape[1], dtype=bool)
        keep[drop] = False
        t = t[:, keep]
        desc["holes"] = int(k)
    p, t = clean(p, t)
    if t.shape[1] < 2:
        return tri_mesh(rng, n=max(n, 12), style="jitter", renum=renum, holes=False, build=build)
    if renum:
        p, t, _ = renumber(rng, p, t, "tri")
        desc["renumbered"] = True
    desc["ncells"] = int(t.shape[1])
    if not build:
        return p, t, desc
    return MeshCase(skfem.MeshTri1(p, t), "tri", 1, desc)


# ---------------------------------------------------------- quadrilaterals
def _quad_convex(p, t):
    """All four corner cross products have one sign (either orientation) and every corner angle is well away from
    0 and 180 degrees (|sin| >= 0.15), so that thin, nearly collinear quadrilaterals are not produced."""
    crs = []
    for i in range(4):
        a, b, c = p[:, t[i]], p[:, t[(i + 1) % 4]], p[:, t[(i + 2) % 4]]
        cr = (b[0] - a[0]) * (c[1] - b[1]) - (b[1] - a[1]) * (c[0] - b[0])
        crs.append(cr / (np.linalg.norm(b - a, axis=0) * np.linalg.norm(c - b, axis=0) + 1e-300))
    crs = np.array(crs)
    return ((crs > 0.15).all(axis=0)) | ((crs < -0.15).all(axis=0))


def quad_mesh(rng, style=None, renum=True, n=None, build=True):
    import skfem
    style = style or rng.choice(["tensor", "sheared", "distorted", "tri2quad"], p=[.25, .25, .3, .2])
    desc = {"gen": "quad", "style": str(style)}
    affine = True
    nx, ny = (int(rng.integers(2, 6)), int(rng.integers(2, 6))) if n is None else n
    if style in ("tensor", "sheared", "distorted"):
        x = np.unique(dyadic(rng, nx + 1, bits=6))
        y = np.unique(dyadic(rng, ny + 1, bits=6))
        while x.size < 3:
            x = np.unique(dyadic(rng, nx + 2, bits=6))
        while y.size < 3:
            y = np.unique(dyadic(rng, ny + 2, bits=6))
        m0 = skfem.MeshQuad1.init_tensor(x, y)
        p, t = m0.p.copy(), m0.t.astype(np.int64)
        if style == "sheared":
            S = np.array([[1.0, rng.integers(-4, 5) / 4], [rng.integers(-2, 3) / 8, 1.0]])
            p = S @ p
        if style == "distorted":
            affine = False
            hx = np.diff(x).min()
            hy = np.diff(y).min()
            # every second distorted mesh moves only some vertices: exactly affine and general cells side by side
            moved = np.ones(p.shape[1]) if rng.random() < 0.5 else (rng.random(p.shape[1]) < 0.3).astype(float)
            if not moved.any():
                moved[int(rng.integers(p.shape[1]))] = 1.0
            for attempt in range(6):
                amp = 0.3 / 2 ** attempt
                q = p.copy()
                q[0] += snap(rng.uniform(-amp, amp, size=p.shape[1]) * hx, 12) * moved
                q[1] += snap(rng.uniform(-amp, amp, size=p.shape[1]) * hy, 12) * moved
                if _quad_convex(q, t).all():
                    p = q
                    break
            else:
                affine = True
    else:  # each triangle -> 3 quads
        affine = False
        tp, tt, _ = tri_mesh(rng, n=int(rng.integers(5, 14)), style="jitter", renum=False, holes=False, build=False)
        d = simplex_dets(tp, tt)
        tt[:, d < 0] = tt[[0, 2, 1]][:, d < 0]
        nv, nt = tp.shape[1], tt.shape[1]
        edges = {}
        pts = [tp[:, i] for i in range(nv)]

        def mid(a, b):
            key = (min(a, b), max(a, b))
            if key not in edges:
                edges[key] = len(pts)
                pts.append((tp[:, a] + tp[:, b]) / 2)
            return edges[key]
        quads = []
        for a, b, c in tt.T:
            g = len(pts)
            pts.append(snap((tp[:, a] + tp[:, b] + tp[:, c]) / 3, 14))
            mab, mbc, mca = mid(a, b), mid(b, c), mid(c, a)
            quads += [(a, mab, g, mca), (b, mbc, g, mab), (c, mca, g, mbc)]
        p = np.array(pts).T
        t = np.array(quads, dtype=np.int64).T
        if not _quad_convex(p, t).all():
            return quad_mesh(rng, style="distorted", renum=renum, n=n, build=build)
    if renum:
        p, t, _ = renumber(rng, p, t, "quad")
        desc["renumbered"] = True
    desc["ncells"] = int(t.shape[1])
    if not build:
        return p, t, desc, affine
    return MeshCase(skfem.MeshQuad1(p, t), "quad", 1, desc, affine_cells=affine)


# --------------------------------------------------------------- tetrahedra
def tet_mesh(rng, style=None, renum=True, holes=None, floor=2.0 ** -9, build=True):
    import skfem
    from scipy.spatial import Delaunay
    style = style or rng.choice(["jitter", "tensor", "default", "random"], p=[.4, .25, .15, .2])
    desc = {"gen": "tet", "style": str(style)}
    if style in ("jitter", "random"):
        if style == "jitter":
            g = int(rng.integers(2, 4))
            X, Y, Z = np.meshgrid(*(np.arange(g + 1),) * 3)
            P = np.vstack([X.ravel(), Y.ravel(), Z.ravel()]).astype(float) / g
            P = snap(P + (rng.integers(-80, 81, size=P.shape) / 256.0) / g, 10)
        else:
            P = np.unique(dyadic(rng, (3, int(rng.integers(8, 30))), bits=7), axis=1)
        t = Delaunay(P.T).simplices.T.astype(np.int64)
        t = quality_filter(P, t, floor)
        p = P
    elif style == "tensor":
        ax = [np.unique(dyadic(rng, int(rng.integers(2, 4)) + 1, bits=5)) for _ in range(3)]
        ax = [a if a.size >= 2 else np.array([0.0, 1.0]) for a in ax]
        m0 = skfem.MeshTet1.init_tensor(*ax)
        p, t = m0.p.copy(), m0.t.astype(np.int64)
    else:
        m0 = skfem.MeshTet1().refined(int(rng.integers(0, 2)))
        p, t = m0.p.copy(), m0.t.astype(np.int64)
    holes = (rng.random() < 0.25) if holes is None else holes
    if holes and t.shape[1] > 8:
        keep = np.ones(t.shape[1], dtype=bool)
        keep[rng.choice(t.shape[1], size=max(1, t.shape[1] // 10), replace=False)] = False
        t = t[:, keep]
        desc["holes"] = True
    p, t = clean(p, t)
    if t.shape[1] < 2:
        return tet_mesh(rng, style="tensor", renum=renum, holes=False, build=build)
    if renum:
        p, t, _ = renumber(rng, p, t, "tet")
        desc["renumbered"] = True
    desc["ncells"] = int(t.shape[1])
    if not build:
        return p, t, desc
    return MeshCase(skfem.MeshTet1(p, t), "tet", 1, desc)


# --------------------------------------------------------------- hexahedra
def _extrude_quads(qp, qt, z):
    nv = qp.shape[1]
    p = np.hstack([np.vstack([qp, np.full(nv, zz)]) for zz in z])
    cells = []
    for layer in range(len(z) - 1):
        for q in qt.T:
            cell = []
            for (cx, cy, cz) in HEX_CORNERS:
                cell.append(q[QUAD_CORNERS.index((cx, cy))] + (layer + cz) * nv)
            cells.append(cell)
    return p, np.array(cells, dtype=np.int64).T


def hex_mesh(rng, style=None, renum=True, build=True):
    import skfem
    style = style or rng.choice(["tensor", "parallelepiped", "extruded", "jiggled"], p=[.3, .25, .25, .2])
    desc = {"gen": "hex", "style": str(style)}
    affine, planar = True, True
    if style in ("tensor", "parallelepiped", "jiggled"):
        ax = [np.unique(dyadic(rng, int(rng.integers(1, 4)) + 1, bits=5)) for _ in range(3)]
        ax = [a if a.size >= 2 else np.array([0.0, 1.0]) for a in ax]
        if sum(a.size - 1 for a in ax) < 4:
            ax[0] = np.array([0.0, 0.25, 1.0])
        m0 = skfem.MeshHex1.init_tensor(*ax)
        p, t = m0.p.copy(), m0.t.astype(np.int64)
        if style == "parallelepiped":
            S = np.eye(3) + np.triu(rng.integers(-2, 3, size=(3, 3)) / 4.0, 1)
            p = S @ p
        if style == "jiggled":
            affine = planar = False
            h = min(np.diff(a).min() for a in ax)
            moved = np.ones(p.shape[1]) if rng.random() < 0.5 else (rng.random(p.shape[1]) < 0.3).astype(float)
            if not moved.any():
                moved[int(rng.integers(p.shape[1]))] = 1.0
            p = p + snap(rng.uniform(-0.12, 0.12, size=p.shape) * h, 12) * moved[None, :]
    else:
        qp, qt, _, qaff = quad_mesh(rng, style=str(rng.choice(["distorted", "sheared"])), renum=False,
                                    n=(int(rng.integers(1, 4)), int(rng.integers(1, 3))), build=False)
        z = np.unique(dyadic(rng, int(rng.integers(2, 4)), bits=5))
        z = z if z.size >= 2 else np.array([0.0, 0.5, 1.0])
        p, t = _extrude_quads(qp, qt, z)
        affine = qaff
        if rng.random() < 0.5:
            S = np.eye(3) + np.triu(rng.integers(-2, 3, size=(3, 3)) / 4.0, 1)
            p = S @ p
    if renum:
        p, t, _ = renumber(rng, p, t, "hex")
        desc["renumbered"] = True
    desc["ncells"] = int(t.shape[1])
    if not build:
        return p, t, desc, affine, planar
    return MeshCase(skfem.MeshHex1(p, t), "hex", 1, desc, affine_cells=affine, planar_faces=planar)


# ------------------------------------------------------------------ prisms
def wedge_mesh(rng, renum=True, build=True, local=True):
    """Extruded prisms.  `local=True` additionally applies a cyclic shift of the local vertex order
    per cell (on by default since the library's facet tables no longer depend on the start vertex of a padded
    triangular facet, the former finding of C11)."""
    import skfem
    tp, tt, _ = tri_mesh(rng, n=int(rng.integers(4, 10)), style=str(rng.choice(["jitter", "tensor"])),
                         renum=False, holes=False, build=False)
    z = np.unique(dyadic(rng, int(rng.integers(2, 4)), bits=5))
    z = z if z.size >= 2 else np.array([0.0, 0.5, 1.0])
    zt = np.vstack((np.arange(z.size - 1), np.arange(1, z.size)))          # explicit connectivity of the line mesh
    m0 = skfem.MeshTri1(tp, tt) * skfem.MeshLine1(z[None, :], zt)
    p, t = m0.p.copy(), m0.t.astype(np.int64)
    desc = {"gen": "wedge"}
    if renum:
        p, t, _ = renumber(rng, p, t, "wedge", local=local)
        desc["renumbered"] = True
        desc["local_shifts"] = bool(local)
    desc["ncells"] = int(t.shape[1])
    if not build:
        return p, t, desc
    return MeshCase(skfem.MeshWedge1(p, t), "wedge", 1, desc)


# ------------------------------------------------------------ second order
def second_order(rng, mc: MeshCase, curved=None):
    """MeshXxx2.from_mesh of a first-order case; optionally curved by bounded displacement
    of the non-vertex nodes (|delta| <= h/10), rejected if any Jacobian changes sign."""
    cls = mesh_class(mc.kind, 2)
    m2 = cls.from_mesh(mc.mesh)
    curved = (rng.random() < 0.5) if curved is None else curved
    desc = dict(mc.desc, order=2, curved=bool(curved))
    if not curved:
        return MeshCase(m2, mc.kind, 2, desc, affine_cells=mc.affine_cells, straight=True,
                        planar_faces=mc.planar_faces)
    nv = mc.mesh.p.shape[1]
    m1 = mc.mesh
    ent = m1.edges if m1.dim() == 3 else m1.facets
    h = float(np.linalg.norm(m1.p[:, ent[0]] - m1.p[:, ent[1]], axis=0).min())
    if mc.kind in ("tri", "tet"):
        # thin simplices: bound the displacement by the smallest height-like length |det| / hmax^(d-1)
        tt = np.asarray(m1.t)[:NVERT[mc.kind]]
        hq = float((np.abs(simplex_dets(m1.p, tt)) / simplex_hmax(m1.p, tt) ** (m1.dim() - 1)).min())
        h = min(h, 2.0 * hq)
    from dataclasses import replace
    X = _ref_sample_points(mc.kind)
    for attempt in range(8):
        # a displacement d of an edge node turns the edge tangents at the vertices by 4d: h/32 keeps them within ~12%
        amp = h / 32 / 4 ** attempt
        p = m2.doflocs.copy()
        p[:, nv:] += snap(rng.uniform(-amp, amp, size=p[:, nv:].shape), 20)
        m3 = replace(m2, doflocs=p)
        try:
            det = m3.mapping().detDF(X)
        except Exception:  # the library refuses exactly-zero determinants: not a usable cell
            continue
        ref = np.abs(det).max(axis=1, keepdims=True)
        if (np.sign(det) == np.sign(det[:, :1])).all() and (np.abs(det) > 0.3 * ref).all():
            return MeshCase(m3, mc.kind, 2, desc, affine_cells=False, straight=False, planar_faces=False)
    desc["curved"] = False
    return MeshCase(m2, mc.kind, 2, desc, affine_cells=mc.affine_cells, straight=True,
                    planar_faces=mc.planar_faces)


def _ref_sample_points(kind):
    d = DIM[kind]
    g = np.linspace(0, 1, 7 if d < 3 else 5)
    pts = np.array(list(itertools.product(g, repeat=d))).T
    if kind in ("tri", "tet"):
        pts = pts[:, pts.sum(0) <= 1 + 1e-12]
    return pts


# ------------------------------------------------------------------- zoo
def first_order(rng, kind, renum=True):
    if kind == "line":
        return line_mesh(rng)
    if kind == "tri":
        return tri_mesh(rng, renum=renum)
    if kind == "quad":
        return quad_mesh(rng, renum=renum)
    if kind == "tet":
        return tet_mesh(rng, renum=renum)
    if kind == "hex":
        return hex_mesh(rng, renum=renum)
    if kind == "wedge":
        return wedge_mesh(rng, renum=renum)
    raise ValueError(kind)


def any_mesh(rng, kinds=KINDS, orders=(1,), renum=True):
    kind = str(rng.choice(list(kinds)))
    mc = first_order(rng, kind, renum=renum)
    if 2 in orders and kind in ("tri", "quad", "tet", "hex") and (1 not in orders or rng.random() < 0.4):
        mc = second_order(rng, mc)
    return mc


DOCS_MESHES = "docs/examples/meshes"


def verts_of_cell(mesh, kind, c):
    """Vertex coordinates (float lists) of cell c in the harness' canonical order for rv.exact.cell_map."""
    return [mesh.p[:, v].tolist() for v in mesh.t[:NVERT[kind], c]]
