"""Element registry: one record per concrete class exported by skfem.element (plus the
parametrised ones for a range of degrees) with the *claims* the monitors hold them to.

Claims are taken from class docstrings / standard definitions and are deliberately
conservative.  `discover()` compares the registry with skfem.element.__all__ so that a
newly exported class cannot silently escape (-> inconclusive).
"""
from __future__ import annotations

import inspect
from dataclasses import dataclass, field
from typing import Callable, Optional

REFKIND = {"RefLine": "line", "RefTri": "tri", "RefQuad": "quad", "RefTet": "tet", "RefHex": "hex",
           "RefWedge": "wedge"}

# not concrete elements: bases, wrappers (built on demand), aliases are resolved by identity
ABSTRACT = {"Element", "ElementH1", "ElementHdiv", "ElementHcurl", "ElementGlobal", "ElementMatrix",
            "ElementVector", "ElementVectorH1", "ElementComposite", "ElementDG", "ElementTriDG",
            "ElementQuadDG", "ElementHexDG", "ElementTetDG", "DiscreteField"}


@dataclass
class Rec:
    name: str                       # registry key, e.g. "ElementTriP2" or "ElementLinePp(3)"
    make: Callable[[], object]      # fresh element object
    kind: str                       # reference cell kind
    family: str                     # h1 | hdiv | hcurl | matrix | global
    conforming: Optional[str]       # value | normal | tangential | nn | None (no inter-cell claim)
    nonconforming: Optional[str] = None  # facet-midpoint | morley | c0-only-hermite ...
    c1: bool = False                # continuous gradient (on `mesh_req` meshes)
    complete: int = 0               # P_k contained in the local space (total degree)
    tensor_complete: int = 0        # Q_k contained (tensor-product cells)
    nodal: bool = False             # Lagrange: phi_i(doflocs_j) = delta_ij
    pou: str = "none"               # "all" | "u-named" | "none": which functions sum to one
    mesh_req: str = "any"           # any | affine | axis-parallel (structured, axis-aligned boxes)
    skeleton: bool = False          # lives on facets only
    hess: bool = False              # delivers hessians
    facet_basis: bool = True        # FacetBasis can be built
    vector_valued: bool = False
    cls: object = None

    def __call__(self):
        return self.make()


def _h1(name, kind, deg, nodal=True, pou="all", tens=0, **kw):
    d = dict(name=name, kind=kind, family="h1", conforming="value", complete=deg, tensor_complete=tens,
             nodal=nodal, pou=pou)
    d.update(kw)
    return d


def _table():
    T = []
    a = T.append
    # ---- line
    a(_h1("ElementLineP0", "line", 0, conforming=None))
    a(_h1("ElementLineP1", "line", 1))
    a(_h1("ElementLineP2", "line", 2))
    a(_h1("ElementLineP1DG", "line", 1, conforming=None))
    a(_h1("ElementLineMini", "line", 1, nodal=False, pou="u-named"))
    a(dict(name="ElementLineHermite", kind="line", family="global", conforming="value", c1=True, complete=3,
           pou="u-named", mesh_req="affine"))
    # ---- triangle
    a(_h1("ElementTriP0", "tri", 0, conforming=None))
    a(_h1("ElementTriP1", "tri", 1))
    a(_h1("ElementTriP2", "tri", 2))
    a(_h1("ElementTriP3", "tri", 3))
    a(_h1("ElementTriP4", "tri", 4))
    a(_h1("ElementTriP1DG", "tri", 1, conforming=None))
    a(_h1("ElementTriP1B", "tri", 1, nodal=False, pou="u-named"))
    a(_h1("ElementTriP2B", "tri", 2, nodal=False, pou="u-named"))
    a(_h1("ElementTriCR", "tri", 1, conforming=None, nonconforming="facet-midpoint", nodal=True))
    a(_h1("ElementTriSkeletonP0", "tri", 0, conforming=None, skeleton=True, nodal=False, pou="none"))
    a(_h1("ElementTriSkeletonP1", "tri", 0, conforming=None, skeleton=True, nodal=False, pou="none"))
    a(dict(name="ElementTriRT1", kind="tri", family="hdiv", conforming="normal", complete=0, vector_valued=True))
    a(dict(name="ElementTriRT2", kind="tri", family="hdiv", conforming="normal", complete=1, vector_valued=True))
    a(dict(name="ElementTriBDM1", kind="tri", family="hdiv", conforming="normal", complete=1, vector_valued=True))
    a(dict(name="ElementTriN1", kind="tri", family="hcurl", conforming="tangential", complete=0, vector_valued=True))
    a(dict(name="ElementTriN2", kind="tri", family="hcurl", conforming="tangential", complete=1, vector_valued=True))
    a(dict(name="ElementTriN3", kind="tri", family="hcurl", conforming="tangential", complete=2,
           vector_valued=True, facet_basis=False))
    a(dict(name="ElementTriHHJ0", kind="tri", family="matrix", conforming="nn", complete=0))
    a(dict(name="ElementTriHHJ1", kind="tri", family="matrix", conforming="nn", complete=1))
    a(dict(name="ElementTriP1G", kind="tri", family="global", conforming="value", complete=1, nodal=True,
           pou="all", mesh_req="affine"))
    a(dict(name="ElementTriP2G", kind="tri", family="global", conforming="value", complete=2, nodal=True,
           pou="all", mesh_req="affine"))
    a(dict(name="ElementTriMorley", kind="tri", family="global", conforming=None, nonconforming="morley",
           complete=2, pou="u-named", mesh_req="affine", hess=True))
    a(dict(name="ElementTriArgyris", kind="tri", family="global", conforming="value", c1=True, complete=5,
           pou="u-named", mesh_req="affine", hess=True))
    a(dict(name="ElementTriHermite", kind="tri", family="global", conforming="value", complete=3,
           pou="u-named", mesh_req="affine", hess=True))
    a(dict(name="ElementTri15ParamPlate", kind="tri", family="global", conforming="value", complete=4,
           pou="u-named", mesh_req="affine", hess=True))
    # ---- quadrilateral
    a(_h1("ElementQuad0", "quad", 0, conforming=None))
    a(_h1("ElementQuad1", "quad", 1, tens=1))
    a(_h1("ElementQuad2", "quad", 2, tens=2))
    a(_h1("ElementQuadS2", "quad", 2, tens=1))
    a(_h1("ElementQuad1DG", "quad", 1, tens=1, conforming=None))
    a(dict(name="ElementQuadRT1", kind="quad", family="hdiv", conforming="normal", complete=0, vector_valued=True))
    a(dict(name="ElementQuadN1", kind="quad", family="hcurl", conforming="tangential", complete=0,
           vector_valued=True))
    # Q2 in *global* coordinates: its restriction to a slanted edge has degree 4, so it is conforming (and equal to
    # Q2) on axis-parallel rectangles only
    a(dict(name="ElementQuad2G", kind="quad", family="global", conforming="value", complete=2, tensor_complete=2,
           nodal=True, pou="all", mesh_req="axis-parallel"))
    a(dict(name="ElementQuadBFS", kind="quad", family="global", conforming="value", c1=True, complete=3,
           tensor_complete=3, pou="u-named", mesh_req="axis-parallel", hess=True))
    # ---- tetrahedron
    a(_h1("ElementTetP0", "tet", 0, conforming=None))
    a(_h1("ElementTetP1", "tet", 1))
    a(_h1("ElementTetP2", "tet", 2))
    a(_h1("ElementTetMini", "tet", 1, nodal=False, pou="u-named"))
    a(_h1("ElementTetCCR", "tet", 2, nodal=False, pou="u-named"))
    a(_h1("ElementTetCR", "tet", 1, conforming=None, nonconforming="facet-midpoint", nodal=True))
    a(_h1("ElementTetSkeletonP0", "tet", 0, conforming=None, skeleton=True, nodal=False, pou="none"))
    a(dict(name="ElementTetRT1", kind="tet", family="hdiv", conforming="normal", complete=0, vector_valued=True))
    a(dict(name="ElementTetN1", kind="tet", family="hcurl", conforming="tangential", complete=0,
           vector_valued=True))
    # ---- hexahedron
    a(_h1("ElementHex0", "hex", 0, conforming=None))
    a(_h1("ElementHex1", "hex", 1, tens=1))
    a(_h1("ElementHex2", "hex", 2, tens=2))
    a(_h1("ElementHexS2", "hex", 2, tens=1))
    a(_h1("ElementHex1DG", "hex", 1, tens=1, conforming=None))
    a(_h1("ElementHexSkeleton0", "hex", 0, conforming=None, skeleton=True, nodal=False, pou="none"))
    a(dict(name="ElementHexRT1", kind="hex", family="hdiv", conforming="normal", complete=0, vector_valued=True))
    a(dict(name="ElementHexC1", kind="hex", family="global", conforming="value", c1=True, complete=3,
           tensor_complete=3, pou="u-named", mesh_req="axis-parallel", hess=True))
    # ---- prism
    a(_h1("ElementWedge1", "wedge", 1, facet_basis=False))
    return T


PP_DEGREES = (1, 2, 3, 4, 5, 6)
QP_DEGREES = (1, 2, 3, 4, 5)


def registry():
    from skfem import element as E
    recs = []
    for d in _table():
        cls = getattr(E, d["name"])
        recs.append(Rec(make=cls, cls=cls, **d))
    for p in PP_DEGREES:
        recs.append(Rec(name=f"ElementLinePp({p})", make=(lambda p=p: E.ElementLinePp(p)), kind="line", family="h1",
                        conforming="value", complete=p, nodal=False, pou="none", cls=E.ElementLinePp))
    for p in QP_DEGREES:
        recs.append(Rec(name=f"ElementQuadP({p})", make=(lambda p=p: E.ElementQuadP(p)), kind="quad", family="h1",
                        conforming="value", complete=p, tensor_complete=p, nodal=False, pou="none",
                        cls=E.ElementQuadP))
    return recs


_BY_NAME = None


def by_name(name):
    global _BY_NAME
    if _BY_NAME is None:
        _BY_NAME = {r.name: r for r in registry()}
    return _BY_NAME[name]


def of_kind(kind, pred=None):
    return [r for r in registry() if r.kind == kind and (pred is None or pred(r))]


def discover():
    """Exported concrete Element classes without a record (must be empty)."""
    from skfem import element as E
    known = {r.cls for r in registry()}
    missing = []
    for name in sorted(set(E.__all__)):
        obj = getattr(E, name, None)
        if not inspect.isclass(obj) or not issubclass(obj, E.Element):
            continue
        if name in ABSTRACT or obj.__name__ in ABSTRACT:
            continue
        if obj not in known:
            missing.append(name)
    return missing


# ------------------------------------------------------------------ wrappers
def vector(rec: Rec, dim=None):
    from skfem import ElementVector
    return Rec(name=f"Vector({rec.name}" + (f",dim={dim})" if dim else ")"),
               make=lambda: ElementVector(rec.make(), dim) if dim else ElementVector(rec.make()),
               kind=rec.kind, family="h1vec", conforming=rec.conforming, nonconforming=rec.nonconforming,
               complete=rec.complete, tensor_complete=rec.tensor_complete, nodal=False, pou="none",
               mesh_req=rec.mesh_req, vector_valued=True, facet_basis=rec.facet_basis, cls=None)


def dg(rec: Rec):
    from skfem import ElementDG
    return Rec(name=f"DG({rec.name})", make=lambda: ElementDG(rec.make()), kind=rec.kind, family=rec.family,
               conforming=None, complete=rec.complete, tensor_complete=rec.tensor_complete, nodal=rec.nodal,
               pou=rec.pou, mesh_req=rec.mesh_req, vector_valued=rec.vector_valued, facet_basis=rec.facet_basis,
               cls=None)


def composite(*recs, shared=False):
    from skfem import ElementComposite

    def make():
        if shared:
            # `e = ElementTriP2(); e * e`: ONE element object serves as several components
            made = {}
            return ElementComposite(*[made.setdefault(r.name, r.make()) for r in recs])
        return ElementComposite(*[r.make() for r in recs])
    return Rec(name="Composite(" + ",".join(r.name for r in recs) + ")",
               make=make, kind=recs[0].kind, family="composite",
               conforming=None, complete=min(r.complete for r in recs), nodal=False, pou="none",
               mesh_req="affine" if any(r.mesh_req != "any" for r in recs) else "any",
               facet_basis=all(r.facet_basis for r in recs), cls=None)


# component combinations with *different* nodal/edge/facet/interior layouts
COMPOSITES = {
    "line": [("ElementLineP2", "ElementLineP1"), ("ElementLineP1", "ElementLineP0")],
    "tri": [("ElementTriP2", "ElementTriP1"), ("ElementTriRT1", "ElementTriP0"), ("ElementTriP1B", "ElementTriP1"),
            ("ElementTriN1", "ElementTriP2", "ElementTriP0"), ("ElementTriP3", "ElementTriCR")],
    "quad": [("ElementQuad2", "ElementQuad1"), ("ElementQuadRT1", "ElementQuad0"), ("ElementQuadS2", "ElementQuad0")],
    "tet": [("ElementTetP2", "ElementTetP1"), ("ElementTetN1", "ElementTetRT1"), ("ElementTetRT1", "ElementTetP0"),
            ("ElementTetN1", "ElementTetRT1", "ElementTetP0"), ("ElementTetP2", "ElementTetRT1")],
    "hex": [("ElementHex2", "ElementHex1"), ("ElementHexRT1", "ElementHex0"), ("ElementHexS2", "ElementHexRT1")],
}


def composites(kind):
    out = []
    for names in COMPOSITES.get(kind, []):
        out.append(composite(*[by_name(n) for n in names]))
    # the same components in reversed order (same totals per entity kind, different layout), so that both orders
    # are used within one process
    for names in COMPOSITES.get(kind, []):
        if len(names) == 2:
            out.append(composite(*[by_name(n) for n in reversed(names)]))
    # vector x scalar (Taylor-Hood like)
    if kind in ("tri", "tet", "quad", "hex"):
        hi = {"tri": "ElementTriP2", "tet": "ElementTetP2", "quad": "ElementQuad2", "hex": "ElementHex2"}[kind]
        lo = {"tri": "ElementTriP1", "tet": "ElementTetP1", "quad": "ElementQuad1", "hex": "ElementHex1"}[kind]
        out.append(composite(vector(by_name(hi)), by_name(lo)))
    # two (three) components that are one and the same element object
    same = {"line": "ElementLineP2", "tri": "ElementTriP2", "quad": "ElementQuad2", "tet": "ElementTetP1", "hex": "ElementHex1"}.get(kind)
    if same:
        out.append(composite(by_name(same), by_name(same), shared=True))
    if kind == "tri":
        out.append(composite(by_name("ElementTriP1"), by_name("ElementTriP2"), by_name("ElementTriP1"), shared=True))
    return out


def all_for_kind(kind, wrappers=True):
    """Registry records of this cell kind plus vector / DG / composite wrappers."""
    base = of_kind(kind)
    out = list(base)
    if wrappers:
        for r in base:
            if r.family == "h1" and not r.skeleton and r.name in (
                    "ElementLineP1", "ElementLineP2", "ElementTriP1", "ElementTriP2", "ElementTriP1B", "ElementTriCR",
                    "ElementQuad1", "ElementQuad2", "ElementQuadS2", "ElementTetP1", "ElementTetP2", "ElementTetCR",
                    "ElementHex1", "ElementHexS2", "ElementWedge1"):
                if kind != "line":
                    out.append(vector(r))
            # vector wrappers whose number of components differs from the spatial dimension
            if r.name in ("ElementLineP2", "ElementTriP2", "ElementTriCR", "ElementQuad2", "ElementTetP2", "ElementHex2",
                          "ElementHexS2", "ElementWedge1"):
                out.append(vector(r, {"line": 2, "tri": 3, "quad": 3, "tet": 2, "hex": 2, "wedge": 2}[kind]))
            if r.name in ("ElementLineP2", "ElementTriP2", "ElementTriRT1", "ElementTriP1B", "ElementQuad2", "ElementTetP2",
                          "ElementTetN1", "ElementHex2", "ElementHexS2", "ElementTriP3"):
                out.append(dg(r))
        out += composites(kind)
    return out
