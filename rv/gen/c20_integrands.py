"""C20 integrand grammar: every term exists three times, written independently.

* ``jx(u, v, w, P)``   the JAX integrand, written the way a user writes it: arithmetic on the
  ``JaxDiscreteField`` arguments and the helpers of ``skfem.autodiff.helpers`` (code under judgement);
* ``res(U, V, w, P)``  the same residual density in plain NumPy/einsum on plain ndarrays (reference; uses
  neither ``skfem.helpers`` nor JAX);
* ``jac(U, D, V, w, P)`` the hand-derived Gateaux derivative of ``res`` in direction ``D`` (closed form).

``u``/``v``/``U``/``D``/``V`` are tuples with one entry per component of the element (length 1 unless the
element is an ``ElementComposite``).  On the NumPy side an entry is an :class:`NF` (plain arrays ``v`` value,
``g`` grad, ``d`` div, ``c`` curl, ``h`` hess).  ``P`` is the dict of random coefficients of the term.

Energy terms (``NonlinearForm(hessian=True)``) have ``jx(u, w, P)`` = energy density, ``res`` = first
variation, ``jac`` = second variation.
"""
from __future__ import annotations

from dataclasses import dataclass, field
from typing import Callable, Optional

import numpy as np


# ------------------------------------------------------------------ plain NumPy algebra (reference side)
class NF:
    """Plain-ndarray view of a DiscreteField."""
    __slots__ = ("v", "g", "d", "c", "h")

    def __init__(self, f):
        a = lambda z: None if z is None else np.asarray(z)
        self.v = np.asarray(f)
        self.g = a(getattr(f, "grad", None))
        self.d = a(getattr(f, "div", None))
        self.c = a(getattr(f, "curl", None))
        self.h = a(getattr(f, "hess", None))


def nfs(fields):
    return tuple(NF(f) for f in fields)


def e_dot(a, b):
    return np.einsum("i...,i...->...", a, b)


def e_ddot(a, b):
    return np.einsum("ij...,ij...->...", a, b)


def e_mv(A, x):
    return np.einsum("ij...,j...->i...", A, x)


def e_mm(A, B):
    return np.einsum("ij...,jk...->ik...", A, B)


def e_T(A):
    return np.swapaxes(A, 0, 1)


def e_tr(A):
    return np.einsum("ii...->...", A)


def e_eye(n, like):
    out = np.zeros((n, n) + np.shape(like))
    for i in range(n):
        out[i, i] = 1.0
    return out


def _mv(A):
    return np.moveaxis(A, (0, 1), (-2, -1))


def la_det(A):
    return np.linalg.det(_mv(A))


def la_inv(A):
    return np.moveaxis(np.linalg.inv(_mv(A)), (-2, -1), (0, 1))


def la_cof(A):
    """Cofactor matrix det(A) A^{-T} (derivative of det)."""
    return la_det(A) * e_T(la_inv(A))


def det_with_doubled_minus(A):
    """Model of the reproduced defect A13 (only used to *classify* a witness): the 3x3 expansion with
    `- A01 (A10 A22 - - A12 A20)`, i.e. true det minus 2 A01 A12 A20."""
    return la_det(A) - 2.0 * A[0, 1] * A[1, 2] * A[2, 0]


def e_div(u: NF):
    return u.d if u.d is not None else e_tr(u.g)


# ------------------------------------------------------------------ term record
@dataclass
class Term:
    name: str
    layout: str                       # scalar | vector | hdiv-p0 | ...  (which element layouts it fits)
    jx: Callable
    res: Callable
    jac: Optional[Callable]
    coef: Callable = lambda rng: {}   # random coefficients
    linear: bool = False              # linear (affine) in the unknown
    positive: bool = False            # needs a linearisation point with u >= 1
    small: bool = False               # needs small gradients (det(I + grad u) > 0)
    amp: float = 40.0                 # amplitude of the 'large' linearisation point this term tolerates
    dims: tuple = (1, 2, 3)
    jax_helpers: tuple = ()           # names of skfem.autodiff.helpers used (evidence / classification)
    det3: bool = False                # uses the JAX 3x3 determinant when dim == 3
    energy: bool = False
    res_defect: Optional[Callable] = None   # residual under the model of a reproduced defect (classification only)
    kw: Optional[Callable] = None     # kw(rng, basis) -> keyword parameters passed to assemble() (reach `w` by name)


def _c(lo=0.5, hi=2.0, *names):
    def f(rng):
        return {n: float(np.round(rng.uniform(lo, hi), 3)) for n in names}
    return f


def JH():
    from skfem.autodiff import helpers
    return helpers


def jnp():
    import jax.numpy as j
    return j


# ------------------------------------------------------------------ keyword parameters of assemble()
# The library converts only its own default parameters (w.x, w.h, w.n) to JaxDiscreteField; keyword parameters
# reach the integrand as NumPy objects: a float, a DiscreteField (pre-interpolated, or made of a 1-D DOF array or of
# a 2-D array by the library), or a tuple of DiscreteFields (composite bases).  Integrands write the
# JaxDiscreteField first (`u * w.prev`) or convert with jnp.asarray(np.asarray(w.prev)).
def _dofs(rng, basis):
    return rng.uniform(-1, 1, size=basis.N)


def _nq(basis):
    return int(basis.X.shape[-1])


def _J(z):
    return jnp().asarray(np.asarray(z))


def _kw_scalar_field(rng, basis):
    return {"prev": basis.interpolate(_dofs(rng, basis)),                       # the Newton-loop idiom
            "q": rng.uniform(.5, 1.5, size=(basis.nelems, _nq(basis))),          # 2-D array: values at the quadrature points
            "s": float(np.round(rng.uniform(.5, 2), 3))}


def _kw_vector_field(rng, basis):
    return {"prev": basis.interpolate(_dofs(rng, basis)), "s": float(np.round(rng.uniform(.5, 2), 3)),
            "q": rng.uniform(.5, 1.5, size=(basis.nelems, _nq(basis)))}


def _kw_pair(rng, basis):
    return {"prev": basis.interpolate(_dofs(rng, basis)),                       # a tuple of DiscreteFields
            "k": _dofs(rng, basis),                                              # DOF array: interpolated to a tuple
            "t": float(np.round(rng.uniform(.5, 2), 3))}


def _kw_shadow_h(rng, basis):
    # a keyword parameter named like a default parameter: the caller's value is the one the integrand sees (as in every
    # other form type), here a 2-D array of values at the quadrature points
    return {"h": rng.uniform(1.5, 2.5, size=(basis.nelems, _nq(basis)))}


def _kw_shadow_n(rng, basis):
    d = basis.mesh.dim()
    return {"n": rng.uniform(.5, 1.5, size=(d, basis.nelems, _nq(basis))), "h": float(np.round(rng.uniform(1.5, 2.5), 3))}


def _kw_facet(rng, basis):
    return {"g": basis.interpolate(_dofs(rng, basis)), "k": _dofs(rng, basis), "t": float(np.round(rng.uniform(.5, 2), 3))}


# ================================================================== scalar H1 terms (value + grad)
def scalar_terms():
    T = []
    a = T.append
    a(Term("u2", "scalar",
           jx=lambda u, v, w, P: P["c"] * (u[0] * u[0]) * v[0],
           res=lambda U, V, w, P: P["c"] * U[0].v ** 2 * V[0].v,
           jac=lambda U, D, V, w, P: 2 * P["c"] * U[0].v * D[0].v * V[0].v,
           coef=_c(.5, 2, "c")))
    a(Term("u3-pow", "scalar",
           jx=lambda u, v, w, P: P["c"] * u[0] ** 3 * v[0],
           res=lambda U, V, w, P: P["c"] * U[0].v ** 3 * V[0].v,
           jac=lambda U, D, V, w, P: 3 * P["c"] * U[0].v ** 2 * D[0].v * V[0].v,
           coef=_c(.5, 2, "c")))
    a(Term("exp", "scalar",
           jx=lambda u, v, w, P: P["c"] * jnp().exp(P["a"] * u[0]) * v[0],
           res=lambda U, V, w, P: P["c"] * np.exp(P["a"] * U[0].v) * V[0].v,
           jac=lambda U, D, V, w, P: P["c"] * P["a"] * np.exp(P["a"] * U[0].v) * D[0].v * V[0].v,
           coef=_c(.3, 1.2, "c", "a"), amp=6.0))
    a(Term("sin", "scalar",
           jx=lambda u, v, w, P: P["c"] * jnp().sin(u[0].value) * v[0],
           res=lambda U, V, w, P: P["c"] * np.sin(U[0].v) * V[0].v,
           jac=lambda U, D, V, w, P: P["c"] * np.cos(U[0].v) * D[0].v * V[0].v,
           coef=_c(.5, 2, "c")))
    a(Term("laplace", "scalar",
           jx=lambda u, v, w, P: P["c"] * JH().dot(JH().grad(u[0]), JH().grad(v[0])),
           res=lambda U, V, w, P: P["c"] * e_dot(U[0].g, V[0].g),
           jac=lambda U, D, V, w, P: P["c"] * e_dot(D[0].g, V[0].g),
           coef=_c(.5, 2, "c"), linear=True, jax_helpers=("dot", "grad")))
    a(Term("minsurf", "scalar",
           jx=lambda u, v, w, P: P["c"] * JH().dot(JH().grad(u[0]), JH().grad(v[0]))
           / jnp().sqrt(1. + JH().dot(JH().grad(u[0]), JH().grad(u[0]))),
           res=lambda U, V, w, P: P["c"] * e_dot(U[0].g, V[0].g) / np.sqrt(1 + e_dot(U[0].g, U[0].g)),
           jac=lambda U, D, V, w, P: P["c"] * (
               e_dot(D[0].g, V[0].g) / np.sqrt(1 + e_dot(U[0].g, U[0].g))
               - e_dot(U[0].g, D[0].g) * e_dot(U[0].g, V[0].g) / (1 + e_dot(U[0].g, U[0].g)) ** 1.5),
           coef=_c(.5, 2, "c"), jax_helpers=("dot", "grad")))
    a(Term("quasilinear", "scalar",
           jx=lambda u, v, w, P: JH().dot((u[0] * u[0] + P["c"]) * JH().grad(u[0]), JH().grad(v[0])),
           res=lambda U, V, w, P: (U[0].v ** 2 + P["c"]) * e_dot(U[0].g, V[0].g),
           jac=lambda U, D, V, w, P: 2 * U[0].v * D[0].v * e_dot(U[0].g, V[0].g)
           + (U[0].v ** 2 + P["c"]) * e_dot(D[0].g, V[0].g),
           coef=_c(.5, 2, "c"), jax_helpers=("dot", "grad")))
    a(Term("ex54", "scalar",   # (u + 1) grad u . grad v, as written in docs/examples/ex54.py
           jx=lambda u, v, w, P: JH().dot((u[0] + 1) * JH().grad(u[0]), JH().grad(v[0])) - P["c"] * v[0],
           res=lambda U, V, w, P: (U[0].v + 1) * e_dot(U[0].g, V[0].g) - P["c"] * V[0].v,
           jac=lambda U, D, V, w, P: D[0].v * e_dot(U[0].g, V[0].g) + (U[0].v + 1) * e_dot(D[0].g, V[0].g),
           coef=_c(.5, 2, "c"), jax_helpers=("dot", "grad")))
    a(Term("convect-x", "scalar",   # u (x . grad u) v : unsymmetric Jacobian, uses w.x
           jx=lambda u, v, w, P: P["c"] * (u[0] * JH().dot(w.x, JH().grad(u[0]))) * v[0],
           res=lambda U, V, w, P: P["c"] * U[0].v * e_dot(np.asarray(w.x), U[0].g) * V[0].v,
           jac=lambda U, D, V, w, P: P["c"] * (D[0].v * e_dot(np.asarray(w.x), U[0].g)
                                               + U[0].v * e_dot(np.asarray(w.x), D[0].g)) * V[0].v,
           coef=_c(.5, 2, "c"), jax_helpers=("dot", "grad")))
    a(Term("plaplace4", "scalar",
           jx=lambda u, v, w, P: P["c"] * JH().dot(JH().grad(u[0]), JH().grad(u[0]))
           * JH().dot(JH().grad(u[0]), JH().grad(v[0])),
           res=lambda U, V, w, P: P["c"] * e_dot(U[0].g, U[0].g) * e_dot(U[0].g, V[0].g),
           jac=lambda U, D, V, w, P: P["c"] * (2 * e_dot(U[0].g, D[0].g) * e_dot(U[0].g, V[0].g)
                                               + e_dot(U[0].g, U[0].g) * e_dot(D[0].g, V[0].g)),
           coef=_c(.5, 2, "c"), amp=8.0, jax_helpers=("dot", "grad")))
    a(Term("load-x", "scalar",
           jx=lambda u, v, w, P: -P["c"] * jnp().sin(P["a"] * w.x[0]) * v[0],
           res=lambda U, V, w, P: -P["c"] * np.sin(P["a"] * np.asarray(w.x)[0]) * V[0].v,
           jac=lambda U, D, V, w, P: 0.0 * D[0].v * V[0].v,
           coef=_c(.5, 3, "c", "a"), linear=True))
    a(Term("advection-linear", "scalar",   # linear, unsymmetric matrix
           jx=lambda u, v, w, P: P["c"] * JH().dot(w.x, JH().grad(u[0])) * v[0] + P["a"] * u[0] * v[0],
           res=lambda U, V, w, P: P["c"] * e_dot(np.asarray(w.x), U[0].g) * V[0].v + P["a"] * U[0].v * V[0].v,
           jac=lambda U, D, V, w, P: P["c"] * e_dot(np.asarray(w.x), D[0].g) * V[0].v + P["a"] * D[0].v * V[0].v,
           coef=_c(.5, 2, "c", "a"), linear=True, jax_helpers=("dot", "grad")))
    a(Term("operators", "scalar",   # __rsub__, __sub__, __add__, __truediv__, __rmul__ of JaxDiscreteField
           jx=lambda u, v, w, P: (P["c"] * ((1.0 - u[0]) * (u[0] - P["a"])) * v[0]
                                  + ((u[0] + 1.0) * (u[0] / 2.0)) * v[0] + 3.0 * u[0] * v[0]),
           res=lambda U, V, w, P: (P["c"] * (1 - U[0].v) * (U[0].v - P["a"]) + (U[0].v + 1) * U[0].v / 2
                                   + 3 * U[0].v) * V[0].v,
           jac=lambda U, D, V, w, P: (P["c"] * (-(U[0].v - P["a"]) + (1 - U[0].v)) + U[0].v + .5 + 3)
           * D[0].v * V[0].v,
           coef=_c(.5, 2, "c", "a")))
    a(Term("field-with-field", "scalar",   # JaxDiscreteField (op) JaxDiscreteField with the default fields w.h
           jx=lambda u, v, w, P: (P["c"] * ((u[0] + w.h) * (u[0] - w.h)) * v[0] + ((u[0] / w.h) * (w.h * u[0])) * v[0]
                                  + (w.h - u[0]) * v[0]),
           res=lambda U, V, w, P: (P["c"] * (U[0].v ** 2 - np.asarray(w.h) ** 2) + U[0].v ** 2
                                   + np.asarray(w.h) - U[0].v) * V[0].v,
           jac=lambda U, D, V, w, P: (2 * P["c"] * U[0].v + 2 * U[0].v - 1) * D[0].v * V[0].v,
           coef=_c(.5, 2, "c")))
    a(Term("reciprocal", "scalar",   # __rtruediv__
           jx=lambda u, v, w, P: P["c"] * (2.0 / u[0]) * v[0],
           res=lambda U, V, w, P: P["c"] * 2.0 / U[0].v * V[0].v,
           jac=lambda U, D, V, w, P: -P["c"] * 2.0 / U[0].v ** 2 * D[0].v * V[0].v,
           coef=_c(.5, 2, "c"), positive=True))
    a(Term("kwargs", "scalar",   # scalar keyword argument t and a DOF-vector keyword argument k (interpolated)
           jx=lambda u, v, w, P: w.t * (u[0] * u[0]) * jnp().asarray(np.asarray(w.k)) * v[0]
           + P["c"] * JH().dot(jnp().asarray(np.asarray(w.k.grad)), JH().grad(u[0])) * (u[0] * v[0]),
           res=lambda U, V, w, P: w.t * U[0].v ** 2 * np.asarray(w.k) * V[0].v
           + P["c"] * e_dot(np.asarray(w.k.grad), U[0].g) * U[0].v * V[0].v,
           jac=lambda U, D, V, w, P: 2 * w.t * U[0].v * D[0].v * np.asarray(w.k) * V[0].v
           + P["c"] * (e_dot(np.asarray(w.k.grad), D[0].g) * U[0].v
                       + e_dot(np.asarray(w.k.grad), U[0].g) * D[0].v) * V[0].v,
           coef=_c(.5, 2, "c"), jax_helpers=("dot", "grad")))
    a(Term("kwargs-shadow-h", "scalar",   # the caller's own `h` (a 2-D array) instead of the mesh parameter
           jx=lambda u, v, w, P: P["c"] * ((u[0] * _J(w.h)) * u[0]) * v[0],
           res=lambda U, V, w, P: P["c"] * np.asarray(w.h) * U[0].v ** 2 * V[0].v,
           jac=lambda U, D, V, w, P: 2 * P["c"] * np.asarray(w.h) * U[0].v * D[0].v * V[0].v,
           coef=_c(.5, 2, "c"), kw=_kw_shadow_h))
    a(Term("kwargs-field", "scalar",   # pre-interpolated DiscreteField `prev`, 2-D array `q`, float `s`
           jx=lambda u, v, w, P: P["c"] * ((u[0] * w.prev) * u[0]) * v[0]
           + JH().dot(_J(w.prev.grad), JH().grad(u[0])) * ((u[0] * w.q) * v[0]) + w.s * u[0] * v[0],
           res=lambda U, V, w, P: P["c"] * np.asarray(w.prev) * U[0].v ** 2 * V[0].v
           + e_dot(np.asarray(w.prev.grad), U[0].g) * U[0].v * np.asarray(w.q) * V[0].v + w.s * U[0].v * V[0].v,
           jac=lambda U, D, V, w, P: 2 * P["c"] * np.asarray(w.prev) * U[0].v * D[0].v * V[0].v
           + (e_dot(np.asarray(w.prev.grad), D[0].g) * U[0].v + e_dot(np.asarray(w.prev.grad), U[0].g) * D[0].v)
           * np.asarray(w.q) * V[0].v + w.s * D[0].v * V[0].v,
           coef=_c(.5, 2, "c"), jax_helpers=("dot", "grad"), kw=_kw_scalar_field))
    return T


# ================================================================== vector H1 terms (value (d,..), grad (d,d,..))
def _I(G):
    return e_eye(G.shape[0], G[0, 0])


def _E(G):  # Green-Lagrange strain
    return .5 * (G + e_T(G) + e_mm(e_T(G), G))


def _dE(G, dG):
    return .5 * (dG + e_T(dG) + e_mm(e_T(dG), G) + e_mm(e_T(G), dG))


def _sym(G):
    return .5 * (G + e_T(G))


def vector_terms():
    T = []
    a = T.append

    a(Term("elasticity", "vector",
           jx=lambda u, v, w, P: 2 * P["mu"] * JH().ddot(JH().sym_grad(u[0]), JH().sym_grad(v[0]))
           + P["la"] * JH().div(u[0]) * JH().div(v[0]),
           res=lambda U, V, w, P: 2 * P["mu"] * e_ddot(_sym(U[0].g), _sym(V[0].g)) + P["la"] * e_tr(U[0].g) * e_tr(V[0].g),
           jac=lambda U, D, V, w, P: 2 * P["mu"] * e_ddot(_sym(D[0].g), _sym(V[0].g))
           + P["la"] * e_tr(D[0].g) * e_tr(V[0].g),
           coef=_c(.5, 2, "mu", "la"), linear=True, dims=(2, 3), jax_helpers=("ddot", "sym_grad", "div")))
    a(Term("oseen-linear", "vector",   # (grad u) x . v + u . v : linear, unsymmetric
           jx=lambda u, v, w, P: P["c"] * JH().dot(JH().mul(JH().grad(u[0]), w.x), v[0]) + P["a"] * JH().dot(u[0], v[0]),
           res=lambda U, V, w, P: P["c"] * e_dot(e_mv(U[0].g, np.asarray(w.x)), V[0].v) + P["a"] * e_dot(U[0].v, V[0].v),
           jac=lambda U, D, V, w, P: P["c"] * e_dot(e_mv(D[0].g, np.asarray(w.x)), V[0].v) + P["a"] * e_dot(D[0].v, V[0].v),
           coef=_c(.5, 2, "c", "a"), linear=True, dims=(2, 3), jax_helpers=("dot", "mul", "grad")))
    a(Term("body-force", "vector",
           jx=lambda u, v, w, P: -P["c"] * (w.x[0] * v[0][1]) + P["a"] * v[0][0],
           res=lambda U, V, w, P: -P["c"] * np.asarray(w.x)[0] * V[0].v[1] + P["a"] * V[0].v[0],
           jac=lambda U, D, V, w, P: 0.0 * D[0].v[0] * V[0].v[0],
           coef=_c(.5, 2, "c", "a"), linear=True, dims=(2, 3)))
    a(Term("convection", "vector",   # (grad u) u . v  (Navier-Stokes), unsymmetric
           jx=lambda u, v, w, P: P["c"] * JH().dot(JH().mul(JH().grad(u[0]), u[0]), v[0]),
           res=lambda U, V, w, P: P["c"] * e_dot(e_mv(U[0].g, U[0].v), V[0].v),
           jac=lambda U, D, V, w, P: P["c"] * e_dot(e_mv(D[0].g, U[0].v) + e_mv(U[0].g, D[0].v), V[0].v),
           coef=_c(.5, 2, "c"), dims=(2, 3), jax_helpers=("dot", "mul", "grad")))
    a(Term("stvenant", "vector",   # as in tests/test_autodiff.py::test_nonlin_elast
           jx=lambda u, v, w, P: _jx_stvk(u[0], v[0], P),
           res=lambda U, V, w, P: e_ddot(2 * P["mu"] * _E(U[0].g) + P["la"] * e_tr(_E(U[0].g)) * _I(U[0].g),
                                         _sym(V[0].g)),
           jac=lambda U, D, V, w, P: e_ddot(2 * P["mu"] * _dE(U[0].g, D[0].g)
                                            + P["la"] * e_tr(_dE(U[0].g, D[0].g)) * _I(U[0].g), _sym(V[0].g)),
           coef=_c(.5, 2, "mu", "la"), dims=(2, 3), amp=8.0,
           jax_helpers=("grad", "transpose", "mul", "eye", "trace", "ddot")))
    a(Term("det-pressure", "vector",   # (det(I + grad u) - 1) div v
           jx=lambda u, v, w, P: P["c"] * (JH().det(JH().grad(u[0]) + JH().eye(1. + 0. * u[0][0], u[0].shape[0])) - 1.)
           * JH().div(v[0]),
           res=lambda U, V, w, P: P["c"] * (la_det(U[0].g + _I(U[0].g)) - 1.) * e_tr(V[0].g),
           jac=lambda U, D, V, w, P: P["c"] * e_ddot(la_cof(U[0].g + _I(U[0].g)), D[0].g) * e_tr(V[0].g),
           coef=_c(.5, 2, "c"), dims=(2, 3), small=True, det3=True, jax_helpers=("det", "grad", "eye", "div"),
           res_defect=lambda U, V, w, P: P["c"] * ((det_with_doubled_minus(U[0].g + _I(U[0].g))
                                                    if U[0].g.shape[0] == 3 else la_det(U[0].g + _I(U[0].g))) - 1.)
           * e_tr(V[0].g)))
    a(Term("outer", "vector",   # (u (x) u) : grad v
           jx=lambda u, v, w, P: P["c"] * JH().ddot(JH().prod(u[0], u[0]), JH().grad(v[0])),
           res=lambda U, V, w, P: P["c"] * np.einsum("i...,j...,ij...->...", U[0].v, U[0].v, V[0].g),
           jac=lambda U, D, V, w, P: P["c"] * (np.einsum("i...,j...,ij...->...", D[0].v, U[0].v, V[0].g)
                                               + np.einsum("i...,j...,ij...->...", U[0].v, D[0].v, V[0].g)),
           coef=_c(.5, 2, "c"), dims=(2, 3), jax_helpers=("ddot", "prod", "grad")))
    a(Term("triple", "vector",   # (u (x) u (x) u) ::: (v (x) x (x) x) = (u.v)(u.x)^2
           jx=lambda u, v, w, P: P["c"] * JH().dddot(JH().prod(u[0], u[0], u[0]), JH().prod(v[0], w.x, w.x)),
           res=lambda U, V, w, P: P["c"] * e_dot(U[0].v, V[0].v) * e_dot(U[0].v, np.asarray(w.x)) ** 2,
           jac=lambda U, D, V, w, P: P["c"] * (e_dot(D[0].v, V[0].v) * e_dot(U[0].v, np.asarray(w.x)) ** 2
                                               + 2 * e_dot(U[0].v, V[0].v) * e_dot(U[0].v, np.asarray(w.x))
                                               * e_dot(D[0].v, np.asarray(w.x))),
           coef=_c(.5, 2, "c"), dims=(2, 3), amp=8.0, jax_helpers=("dddot", "prod")))
    a(Term("transpose-mul", "vector",   # (grad u)^T u . v  +  tr(grad u grad u) div v
           jx=lambda u, v, w, P: P["c"] * JH().dot(JH().mul(JH().transpose(JH().grad(u[0])), u[0]), v[0])
           + P["a"] * JH().trace(JH().mul(JH().grad(u[0]), JH().grad(u[0]))) * JH().trace(JH().grad(v[0])),
           res=lambda U, V, w, P: P["c"] * e_dot(e_mv(e_T(U[0].g), U[0].v), V[0].v)
           + P["a"] * e_tr(e_mm(U[0].g, U[0].g)) * e_tr(V[0].g),
           jac=lambda U, D, V, w, P: P["c"] * e_dot(e_mv(e_T(D[0].g), U[0].v) + e_mv(e_T(U[0].g), D[0].v), V[0].v)
           + 2 * P["a"] * e_tr(e_mm(U[0].g, D[0].g)) * e_tr(V[0].g),
           coef=_c(.5, 2, "c", "a"), dims=(2, 3), jax_helpers=("dot", "mul", "transpose", "trace", "grad")))
    a(Term("norm", "vector",   # sqrt(1 + |u|^2) u . v
           jx=lambda u, v, w, P: P["c"] * jnp().sqrt(1. + JH().dot(u[0], u[0])) * JH().dot(u[0], v[0]),
           res=lambda U, V, w, P: P["c"] * np.sqrt(1 + e_dot(U[0].v, U[0].v)) * e_dot(U[0].v, V[0].v),
           jac=lambda U, D, V, w, P: P["c"] * (e_dot(U[0].v, D[0].v) / np.sqrt(1 + e_dot(U[0].v, U[0].v))
                                               * e_dot(U[0].v, V[0].v)
                                               + np.sqrt(1 + e_dot(U[0].v, U[0].v)) * e_dot(D[0].v, V[0].v)),
           coef=_c(.5, 2, "c"), dims=(2, 3), jax_helpers=("dot",)))
    a(Term("component-load", "vector",   # indexing u[k] of a JaxDiscreteField
           jx=lambda u, v, w, P: P["c"] * (u[0][0] * u[0][1]) * v[0][1] - P["a"] * w.x[1] * v[0][0],
           res=lambda U, V, w, P: P["c"] * U[0].v[0] * U[0].v[1] * V[0].v[1] - P["a"] * np.asarray(w.x)[1] * V[0].v[0],
           jac=lambda U, D, V, w, P: P["c"] * (D[0].v[0] * U[0].v[1] + U[0].v[0] * D[0].v[1]) * V[0].v[1],
           coef=_c(.5, 2, "c", "a"), dims=(2, 3)))
    a(Term("kwargs-vector", "vector",   # (prev . u)(u . v) q + s (grad u grad prev) : grad v
           jx=lambda u, v, w, P: P["c"] * JH().dot(u[0], _J(w.prev)) * (JH().dot(u[0], v[0]) * _J(w.q))
           + w.s * JH().ddot(JH().mul(JH().grad(u[0]), _J(w.prev.grad)), JH().grad(v[0])),
           res=lambda U, V, w, P: P["c"] * e_dot(U[0].v, np.asarray(w.prev)) * e_dot(U[0].v, V[0].v) * np.asarray(w.q)
           + w.s * e_ddot(e_mm(U[0].g, np.asarray(w.prev.grad)), V[0].g),
           jac=lambda U, D, V, w, P: P["c"] * (e_dot(D[0].v, np.asarray(w.prev)) * e_dot(U[0].v, V[0].v)
                                               + e_dot(U[0].v, np.asarray(w.prev)) * e_dot(D[0].v, V[0].v)) * np.asarray(w.q)
           + w.s * e_ddot(e_mm(D[0].g, np.asarray(w.prev.grad)), V[0].g),
           coef=_c(.5, 2, "c"), dims=(2, 3), jax_helpers=("dot", "ddot", "mul", "grad"), kw=_kw_vector_field))
    # order of the nonlinear terms = rotation order of the cases (det-pressure second: it meets the first
    # 3-D case of the quick tier)
    first = ["elasticity", "oseen-linear", "body-force", "convection", "det-pressure"]
    T.sort(key=lambda t: first.index(t.name) if t.name in first else len(first))
    return T


def _jx_stvk(u, v, P):
    H = JH()
    G = H.grad(u)
    epsu = .5 * (G + H.transpose(G) + H.mul(H.transpose(G), G))
    epsv = .5 * (H.grad(v) + H.transpose(H.grad(v)))
    sigu = 2 * P["mu"] * epsu + P["la"] * H.eye(H.trace(epsu), G.shape[0])
    return H.ddot(sigu, epsv)


# ================================================================== composite terms
def composite_terms():
    T = []
    a = T.append
    # --- (vector H1, scalar H1): Navier-Stokes as in tests/test_autodiff.py
    a(Term("navier-stokes", "vector+scalar",
           jx=lambda u, v, w, P: (P["nu"] * JH().ddot(JH().sym_grad(u[0]), JH().sym_grad(v[0]))
                                  + JH().dot(JH().mul(JH().grad(u[0]), u[0]), v[0])
                                  - JH().div(u[0]) * v[1] - JH().div(v[0]) * u[1] - P["eps"] * u[1] * v[1]),
           res=lambda U, V, w, P: (P["nu"] * e_ddot(_sym(U[0].g), _sym(V[0].g)) + e_dot(e_mv(U[0].g, U[0].v), V[0].v)
                                   - e_tr(U[0].g) * V[1].v - e_tr(V[0].g) * U[1].v - P["eps"] * U[1].v * V[1].v),
           jac=lambda U, D, V, w, P: (P["nu"] * e_ddot(_sym(D[0].g), _sym(V[0].g))
                                      + e_dot(e_mv(D[0].g, U[0].v) + e_mv(U[0].g, D[0].v), V[0].v)
                                      - e_tr(D[0].g) * V[1].v - e_tr(V[0].g) * D[1].v - P["eps"] * D[1].v * V[1].v),
           coef=_c(.2, 2, "nu", "eps"), dims=(2, 3),
           jax_helpers=("ddot", "sym_grad", "dot", "mul", "grad", "div")))
    a(Term("stokes", "vector+scalar",
           jx=lambda u, v, w, P: (P["nu"] * JH().ddot(JH().sym_grad(u[0]), JH().sym_grad(v[0]))
                                  - JH().div(u[0]) * v[1] - JH().div(v[0]) * u[1] - P["eps"] * u[1] * v[1]
                                  - w.x[0] * v[0][1]),
           res=lambda U, V, w, P: (P["nu"] * e_ddot(_sym(U[0].g), _sym(V[0].g)) - e_tr(U[0].g) * V[1].v
                                   - e_tr(V[0].g) * U[1].v - P["eps"] * U[1].v * V[1].v
                                   - np.asarray(w.x)[0] * V[0].v[1]),
           jac=lambda U, D, V, w, P: (P["nu"] * e_ddot(_sym(D[0].g), _sym(V[0].g)) - e_tr(D[0].g) * V[1].v
                                      - e_tr(V[0].g) * D[1].v - P["eps"] * D[1].v * V[1].v),
           coef=_c(.2, 2, "nu", "eps"), linear=True, dims=(2, 3), jax_helpers=("ddot", "sym_grad", "div")))
    a(Term("pressure-dependent-viscosity", "vector+scalar",
           jx=lambda u, v, w, P: ((1. + u[1] * u[1]) * JH().ddot(JH().grad(u[0]), JH().grad(v[0]))
                                  - JH().div(v[0]) * u[1] + (JH().div(u[0]) + P["c"] * JH().dot(u[0], u[0])) * v[1]),
           res=lambda U, V, w, P: ((1 + U[1].v ** 2) * e_ddot(U[0].g, V[0].g) - e_tr(V[0].g) * U[1].v
                                   + (e_tr(U[0].g) + P["c"] * e_dot(U[0].v, U[0].v)) * V[1].v),
           jac=lambda U, D, V, w, P: (2 * U[1].v * D[1].v * e_ddot(U[0].g, V[0].g) + (1 + U[1].v ** 2) * e_ddot(D[0].g, V[0].g)
                                      - e_tr(V[0].g) * D[1].v
                                      + (e_tr(D[0].g) + 2 * P["c"] * e_dot(U[0].v, D[0].v)) * V[1].v),
           coef=_c(.5, 2, "c"), dims=(2, 3), jax_helpers=("ddot", "grad", "div", "dot")))
    # --- (scalar, scalar) with grads
    a(Term("reaction-pair", "scalar+scalar",
           jx=lambda u, v, w, P: (JH().dot(JH().grad(u[0]), JH().grad(v[0])) + P["c"] * (u[0] * (u[1] * u[1])) * v[0]
                                  + (u[1] - u[0] * u[0]) * v[1] + P["a"] * JH().dot(JH().grad(u[1]), JH().grad(v[0]))),
           res=lambda U, V, w, P: (e_dot(U[0].g, V[0].g) + P["c"] * U[0].v * U[1].v ** 2 * V[0].v
                                   + (U[1].v - U[0].v ** 2) * V[1].v + P["a"] * e_dot(U[1].g, V[0].g)),
           jac=lambda U, D, V, w, P: (e_dot(D[0].g, V[0].g)
                                      + P["c"] * (D[0].v * U[1].v ** 2 + 2 * U[0].v * U[1].v * D[1].v) * V[0].v
                                      + (D[1].v - 2 * U[0].v * D[0].v) * V[1].v + P["a"] * e_dot(D[1].g, V[0].g)),
           coef=_c(.5, 2, "c", "a"), jax_helpers=("dot", "grad")))
    a(Term("kwargs-pair", "scalar+scalar",   # DOF array `k` -> tuple of fields, pre-interpolated tuple `prev`, float `t`
           jx=lambda u, v, w, P: (P["c"] * ((u[0] * w.k[0]) * u[1]) * v[0] + ((u[1] * w.prev[1]) * u[1]) * v[1]
                                  + w.t * u[0] * v[0] + u[1] * v[1]),
           res=lambda U, V, w, P: (P["c"] * np.asarray(w.k[0]) * U[0].v * U[1].v * V[0].v
                                   + np.asarray(w.prev[1]) * U[1].v ** 2 * V[1].v + w.t * U[0].v * V[0].v + U[1].v * V[1].v),
           jac=lambda U, D, V, w, P: (P["c"] * np.asarray(w.k[0]) * (D[0].v * U[1].v + U[0].v * D[1].v) * V[0].v
                                      + 2 * np.asarray(w.prev[1]) * U[1].v * D[1].v * V[1].v + w.t * D[0].v * V[0].v
                                      + D[1].v * V[1].v),
           coef=_c(.5, 2, "c"), kw=_kw_pair))
    a(Term("kwargs-velocity-pressure", "vector+scalar",
           jx=lambda u, v, w, P: (P["c"] * JH().dot(u[0], _J(w.prev[0])) * JH().dot(u[0], v[0])
                                  + ((u[1] * w.k[1]) * u[1]) * v[1] + w.t * JH().ddot(JH().grad(u[0]), JH().grad(v[0]))
                                  + u[1] * v[1] - JH().div(v[0]) * u[1]),
           res=lambda U, V, w, P: (P["c"] * e_dot(U[0].v, np.asarray(w.prev[0])) * e_dot(U[0].v, V[0].v)
                                   + np.asarray(w.k[1]) * U[1].v ** 2 * V[1].v + w.t * e_ddot(U[0].g, V[0].g)
                                   + U[1].v * V[1].v - e_tr(V[0].g) * U[1].v),
           jac=lambda U, D, V, w, P: (P["c"] * (e_dot(D[0].v, np.asarray(w.prev[0])) * e_dot(U[0].v, V[0].v)
                                                + e_dot(U[0].v, np.asarray(w.prev[0])) * e_dot(D[0].v, V[0].v))
                                      + 2 * np.asarray(w.k[1]) * U[1].v * D[1].v * V[1].v + w.t * e_ddot(D[0].g, V[0].g)
                                      + D[1].v * V[1].v - e_tr(V[0].g) * D[1].v),
           coef=_c(.5, 2, "c"), dims=(2, 3), jax_helpers=("dot", "ddot", "grad", "div"), kw=_kw_pair))
    # --- three scalar components
    a(Term("reaction-triple", "scalar+scalar+scalar",
           jx=lambda u, v, w, P: (P["c"] * (u[0] * u[1]) * v[2] + (u[2] * u[2]) * v[0] + jnp().exp(P["a"] * u[1]) * v[1]
                                  + u[0] * v[0] + u[2] * v[2]),
           res=lambda U, V, w, P: (P["c"] * U[0].v * U[1].v * V[2].v + U[2].v ** 2 * V[0].v
                                   + np.exp(P["a"] * U[1].v) * V[1].v + U[0].v * V[0].v + U[2].v * V[2].v),
           jac=lambda U, D, V, w, P: (P["c"] * (D[0].v * U[1].v + U[0].v * D[1].v) * V[2].v + 2 * U[2].v * D[2].v * V[0].v
                                      + P["a"] * np.exp(P["a"] * U[1].v) * D[1].v * V[1].v + D[0].v * V[0].v
                                      + D[2].v * V[2].v),
           coef=_c(.3, 1.2, "c", "a"), amp=6.0))
    # --- (H(div), P0): nonlinear Darcy; the divergence is taken from the field attribute
    a(Term("darcy-attr", "hdiv+p0",
           jx=lambda u, v, w, P: ((1. + P["c"] * (u[1] * u[1])) * JH().dot(u[0], v[0]) - u[1] * v[0].div
                                  + u[0].div * v[1] + (u[1] ** 3) * v[1]),
           res=lambda U, V, w, P: ((1 + P["c"] * U[1].v ** 2) * e_dot(U[0].v, V[0].v) - V[0].d * U[1].v
                                   + U[0].d * V[1].v + U[1].v ** 3 * V[1].v),
           jac=lambda U, D, V, w, P: (2 * P["c"] * U[1].v * D[1].v * e_dot(U[0].v, V[0].v)
                                      + (1 + P["c"] * U[1].v ** 2) * e_dot(D[0].v, V[0].v) - V[0].d * D[1].v
                                      + D[0].d * V[1].v + 3 * U[1].v ** 2 * D[1].v * V[1].v),
           coef=_c(.5, 2, "c"), dims=(2, 3), jax_helpers=("dot",)))
    a(Term("mixed-poisson", "hdiv+p0",
           jx=lambda u, v, w, P: (P["c"] * JH().dot(u[0], v[0]) - u[1] * v[0].div + u[0].div * v[1]
                                  - jnp().sin(w.x[0]) * v[1]),
           res=lambda U, V, w, P: (P["c"] * e_dot(U[0].v, V[0].v) - V[0].d * U[1].v + U[0].d * V[1].v
                                   - np.sin(np.asarray(w.x)[0]) * V[1].v),
           jac=lambda U, D, V, w, P: P["c"] * e_dot(D[0].v, V[0].v) - V[0].d * D[1].v + D[0].d * V[1].v,
           coef=_c(.5, 2, "c"), linear=True, dims=(2, 3), jax_helpers=("dot",)))
    # --- (H(curl), scalar H1)
    a(Term("curl-curl", "hcurl+scalar",
           jx=lambda u, v, w, P: (_jx_curlcurl(u[0], v[0]) + P["c"] * JH().dot(u[0], v[0]) + JH().dot(u[0], JH().grad(v[1]))
                                  + JH().dot(v[0], JH().grad(u[1])) + u[1] * v[1] - w.x[0] * v[1]),
           res=lambda U, V, w, P: (_np_curlcurl(U[0], V[0]) + P["c"] * e_dot(U[0].v, V[0].v) + e_dot(U[0].v, V[1].g)
                                   + e_dot(V[0].v, U[1].g) + U[1].v * V[1].v - np.asarray(w.x)[0] * V[1].v),
           jac=lambda U, D, V, w, P: (_np_curlcurl(D[0], V[0]) + P["c"] * e_dot(D[0].v, V[0].v) + e_dot(D[0].v, V[1].g)
                                      + e_dot(V[0].v, D[1].g) + D[1].v * V[1].v),
           coef=_c(.5, 2, "c"), linear=True, dims=(2, 3), jax_helpers=("dot", "grad")))
    a(Term("curl-pair", "hcurl+scalar",
           jx=lambda u, v, w, P: (_jx_curlcurl(u[0], v[0]) + (1. + u[1] * u[1]) * JH().dot(u[0], v[0])
                                  + JH().dot(u[0], JH().grad(v[1])) + P["c"] * JH().dot(u[0], u[0]) * v[1]),
           res=lambda U, V, w, P: (_np_curlcurl(U[0], V[0]) + (1 + U[1].v ** 2) * e_dot(U[0].v, V[0].v)
                                   + e_dot(U[0].v, V[1].g) + P["c"] * e_dot(U[0].v, U[0].v) * V[1].v),
           jac=lambda U, D, V, w, P: (_np_curlcurl(D[0], V[0]) + 2 * U[1].v * D[1].v * e_dot(U[0].v, V[0].v)
                                      + (1 + U[1].v ** 2) * e_dot(D[0].v, V[0].v) + e_dot(D[0].v, V[1].g)
                                      + 2 * P["c"] * e_dot(U[0].v, D[0].v) * V[1].v),
           coef=_c(.5, 2, "c"), dims=(2, 3), jax_helpers=("dot", "grad")))
    return T


def _jx_curlcurl(u, v):
    if len(u.curl.shape) == 2:
        return u.curl * v.curl
    return JH().dot(u.curl, v.curl)


def _np_curlcurl(U, V):
    if U.c.ndim == 2:
        return U.c * V.c
    return e_dot(U.c, V.c)


# ================================================================== H^2 (global elements with hessians)
def hess_terms():
    T = []
    a = T.append
    a(Term("plate", "hess",
           jx=lambda u, v, w, P: P["c"] * JH().ddot(JH().dd(u[0]), JH().dd(v[0])) - P["a"] * v[0],
           res=lambda U, V, w, P: P["c"] * e_ddot(U[0].h, V[0].h) - P["a"] * V[0].v,
           jac=lambda U, D, V, w, P: P["c"] * e_ddot(D[0].h, V[0].h),
           coef=_c(.5, 2, "c", "a"), linear=True, dims=(2,), jax_helpers=("ddot", "dd")))
    a(Term("von-karman-like", "hess",   # tr(hess u) |grad u|^2 tr(hess v) + u^3 v
           jx=lambda u, v, w, P: P["c"] * JH().trace(JH().dd(u[0])) * JH().dot(JH().grad(u[0]), JH().grad(u[0]))
           * JH().trace(JH().dd(v[0])) + u[0] ** 3 * v[0],
           res=lambda U, V, w, P: P["c"] * e_tr(U[0].h) * e_dot(U[0].g, U[0].g) * e_tr(V[0].h) + U[0].v ** 3 * V[0].v,
           jac=lambda U, D, V, w, P: P["c"] * (e_tr(D[0].h) * e_dot(U[0].g, U[0].g)
                                               + 2 * e_tr(U[0].h) * e_dot(U[0].g, D[0].g)) * e_tr(V[0].h)
           + 3 * U[0].v ** 2 * D[0].v * V[0].v,
           coef=_c(.5, 2, "c"), dims=(2,), amp=4.0, jax_helpers=("trace", "dd", "dot", "grad")))
    return T


# ================================================================== facet terms (FacetBasis; use the normal)
def facet_terms():
    T = []
    a = T.append
    a(Term("radiation", "scalar",
           jx=lambda u, v, w, P: P["c"] * u[0] ** 4 * v[0] + (JH().dot(w.n, JH().grad(u[0])) * u[0]) * v[0],
           res=lambda U, V, w, P: P["c"] * U[0].v ** 4 * V[0].v + e_dot(np.asarray(w.n), U[0].g) * U[0].v * V[0].v,
           jac=lambda U, D, V, w, P: 4 * P["c"] * U[0].v ** 3 * D[0].v * V[0].v
           + (e_dot(np.asarray(w.n), D[0].g) * U[0].v + e_dot(np.asarray(w.n), U[0].g) * D[0].v) * V[0].v,
           coef=_c(.5, 2, "c"), amp=8.0, dims=(2, 3), jax_helpers=("dot", "grad")))
    a(Term("kwargs-facet", "scalar",   # keyword parameters on a facet basis: DOF array, pre-interpolated field, float
           jx=lambda u, v, w, P: w.t * ((u[0] * w.k) * u[0]) * v[0]
           + P["c"] * JH().dot(w.n, _J(w.g.grad)) * (u[0] * v[0]),
           res=lambda U, V, w, P: w.t * np.asarray(w.k) * U[0].v ** 2 * V[0].v
           + P["c"] * e_dot(np.asarray(w.n), np.asarray(w.g.grad)) * U[0].v * V[0].v,
           jac=lambda U, D, V, w, P: 2 * w.t * np.asarray(w.k) * U[0].v * D[0].v * V[0].v
           + P["c"] * e_dot(np.asarray(w.n), np.asarray(w.g.grad)) * D[0].v * V[0].v,
           coef=_c(.5, 2, "c"), dims=(2, 3), jax_helpers=("dot",), kw=_kw_facet))
    a(Term("kwargs-facet-shadow-n", "scalar",   # the caller's own `n` (array) and `h` (float) instead of normal and mesh parameter
           jx=lambda u, v, w, P: P["c"] * JH().dot(_J(w.n), JH().grad(u[0])) * (u[0] * v[0]) + w.h * (u[0] * u[0]) * v[0],
           res=lambda U, V, w, P: P["c"] * e_dot(np.asarray(w.n), U[0].g) * U[0].v * V[0].v + w.h * U[0].v ** 2 * V[0].v,
           jac=lambda U, D, V, w, P: P["c"] * (e_dot(np.asarray(w.n), D[0].g) * U[0].v + e_dot(np.asarray(w.n), U[0].g) * D[0].v) * V[0].v
           + 2 * w.h * U[0].v * D[0].v * V[0].v,
           coef=_c(.5, 2, "c"), dims=(2, 3), jax_helpers=("dot", "grad"), kw=_kw_shadow_n))
    a(Term("normal-flux", "vector",
           jx=lambda u, v, w, P: P["c"] * JH().dot(u[0], w.n) * JH().dot(u[0], v[0])
           + JH().dot(JH().mul(JH().grad(u[0]), w.n), v[0]),
           res=lambda U, V, w, P: P["c"] * e_dot(U[0].v, np.asarray(w.n)) * e_dot(U[0].v, V[0].v)
           + e_dot(e_mv(U[0].g, np.asarray(w.n)), V[0].v),
           jac=lambda U, D, V, w, P: P["c"] * (e_dot(D[0].v, np.asarray(w.n)) * e_dot(U[0].v, V[0].v)
                                               + e_dot(U[0].v, np.asarray(w.n)) * e_dot(D[0].v, V[0].v))
           + e_dot(e_mv(D[0].g, np.asarray(w.n)), V[0].v),
           coef=_c(.5, 2, "c"), dims=(2, 3), jax_helpers=("dot", "mul", "grad")))
    return T


# ================================================================== energies (hessian=True)
def _lndet_terms(G, P):
    F = G + _I(G)
    J = la_det(F)
    Fi = la_inv(F)
    return F, J, Fi


def energy_terms():
    T = []
    a = T.append
    a(Term("E-minsurf", "scalar", energy=True,   # docs/examples/ex45.py
           jx=lambda u, w, P: P["c"] * jnp().sqrt(1. + JH().dot(JH().grad(u[0]), JH().grad(u[0]))),
           res=lambda U, V, w, P: P["c"] * e_dot(U[0].g, V[0].g) / np.sqrt(1 + e_dot(U[0].g, U[0].g)),
           jac=lambda U, D, V, w, P: P["c"] * (
               e_dot(D[0].g, V[0].g) / np.sqrt(1 + e_dot(U[0].g, U[0].g))
               - e_dot(U[0].g, D[0].g) * e_dot(U[0].g, V[0].g) / (1 + e_dot(U[0].g, U[0].g)) ** 1.5),
           coef=_c(.5, 2, "c"), jax_helpers=("dot", "grad")))
    a(Term("E-quartic", "scalar", energy=True,
           jx=lambda u, w, P: .25 * P["c"] * u[0] ** 4 + .5 * JH().dot(JH().grad(u[0]), JH().grad(u[0]))
           - jnp().cos(P["a"] * w.x[0]) * u[0],
           res=lambda U, V, w, P: P["c"] * U[0].v ** 3 * V[0].v + e_dot(U[0].g, V[0].g)
           - np.cos(P["a"] * np.asarray(w.x)[0]) * V[0].v,
           jac=lambda U, D, V, w, P: 3 * P["c"] * U[0].v ** 2 * D[0].v * V[0].v + e_dot(D[0].g, V[0].g),
           coef=_c(.5, 2, "c", "a"), jax_helpers=("dot", "grad")))
    a(Term("E-stvenant", "vector", energy=True,   # docs/examples/ex51.py J1
           jx=lambda u, w, P: _jx_E_stvk(u[0], P),
           res=lambda U, V, w, P: e_ddot(2 * P["mu"] * _E(U[0].g) + P["la"] * e_tr(_E(U[0].g)) * _I(U[0].g),
                                         _dE(U[0].g, V[0].g)),
           jac=lambda U, D, V, w, P: (e_ddot(2 * P["mu"] * _dE(U[0].g, D[0].g)
                                             + P["la"] * e_tr(_dE(U[0].g, D[0].g)) * _I(U[0].g), _dE(U[0].g, V[0].g))
                                      + e_ddot(2 * P["mu"] * _E(U[0].g) + P["la"] * e_tr(_E(U[0].g)) * _I(U[0].g),
                                               .5 * (e_mm(e_T(V[0].g), D[0].g) + e_mm(e_T(D[0].g), V[0].g)))),
           coef=_c(.5, 2, "mu", "la"), dims=(2, 3), amp=6.0,
           jax_helpers=("grad", "transpose", "mul", "eye", "trace", "ddot")))
    a(Term("E-neohooke", "vector", energy=True,   # mu/2 (|F|^2 - d) - mu ln J + la/2 (ln J)^2,  J = det(I + grad u)
           jx=lambda u, w, P: _jx_E_neo(u[0], P),
           res=lambda U, V, w, P: _np_neo_res(U[0].g, V[0].g, P),
           jac=lambda U, D, V, w, P: _np_neo_jac(U[0].g, D[0].g, V[0].g, P),
           coef=_c(.5, 2, "mu", "la"), dims=(2, 3), small=True, det3=True,
           jax_helpers=("grad", "eye", "ddot", "det"),
           res_defect=lambda U, V, w, P: (neo_res_with_defect(U[0].g, V[0].g, P) if U[0].g.shape[0] == 3
                                          else _np_neo_res(U[0].g, V[0].g, P))))
    a(Term("E-pair", "scalar+scalar", energy=True,
           jx=lambda u, w, P: (.5 * JH().dot(JH().grad(u[0]), JH().grad(u[0])) + .5 * P["c"] * (u[1] * u[1])
                               + (u[0] * u[0]) * u[1] + .25 * u[1] ** 4),
           res=lambda U, V, w, P: (e_dot(U[0].g, V[0].g) + P["c"] * U[1].v * V[1].v + 2 * U[0].v * U[1].v * V[0].v
                                   + U[0].v ** 2 * V[1].v + U[1].v ** 3 * V[1].v),
           jac=lambda U, D, V, w, P: (e_dot(D[0].g, V[0].g) + P["c"] * D[1].v * V[1].v
                                      + 2 * (D[0].v * U[1].v + U[0].v * D[1].v) * V[0].v + 2 * U[0].v * D[0].v * V[1].v
                                      + 3 * U[1].v ** 2 * D[1].v * V[1].v),
           coef=_c(.5, 2, "c"), jax_helpers=("dot", "grad")))
    a(Term("E-plate", "hess", energy=True,   # Kirchhoff plate energy with a quartic foundation, H^2 elements (dd)
           jx=lambda u, w, P: .5 * P["c"] * JH().ddot(JH().dd(u[0]), JH().dd(u[0])) + .25 * u[0] ** 4
           - P["a"] * jnp().sin(w.x[0]) * u[0],
           res=lambda U, V, w, P: P["c"] * e_ddot(U[0].h, V[0].h) + U[0].v ** 3 * V[0].v
           - P["a"] * np.sin(np.asarray(w.x)[0]) * V[0].v,
           jac=lambda U, D, V, w, P: P["c"] * e_ddot(D[0].h, V[0].h) + 3 * U[0].v ** 2 * D[0].v * V[0].v,
           coef=_c(.5, 2, "c", "a"), dims=(2,), amp=4.0, jax_helpers=("ddot", "dd")))
    a(Term("E-velocity-pressure", "vector+scalar", energy=True,
           jx=lambda u, w, P: (.5 * P["mu"] * JH().ddot(JH().grad(u[0]), JH().grad(u[0])) + .5 * (u[1] * u[1])
                               + JH().div(u[0]) * u[1] + .5 * P["c"] * JH().dot(u[0], u[0]) * (u[1] * u[1])
                               - w.x[0] * u[0][1]),
           res=lambda U, V, w, P: (P["mu"] * e_ddot(U[0].g, V[0].g) + U[1].v * V[1].v + e_tr(V[0].g) * U[1].v
                                   + e_tr(U[0].g) * V[1].v + P["c"] * e_dot(U[0].v, V[0].v) * U[1].v ** 2
                                   + P["c"] * e_dot(U[0].v, U[0].v) * U[1].v * V[1].v - np.asarray(w.x)[0] * V[0].v[1]),
           jac=lambda U, D, V, w, P: (P["mu"] * e_ddot(D[0].g, V[0].g) + D[1].v * V[1].v + e_tr(V[0].g) * D[1].v
                                      + e_tr(D[0].g) * V[1].v
                                      + P["c"] * (e_dot(D[0].v, V[0].v) * U[1].v ** 2
                                                  + 2 * e_dot(U[0].v, V[0].v) * U[1].v * D[1].v
                                                  + 2 * e_dot(U[0].v, D[0].v) * U[1].v * V[1].v
                                                  + e_dot(U[0].v, U[0].v) * D[1].v * V[1].v)),
           coef=_c(.5, 2, "mu", "c"), dims=(2, 3), amp=6.0, jax_helpers=("ddot", "grad", "div", "dot")))
    return T


def facet_energy_terms():
    """Energies on facet bases (Robin / traction type boundary energies; use the normal w.n and w.x)."""
    T = []
    a = T.append
    a(Term("E-robin", "scalar", energy=True,
           jx=lambda u, w, P: (P["c"] * (.5 * (u[0] * u[0]) + .25 * u[0] ** 4)
                               + .5 * JH().dot(w.n, JH().grad(u[0])) ** 2 - JH().dot(w.n, w.x) * u[0]),
           res=lambda U, V, w, P: (P["c"] * (U[0].v + U[0].v ** 3) * V[0].v
                                   + e_dot(np.asarray(w.n), U[0].g) * e_dot(np.asarray(w.n), V[0].g)
                                   - e_dot(np.asarray(w.n), np.asarray(w.x)) * V[0].v),
           jac=lambda U, D, V, w, P: (P["c"] * (1 + 3 * U[0].v ** 2) * D[0].v * V[0].v
                                      + e_dot(np.asarray(w.n), D[0].g) * e_dot(np.asarray(w.n), V[0].g)),
           coef=_c(.5, 2, "c"), dims=(2, 3), amp=6.0, jax_helpers=("dot", "grad")))
    a(Term("E-traction", "vector", energy=True,
           jx=lambda u, w, P: .5 * P["c"] * JH().dot(u[0], w.n) ** 2 + .25 * JH().dot(u[0], u[0]) ** 2,
           res=lambda U, V, w, P: (P["c"] * e_dot(U[0].v, np.asarray(w.n)) * e_dot(V[0].v, np.asarray(w.n))
                                   + e_dot(U[0].v, U[0].v) * e_dot(U[0].v, V[0].v)),
           jac=lambda U, D, V, w, P: (P["c"] * e_dot(D[0].v, np.asarray(w.n)) * e_dot(V[0].v, np.asarray(w.n))
                                      + 2 * e_dot(U[0].v, D[0].v) * e_dot(U[0].v, V[0].v)
                                      + e_dot(U[0].v, U[0].v) * e_dot(D[0].v, V[0].v)),
           coef=_c(.5, 2, "c"), dims=(2, 3), amp=6.0, jax_helpers=("dot",)))
    return T


def _jx_E_stvk(u, P):
    H = JH()
    G = H.grad(u)
    eps = 1 / 2 * (G + H.transpose(G) + H.mul(H.transpose(G), G))
    sig = 2 * P["mu"] * eps + P["la"] * H.eye(H.trace(eps), G.shape[0])
    return 1 / 2 * H.ddot(sig, eps)


def _jx_E_neo(u, P):
    H = JH()
    G = H.grad(u)
    d = G.shape[0]
    F = G + H.eye(1. + 0. * G[0, 0], d)
    lnJ = jnp().log(H.det(F))
    return .5 * P["mu"] * (H.ddot(F, F) - d) - P["mu"] * lnJ + .5 * P["la"] * lnJ ** 2


def _np_neo_res(G, dV, P):
    F, J, Fi = _lndet_terms(G, P)
    FiT = e_T(Fi)
    lnJ = np.log(J)
    return P["mu"] * e_ddot(F, dV) + (-P["mu"] + P["la"] * lnJ) * e_ddot(FiT, dV)


def _np_neo_jac(G, dU, dV, P):
    F, J, Fi = _lndet_terms(G, P)
    FiT = e_T(Fi)
    lnJ = np.log(J)
    # d(F^{-T})[dU] = -F^{-T} dU^T F^{-T}
    dFiT = -e_mm(e_mm(FiT, e_T(dU)), FiT)
    return (P["mu"] * e_ddot(dU, dV) + P["la"] * e_ddot(FiT, dU) * e_ddot(FiT, dV)
            + (-P["mu"] + P["la"] * lnJ) * e_ddot(dFiT, dV))


def neo_res_with_defect(G, dV, P):
    """Residual of E-neohooke if ln det is taken of the *defective* 3x3 determinant (classification only).
    d det_defect = d det - 2 d(A01 A12 A20)."""
    F = G + _I(G)
    Jd = det_with_doubled_minus(F)
    dJ = e_ddot(la_cof(F), dV) - 2.0 * (dV[0, 1] * F[1, 2] * F[2, 0] + F[0, 1] * dV[1, 2] * F[2, 0]
                                        + F[0, 1] * F[1, 2] * dV[2, 0])
    lnJ = np.log(Jd)
    return P["mu"] * e_ddot(F, dV) + (-P["mu"] + P["la"] * lnJ) * dJ / Jd


POOLS = {"scalar": scalar_terms, "vector": vector_terms, "composite": composite_terms, "hess": hess_terms,
         "facet": facet_terms, "energy": energy_terms, "facet-energy": facet_energy_terms}
_CACHE = {}


def pool(name):
    if name not in _CACHE:
        _CACHE[name] = POOLS[name]()
    return _CACHE[name]
