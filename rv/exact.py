"""Exact rational arithmetic used by reference models.

Polynomials are dicts {exponent-tuple: Fraction}.  Everything here is independent of
skfem: reference-cell moments in closed form, pull-back of polynomials through affine
and multilinear cell maps, exact integrals over straight-sided cells with rational
(double-representable) vertex coordinates, exact point-in-simplex tests.
"""
from __future__ import annotations

from fractions import Fraction
from itertools import product
from math import factorial

import numpy as np

F = Fraction


# ------------------------------------------------------------- polynomials
def pconst(c, d):
    c = F(c)
    return {(0,) * d: c} if c else {}


def pvar(i, d):
    e = [0] * d
    e[i] = 1
    return {tuple(e): F(1)}


def padd(p, q, cq=1):
    r = dict(p)
    for e, c in q.items():
        v = r.get(e, 0) + cq * c
        if v:
            r[e] = v
        else:
            r.pop(e, None)
    return r


def pscale(p, c):
    c = F(c)
    return {e: c * v for e, v in p.items()} if c else {}


def pmul(p, q):
    r = {}
    for e1, c1 in p.items():
        for e2, c2 in q.items():
            e = tuple(a + b for a, b in zip(e1, e2))
            v = r.get(e, 0) + c1 * c2
            if v:
                r[e] = v
            else:
                r.pop(e, None)
    return r


def ppow(p, n, d):
    r = pconst(1, d)
    for _ in range(n):
        r = pmul(r, p)
    return r


def pdiff(p, i):
    r = {}
    for e, c in p.items():
        if e[i]:
            e2 = list(e)
            e2[i] -= 1
            r[tuple(e2)] = r.get(tuple(e2), 0) + c * e[i]
    return {e: c for e, c in r.items() if c}


def pcompose(p, subs, d_out):
    """p(x_0..x_{k-1}) with x_i := subs[i] (polynomials in d_out variables)."""
    r = {}
    cache = {}
    for e, c in p.items():
        term = pconst(c, d_out)
        for i, n in enumerate(e):
            if n:
                key = (i, n)
                if key not in cache:
                    cache[key] = ppow(subs[i], n, d_out)
                term = pmul(term, cache[key])
        r = padd(r, term)
    return r


def peval(p, x):
    """Evaluate at a float/Fraction point (tuple)."""
    s = 0
    for e, c in p.items():
        t = c
        for xi, n in zip(x, e):
            if n:
                t = t * xi ** n
        s = s + t
    return s


def peval_np(p, X):
    """Evaluate at float array X of shape (d, ...)."""
    out = np.zeros(X.shape[1:])
    for e, c in p.items():
        t = float(c) * np.ones(X.shape[1:])
        for i, n in enumerate(e):
            if n:
                t = t * X[i] ** n
        out += t
    return out


def pdeg(p):
    return max((sum(e) for e in p), default=-1)


def pdeg_per_dir(p, d):
    return tuple(max((e[i] for e in p), default=-1) for i in range(d))


def monomial(e):
    return {tuple(e): F(1)}


def monomials_total(d, n):
    """All exponent tuples of total degree <= n in d variables."""
    return [e for e in product(range(n + 1), repeat=d) if sum(e) <= n]


def monomials_tensor(d, n):
    return list(product(range(n + 1), repeat=d))


# ------------------------------------------------------ reference moments
def mom_simplex(e):
    """∫ over the unit simplex {x_i>=0, Σx_i<=1} of x^e."""
    num = 1
    for a in e:
        num *= factorial(a)
    return F(num, factorial(sum(e) + len(e)))


def mom_cube(e):
    r = F(1)
    for a in e:
        r /= (a + 1)
    return r


def mom_prism(e):
    """Reference prism = unit triangle (x, y) x [0, 1] (z)."""
    return mom_simplex(e[:2]) * F(1, e[2] + 1)


def int_ref(p, kind):
    mom = {"simplex": mom_simplex, "cube": mom_cube, "prism": mom_prism}[kind]
    return sum((c * mom(e) for e, c in p.items()), F(0))


# -------------------------------------------------- maps of straight cells
def fr(x):
    """Exact Fraction of a float (floats are dyadic rationals)."""
    return F(float(x))


def frv(v):
    return [F(float(x)) for x in v]


def det(M):
    n = len(M)
    if n == 1:
        return M[0][0]
    if n == 2:
        return M[0][0] * M[1][1] - M[0][1] * M[1][0]
    if n == 3:
        return (M[0][0] * (M[1][1] * M[2][2] - M[1][2] * M[2][1])
                - M[0][1] * (M[1][0] * M[2][2] - M[1][2] * M[2][0])
                + M[0][2] * (M[1][0] * M[2][1] - M[1][1] * M[2][0]))
    raise ValueError


def simplex_map(verts):
    """verts: list of d+1 points (lists of Fractions, ambient dim D>=d).  Returns the D
    coordinate polynomials in d reference variables."""
    d = len(verts) - 1
    D = len(verts[0])
    out = []
    for c in range(D):
        p = pconst(verts[0][c], d)
        for i in range(d):
            p = padd(p, pscale(pvar(i, d), verts[i + 1][c] - verts[0][c]))
        out.append(p)
    return out


# multilinear shape functions on [0,1]^d for vertex orderings used by the harness
def _lin(i, d, one_minus):
    return padd(pconst(1, d), pvar(i, d), -1) if one_minus else pvar(i, d)


def multilinear_map(verts, ref_corners):
    """verts[k] is the physical image of reference corner ref_corners[k] (0/1 tuples)."""
    d = len(ref_corners[0])
    D = len(verts[0])
    out = [dict() for _ in range(D)]
    for v, rc in zip(verts, ref_corners):
        N = pconst(1, d)
        for i, bit in enumerate(rc):
            N = pmul(N, _lin(i, d, bit == 0))
        for c in range(D):
            out[c] = padd(out[c], pscale(N, v[c]))
    return out


def prism_map(verts):
    """verts 0..2 bottom triangle, 3..5 top triangle; reference (x, y, z)."""
    d = 3
    lam = [padd(padd(pconst(1, d), pvar(0, d), -1), pvar(1, d), -1), pvar(0, d), pvar(1, d)]
    zz = [padd(pconst(1, d), pvar(2, d), -1), pvar(2, d)]
    out = [dict() for _ in range(3)]
    for k in range(6):
        N = pmul(lam[k % 3], zz[k // 3])
        for c in range(3):
            out[c] = padd(out[c], pscale(N, verts[k][c]))
    return out


def jacobian_det(mp):
    d = len(mp)
    J = [[pdiff(mp[r], c) for c in range(d)] for r in range(d)]
    if d == 1:
        return J[0][0]
    if d == 2:
        return padd(pmul(J[0][0], J[1][1]), pmul(J[0][1], J[1][0]), -1)
    if d == 3:
        def m2(a, b, c, dd):
            return padd(pmul(a, dd), pmul(b, c), -1)
        t0 = pmul(J[0][0], m2(J[1][1], J[1][2], J[2][1], J[2][2]))
        t1 = pmul(J[0][1], m2(J[1][0], J[1][2], J[2][0], J[2][2]))
        t2 = pmul(J[0][2], m2(J[1][0], J[1][1], J[2][0], J[2][1]))
        return padd(padd(t0, t1, -1), t2)
    raise ValueError


QUAD_CORNERS = [(0, 0), (1, 0), (1, 1), (0, 1)]
# skfem RefHex corner coordinates, in its own vertex order
HEX_CORNERS = [(1, 1, 1), (1, 1, 0), (1, 0, 1), (0, 1, 1), (1, 0, 0), (0, 1, 0), (0, 0, 1), (0, 0, 0)]


def cell_map(kind, verts):
    if kind in ("line", "tri", "tet"):
        return simplex_map(verts), "simplex"
    if kind == "quad":
        return multilinear_map(verts, QUAD_CORNERS), "cube"
    if kind == "hex":
        return multilinear_map(verts, HEX_CORNERS), "cube"
    if kind == "wedge":
        return prism_map(verts), "prism"
    raise ValueError(kind)


def sign_const_on_corners(jdet, kind):
    """Sign of the Jacobian determinant at the reference corners; None if it changes
    or vanishes (then |det| is not a polynomial and the cell is not used)."""
    if not jdet:  # identically zero Jacobian: degenerate cell
        return None
    if kind == "simplex":
        d = len(next(iter(jdet)))
        s = peval(jdet, (0,) * d)
        return (1 if s > 0 else -1) if s != 0 else None
    if kind == "cube":
        d = len(next(iter(jdet)))
        corners = list(product((0, 1), repeat=d))
    else:
        corners = [(0, 0, 0), (1, 0, 0), (0, 1, 0), (0, 0, 1), (1, 0, 1), (0, 1, 1)]
    signs = set()
    for c in corners:
        v = peval(jdet, c)
        if v == 0:
            return None
        signs.add(v > 0)
    if len(signs) != 1:
        return None
    return 1 if signs.pop() else -1


def integrate_cell(poly, kind, verts):
    """Exact ∫_K poly dx for a straight cell K; returns (value, pulled-back polynomial
    incl. Jacobian) or (None, None) when the Jacobian changes sign."""
    mp, ref = cell_map(kind, verts)
    jd = jacobian_det(mp)
    s = sign_const_on_corners(jd, ref)
    if s is None:
        return None, None
    pb = pmul(pcompose(poly, mp, len(next(iter(jd)))), jd)
    return s * int_ref(pb, ref), pb


def simplex_measure_sq(verts):
    """Squared d-measure times (d!)^2 of a d-simplex embedded in D dims (Gram det)."""
    d = len(verts) - 1
    E = [[verts[i + 1][c] - verts[0][c] for c in range(len(verts[0]))] for i in range(d)]
    G = [[sum(a * b for a, b in zip(E[i], E[j])) for j in range(d)] for i in range(d)]
    return det(G) if d else F(1)


def integrate_facet_simplex(poly, verts):
    """∫ over a (d-1)-simplex embedded in R^d of poly(x) dS, as float (the surface factor
    is an exact square root converted to float last).  Returns (float value, degree)."""
    k = len(verts) - 1
    if k == 0:
        return float(peval(poly, verts[0])), 0
    mp = simplex_map(verts)
    pb = pcompose(poly, mp, k)
    val = int_ref(pb, "simplex")
    g = simplex_measure_sq(verts)
    return float(val) * float(np.sqrt(float(g))), pdeg(pb)


def barycentric(verts, x):
    """Exact barycentric coordinates of x w.r.t. a full-dimensional simplex."""
    d = len(verts) - 1
    M = [[verts[j + 1][i] - verts[0][i] for j in range(d)] for i in range(d)]
    D = det(M)
    if D == 0:
        return None
    rhs = [x[i] - verts[0][i] for i in range(d)]
    lam = []
    for j in range(d):
        Mj = [[rhs[i] if c == j else M[i][c] for c in range(d)] for i in range(d)]
        lam.append(det(Mj) / D)
    return [1 - sum(lam)] + lam
