"""C01 Assembled matrix, vector and scalar represent the weak form.

Three independent legs, all must agree (DESIGN §4 C01):
 1. stated relation: with cu = ub.interpolate(u), cv = vb.interpolate(v):
       v^T A u == Functional(integrand on cu, cv);  LinearForm(integrand on cu, test v) == A u;
       Functional.elemental().sum() == Functional.assemble();  elemental().todefault() == assemble()
 2. dense reference assembler: explicit loops over local indices (and numpy.add.at over cells) using only
    basis.basis[i], basis.dx, the Dofs table and the term list -> entrywise comparison (row/column roles,
    flatten order, slice arithmetic, subset slicing);  own interpolation of u, v at the quadrature points
 3. kwarg normalisation: coefficient as DOF vector == interpolate() result == raw (nel x nq) array, bit-identical;
    serial == threaded (bitwise); complex dtype.
Integrands are drawn from a grammar stored as data so the same term list builds all form types.
 4. lists of bases (family basis-lists, and the same domain listed n times in every asm-* case): skfem.asm(form, [b1, ..]),
    asm(form, [trial bases], [test bases]) (all pairs), sums of separately assembled results and of .coo_data()/.elemental()
    blocks + .todefault() for 0-, 1- and 2-tensors equal the SUM over the listed bases of the own dense reference.
"""
from __future__ import annotations

import numpy as np

from ..engine import Family, Skip
from ..gen import elements as EL
from ..gen import meshes as G

PID = "C01"
RULE = ("random meshes (all cell kinds, renumbered, distorted, second-order/curved) x every registry element incl. "
        "vector/DG/composite wrappers x basis kind (CellBasis, CellBasis(elements=S), FacetBasis on boundary / facet "
        "subset / interior facets side 1, InteriorFacetBasis side 0/1) x equal or different test element x 1-3 "
        "grammar terms c(w)*D1(u)*D2(v); distinct key = (mesh class, trial, test, basis kind, term signature, dtype); "
        "non-trivial iff nnz > 0 and (trial != test or the matrix is unsymmetric); lists of 1-3 bases (partition of cells, "
        "both sides of interior facets, boundary + interior facets, cells + facets, overlapping subsets, same object twice, "
        "bases of two meshes) through asm(form, [..]) / all pairs / COOData sums, key = (mesh class, trial, test, composition, length)")
TRACK = ["skfem.assembly.form.bilinear_form:BilinearForm._assemble",
         "skfem.assembly.form.linear_form:LinearForm._assemble",
         "skfem.assembly.form.functional:Functional.elemental",
         "skfem.assembly.form.functional:Functional._assemble",
         "skfem.assembly.form.trilinear_form:TrilinearForm._assemble",
         "skfem.assembly.form.form:Form._normalize_asm_kwargs",
         "skfem.assembly.form.coo_data:COOData._assemble_scipy_csr",
         "skfem.assembly.basis.abstract_basis:AbstractBasis.interpolate",
         "skfem.assembly.form.bilinear_form:BilinearForm._threaded_kernel"]
REQUIRED_MONITORS = ["matrix-vs-dense-reference", "vector-vs-dense-reference", "vTAu-equals-functional",
                     "linearform-equals-Au", "functional-vs-own-sum", "interpolate-vs-own", "elemental-sums",
                     "shape-test-by-trial", "kwarg-spellings-bitwise", "threaded-equals-serial", "complex-dtype",
                     "trilinear-contraction", "with-element-same-domain", "list-matrix-vs-own-sum", "list-vector-vs-own-sum",
                     "list-scalar-vs-own-sum", "list-forms-agree"]
REQUIRED_REACH = ["default-parameters-on-unsorted-subset", "kwarg:updated-in-place", "kwarg:overrides-default", "basis:cell", "basis:cell-subset", "basis:facet-boundary", "basis:facet-subset",
                  "basis:facet-interior-side1", "basis:interior-side0", "basis:interior-side1", "trial!=test",
                  "kwarg:dofvector", "kwarg:discretefield", "kwarg:rawarray", "kwarg:scalar", "coef:n", "coef:h", "coef:x",
                  "bare-parameter-integrands", "trial-side0-test-side1", "oriented-facet-set", "kwarg:scalar-types",
                  "empty-domain", "form-construction-spellings",
                  "list:len1", "list:len2", "list:len3", "list:cell-partition", "list:two-sides", "list:boundary+interior",
                  "list:cell+facet", "list:overlap", "list:same-object-twice", "list:trial!=test", "list:asm-all-three",
                  "list:all-pairs", "list:coo-sum-0tensor", "list:coo-sum-1tensor", "list:coo-sum-2tensor", "list:mixed-meshes",
                  "list:idx-coefficient", "list:dofvector-parameter", "more-than-2^16-dofs", "trilinear:test-dofs-unrelated-to-trial-dofs", "more-than-2^16-dofs:test-above-trial-below",
                  "more-than-2^16-dofs:trial-above-test-below", "more-than-2^16-dofs:both-above"] + ["list:repeated-domain:" + _b for _b in
                                                                         ("cell", "cell-subset", "facet-boundary", "facet-subset",
                                                                          "facet-interior-side1", "interior-side0", "interior-side1")]

FIELDS = ("value", "grad", "div", "curl", "hess")


# ------------------------------------------------------------------ grammar
def as_tuple(z):
    return z if isinstance(z, tuple) else (z,)


def field_array(f, name):
    return np.array(f) if name == "value" else getattr(f, name)


def enumerate_ops(basis):
    ops = []
    for comp, f in enumerate(basis.basis[0]):
        for name in FIELDS:
            arr = field_array(f, name)
            if arr is None:
                continue
            for idx in np.ndindex(*arr.shape[:-2]):
                ops.append((comp, name, tuple(int(i) for i in idx)))
    return ops


def apply_op(fields, op):
    comp, name, idx = op
    return field_array(as_tuple(fields)[comp], name)[idx]


def coef_eval(coef, w):
    kind = coef[0]
    if kind == "one":
        return 1.0
    if kind == "x":
        return np.array(w["x"])[coef[1]]
    if kind == "xx":
        x = np.array(w["x"])
        return x[0] * x[-1]
    if kind == "h":
        return np.array(w["h"])
    if kind == "n":
        return np.array(w["n"])[coef[1]]
    if kind == "scalar":
        return w["coef_s"]
    if kind == "field":
        z = w["coef_f"]
        arr = np.array(as_tuple(z)[0])
        while arr.ndim > 2:
            arr = arr[0]
        return arr
    if kind == "imag":
        return 1j
    if kind == "jump":      # the sign skfem.helpers.jump takes from asm()'s product index w.idx
        return (-1.0) ** int(sum(w["idx"]))
    raise ValueError(coef)


def make_integrands(terms, ncomp_u):
    def bil(*args):
        w = args[-1]
        u, v = args[:ncomp_u], args[ncomp_u:-1]
        return sum(coef_eval(c, w) * apply_op(u, ou) * apply_op(v, ov) for c, ou, ov in terms)

    def lin(*args):  # trial replaced by the field w['cu']
        w = args[-1]
        v = args[:-1]
        u = as_tuple(w["cu"])
        return sum(coef_eval(c, w) * apply_op(u, ou) * apply_op(v, ov) for c, ou, ov in terms)

    def fun(w):
        u, v = as_tuple(w["cu"]), as_tuple(w["cv"])
        return sum(coef_eval(c, w) * apply_op(u, ou) * apply_op(v, ov) for c, ou, ov in terms)
    return bil, lin, fun


# --------------------------------------------------------- dense reference
def dense_reference(ub, vb, ed_u, ed_v, terms, w):
    """A_ref[row = test dof, col = trial dof] by explicit loops over the local indices; also the matrix of
    absolute contributions (the natural scale for the tolerance)."""
    cdt = complex if any(c[0] == "imag" for c, _, _ in terms) else float
    A = np.zeros((vb.N, ub.N), dtype=cdt)
    S = np.zeros((vb.N, ub.N))
    dx = ub.dx
    cvals = [coef_eval(c, w) for c, _, _ in terms]
    for j in range(ub.Nbfun):
        fu = ub.basis[j]
        for i in range(vb.Nbfun):
            fv = vb.basis[i]
            integ = 0
            absint = 0
            for cv, (c, ou, ov) in zip(cvals, terms):
                tt = cv * apply_op(fu, ou) * apply_op(fv, ov)
                integ = integ + tt
                absint = absint + np.abs(tt)
            loc = (integ * dx).sum(axis=1)       # one number per cell
            aloc = (absint * dx).sum(axis=1)
            np.add.at(A, (ed_v[i], ed_u[j]), loc)
            np.add.at(S, (ed_v[i], ed_u[j]), aloc)
    return A, S


def own_interpolate(basis, ed, z, op):
    """op(z_h) at the quadrature points by an explicit sum over local basis functions."""
    out = 0
    for i in range(basis.Nbfun):
        out = out + z[ed[i]][:, None] * apply_op(basis.basis[i], op)
    return out


# ------------------------------------------------------------------ bases
BASIS_KINDS = ("cell", "cell-subset", "facet-boundary", "facet-subset", "facet-interior-side1", "interior-side0",
               "interior-side1")


def build_basis(kind_of_basis, mesh, elem, rng, intorder=None):
    """Returns (basis, factory(elem) for the same integration domain, own cell index array of the domain)."""
    import skfem
    nt = mesh.t.shape[1]
    f2t = np.asarray(mesh.f2t)
    kw = {} if intorder is None else {"intorder": intorder}
    if kind_of_basis == "cell":
        mk = lambda e: skfem.CellBasis(mesh, e, **kw)
        cells = np.arange(nt)
    elif kind_of_basis == "cell-subset":
        S = np.sort(rng.choice(nt, size=max(1, nt // 3), replace=False))
        S = S[rng.permutation(S.size)].astype(np.int32)  # unsorted
        mk = lambda e: skfem.CellBasis(mesh, e, elements=S, **kw)
        cells = S
    else:
        bnd = np.nonzero(f2t[1] == -1)[0]
        itr = np.nonzero(f2t[1] != -1)[0]
        if kind_of_basis == "facet-boundary":
            mk = lambda e: skfem.FacetBasis(mesh, e, **kw)
            cells = f2t[0, bnd]
        elif kind_of_basis == "facet-subset":
            allf = np.arange(f2t.shape[1])
            F = rng.choice(allf, size=max(1, allf.size // 4), replace=False).astype(np.int64)
            mk = lambda e: skfem.FacetBasis(mesh, e, facets=F, **kw)
            cells = f2t[0, F]
        else:
            if itr.size == 0:
                raise Skip("no-interior-facets")
            F = rng.choice(itr, size=max(1, itr.size // 2), replace=False).astype(np.int32)
            if kind_of_basis == "facet-interior-side1":
                mk = lambda e: skfem.FacetBasis(mesh, e, facets=F, side=1, **kw)
                cells = f2t[1, F]
            elif kind_of_basis == "interior-side0":
                mk = lambda e: skfem.InteriorFacetBasis(mesh, e, side=0, **kw)
                cells = f2t[0, itr]
            else:
                mk = lambda e: skfem.InteriorFacetBasis(mesh, e, facets=F, side=1, **kw)
                cells = f2t[1, F]
    return mk(elem), mk, np.asarray(cells)


def pick_terms(rng, ops_u, ops_v, facet, complex_, allow_field):
    nterms = int(rng.integers(1, 4))
    coefs = [("one",), ("x", 0), ("xx",), ("h",), ("scalar",)]
    if facet:
        coefs += [("n", 0), ("n", 0)]
    if allow_field:
        coefs += [("field",)]
    terms = []
    for _ in range(nterms):
        c = coefs[int(rng.integers(len(coefs)))]
        ou = ops_u[int(rng.integers(len(ops_u)))]
        ov = ops_v[int(rng.integers(len(ops_v)))]
        terms.append((c, ou, ov))
    if complex_:
        terms.append((("imag",), ops_u[int(rng.integers(len(ops_u)))], ops_v[int(rng.integers(len(ops_v)))]))
    return terms


def sig(terms):
    return [(c[0], ou[1], ov[1]) for c, ou, ov in terms]


def mesh_ok_for(rec, mc):
    if rec.mesh_req == "any":
        return True
    if rec.mesh_req == "affine":
        return mc.affine_cells and mc.order == 1
    return mc.desc.get("style") == "tensor" and mc.order == 1 and not mc.desc.get("renumbered_local", True)


def one_case(ctx, k, kind):
    import skfem
    rng = ctx.rng()
    recs = [r for r in EL.all_for_kind(kind) if not r.skeleton and r.mesh_req != "axis-parallel"]
    rec = recs[k % len(recs)]
    rnd = k // len(recs)
    if rec.family == "global" or rec.mesh_req == "affine":
        from .c09 import wellshaped
        mc = wellshaped(rng, kind, False)
    else:
        mc = G.first_order(rng, kind)
        if kind in ("tri", "quad", "tet", "hex") and (k + rnd) % 4 == 3:
            mc = G.second_order(rng, mc)
    mesh = mc.mesh
    if mesh.t.shape[1] > ctx.scale(24, 60):
        S = np.sort(rng.choice(mesh.t.shape[1], size=ctx.scale(24, 60), replace=False))
        p, t = G.clean(np.asarray(mesh.p), np.asarray(mesh.t)[:, S].astype(np.int64)) if mc.order == 1 else (None, None)
        if p is None:
            raise Skip("second-order-mesh-too-large")
        mesh = type(mesh)(p, t)
    # basis kind rotates so that every kind is reached in the quick tier
    bk = BASIS_KINDS[(k + rnd) % len(BASIS_KINDS)]
    if (not rec.facet_basis or kind == "wedge") and bk not in ("cell", "cell-subset"):
        bk = ("cell", "cell-subset")[k % 2]
    if kind == "line" and bk in ("facet-interior-side1", "interior-side0", "interior-side1", "facet-subset"):
        bk = "facet-boundary" if k % 2 else "cell-subset"
    complex_ = (k % 7 == 5)
    elem = rec.make()
    try:
        ub, mk, cells = build_basis(bk, mesh, elem, rng)
    except NotImplementedError:
        raise Skip("basis-kind-not-implemented-for-element")
    ctx.reached("basis:" + bk)
    facet = bk not in ("cell", "cell-subset")
    # different test element?
    others = [r for r in EL.of_kind(kind) if not r.skeleton and r.name != rec.name and r.mesh_req == "any"
              and r.family in ("h1", "hdiv", "hcurl") and (r.facet_basis or not facet)]
    different = bool(others) and (k % 3 != 0) and rec.family in ("h1", "hdiv", "hcurl", "h1vec") \
        and rec.mesh_req == "any"
    if different:
        r2 = others[int(rng.integers(len(others)))]
        # same quadrature for both: the maximum of the two default orders
        order = 2 * max(elem.maxdeg, r2.make().maxdeg)
        order = min(order, {"tri": 19, "tet": 8}.get(kind, order))
        ub, mk, cells = build_basis(bk, mesh, rec.make(), ctx.rng(), intorder=order)
        vb = mk(r2.make())
        tname = r2.name
        ctx.reached("trial!=test")
        # with_element must give a basis on the same integration domain
        wb = ub.with_element(r2.make())
        same = (np.array_equal(getattr(wb, "tind", None), getattr(ub, "tind", None))
                and np.array_equal(getattr(wb, "find", None), getattr(ub, "find", None))
                and wb.X.shape == ub.X.shape)
        ctx.check("with-element-same-domain", same,
                  mech=("facetbasis-with-element-drops-side" if bk in ("facet-interior-side1", "interior-side1")
                        else "with-element-domain"), basis=bk, trial=rec.name, test=tname)
    else:
        vb = ub
        tname = rec.name
    ed_full_u = np.asarray(ub.dofs.element_dofs)
    ed_full_v = np.asarray(vb.dofs.element_dofs)
    ed_u, ed_v = ed_full_u[:, cells], ed_full_v[:, cells]
    ctx.check("domain-cells", np.array_equal(np.asarray(ub.element_dofs), ed_u) and ub.dx.shape[0] == len(cells),
              mech="basis-domain-cells", basis=bk, elem=rec.name)
    if bk == "cell-subset":
        # the default parameters the integrand sees (x, h) belong to the subset's cells in the caller's order: the same
        # arrays as those of the basis on the whole mesh with the same quadrature, taken at `cells` (the dense reference
        # below reads the subset basis' own `x`, so a mismatch between `x` and the basis functions would be invisible)
        whole = skfem.CellBasis(mesh, rec.make(), quadrature=(ub.X, ub.W))
        dw, ds = whole.default_parameters(), ub.default_parameters()
        xw, xs = np.asarray(dw["x"]), np.asarray(ds["x"])
        hw, hs = np.asarray(dw["h"]), np.asarray(ds["h"])
        tolx = 1e-12 * (float(np.abs(xw).max()) + 1e-300)     # a wrong cell is off by the cell size, not by rounding
        okx = xs.shape == xw[:, cells].shape and bool(np.all(np.abs(xs - xw[:, cells]) <= tolx))
        okh = hs.shape == hw[cells].shape and bool(np.all(np.abs(hs - hw[cells]) <= 1e-12 * float(np.abs(hw).max())))
        ctx.check("default-parameters-follow-the-subset", okx and okh, mech="cell-subset:default-x-h-order",
                  x_ok=bool(okx), h_ok=bool(okh), elem=rec.name, sorted_subset=bool(np.all(np.diff(cells) > 0)))
        if not np.all(np.diff(cells) > 0):
            ctx.reached("default-parameters-on-unsorted-subset")
    ops_u, ops_v = enumerate_ops(ub), enumerate_ops(vb)
    ncomp_u = len(ub.basis[0])
    allow_field = True
    terms = pick_terms(rng, ops_u, ops_v, facet and mesh.dim() > 1, complex_, allow_field)
    bil, lin, fun = make_integrands(terms, ncomp_u)
    dtype = complex if complex_ else np.float64
    z = rng.standard_normal(ub.N)
    # scalar coefficient over 30 orders of magnitude (physical constants, micro-scale domains): entries far below 1
    # are entries, not rounding noise
    kwargs = {"coef_s": float(rng.integers(1, 9)) / 4 * float(2.0 ** rng.choice([0, 0, -50, -25, 30]))}
    # a caller's parameter named like a default one (h) replaces the default, identically in all three form types
    if any(c[0] == "h" for c, _, _ in terms) and k % 3 == 1:
        kwargs["h"] = 0.75
        ctx.reached("kwarg:overrides-default")
    uses_field = any(c[0] == "field" for c, _, _ in terms)
    if uses_field:
        kwargs["coef_f"] = ub.interpolate(z)
    for c, _, _ in terms:
        if c[0] in ("n", "h", "x", "xx"):
            ctx.reached("coef:" + c[0][0])
        if c[0] == "scalar":
            ctx.reached("kwarg:scalar")
    tag = dict(mesh=type(mesh).__name__, desc=mc.desc, trial=rec.name, test=tname, basis=bk, terms=sig(terms),
               dtype=str(np.dtype(dtype)))
    base = rec.name.split("(")[0]

    A = skfem.BilinearForm(bil, dtype=dtype).assemble(ub, vb, **dict(kwargs))
    ctx.check("shape-test-by-trial", A.shape == (vb.N, ub.N), mech="matrix-shape", shape=A.shape, **tag)

    # parameter dictionary for the reference: the basis' own defaults (same object for all form types) + kwargs
    w = dict(ub.default_parameters())
    w.update(kwargs)
    Aref, S = dense_reference(ub, vb, ed_u, ed_v, terms, w)
    Ad = A.toarray()
    scale = float(S.max()) + 1e-300
    ctx.close("matrix-vs-dense-reference", Ad, Aref, rtol=1e-11, scale=scale, mech=f"matrix:{bk}:{base}", **tag)

    # coefficient vectors
    if complex_:
        u = rng.standard_normal(ub.N) + 1j * rng.standard_normal(ub.N)
        v = rng.standard_normal(vb.N) + 1j * rng.standard_normal(vb.N)
    else:
        u, v = rng.standard_normal(ub.N), rng.standard_normal(vb.N)
    cu, cv = ub.interpolate(u), vb.interpolate(v)
    # interpolate by an independent route
    ou = ops_u[int(rng.integers(len(ops_u)))]
    own = own_interpolate(ub, ed_u, u, ou)
    ctx.close("interpolate-vs-own", apply_op(cu, ou), own, rtol=1e-11,
              scale=float(np.abs(own).max()) + float(np.abs(u).max()) * 1e-3, mech=f"interpolate:{bk}:{base}",
              op=ou, **tag)

    big = float(np.abs(v) @ S @ np.abs(u)) + 1e-300
    s = skfem.Functional(fun, dtype=dtype).assemble(ub, cu=cu, cv=cv, **dict(kwargs))
    vAu = v @ (A @ u)
    ctx.close("vTAu-equals-functional", s, vAu, rtol=1e-10, scale=big, mech=f"functional:{bk}:{base}", **tag)
    ctx.close("functional-vs-own-sum", s, v @ (Aref @ u), rtol=1e-10, scale=big, mech=f"functional-own:{bk}:{base}", **tag)
    b = skfem.LinearForm(lin, dtype=dtype).assemble(vb, cu=cu, **dict(kwargs))
    sb = S @ np.abs(u)
    ctx.close("linearform-equals-Au", b, A @ u, rtol=1e-10, scale=float(sb.max()) + 1e-300,
              mech=f"linear:{bk}:{base}", **tag)
    ctx.close("vector-vs-dense-reference", b, Aref @ u, rtol=1e-10, scale=float(sb.max()) + 1e-300,
              mech=f"vector:{bk}:{base}", **tag)
    ctx.check("shape-test-by-trial", b.shape == (vb.N,), mech="vector-shape", shape=b.shape, **tag)

    # elemental forms sum to the assembled ones
    el = skfem.Functional(fun, dtype=dtype).elemental(ub, cu=cu, cv=cv, **dict(kwargs))
    ctx.close("elemental-sums", el.sum(), s, rtol=1e-12, scale=big, mech="functional-elemental", **tag)
    ctx.check("elemental-sums", el.shape == (len(cells),), mech="functional-elemental-shape", shape=el.shape, **tag)
    Ael = skfem.BilinearForm(bil, dtype=dtype).elemental(ub, vb, **dict(kwargs)).todefault()
    ctx.check("elemental-sums", (abs(Ael - A)).max() == 0 if Ael.nnz or A.nnz else True, mech="bilinear-elemental", **tag)

    # the same domain listed n times through skfem.asm: the sum over the listed bases, in all three form types
    nrep = 1 + k % 3
    sn = skfem.asm(skfem.Functional(fun, dtype=dtype), [ub] * nrep, cu=cu, cv=cv, **dict(kwargs))
    if ctx.check("list-scalar-vs-own-sum", np.ndim(sn) == 0, mech="list:functional:repeated-domain:shape", shape=np.shape(sn), n=nrep, **tag):
        ctx.close("list-scalar-vs-own-sum", sn, nrep * (v @ (Aref @ u)), rtol=1e-10, scale=nrep * big,
                  mech="list:functional:repeated-domain", n=nrep, **tag)
        ctx.close("list-forms-agree", sn, nrep * s, rtol=1e-12, scale=nrep * big, mech="list:functional:repeated-domain-vs-single",
                  n=nrep, **tag)
    bn = skfem.asm(skfem.LinearForm(lin, dtype=dtype), [vb] * nrep, cu=cu, **dict(kwargs))
    ctx.close("list-vector-vs-own-sum", bn, nrep * (Aref @ u), rtol=1e-10, scale=nrep * (float(sb.max()) + 1e-300),
              mech="list:linear:repeated-domain", n=nrep, **tag)
    if k % 2 == 1:
        An = skfem.asm(skfem.BilinearForm(bil, dtype=dtype), [ub] * nrep, *([[vb]] if different else []), **dict(kwargs))
        if ctx.check("list-matrix-vs-own-sum", An.shape == (vb.N, ub.N), mech="list:bilinear:repeated-domain:shape", shape=An.shape, **tag):
            ctx.close("list-matrix-vs-own-sum", An.toarray(), nrep * Aref, rtol=1e-11, scale=nrep * scale,
                      mech="list:bilinear:repeated-domain", n=nrep, **tag)
    ctx.reached("list:repeated-domain:%s" % bk)

    nnz = int((np.abs(Ad) > 1e-14 * scale).sum())
    unsym = different or (Ad.shape[0] == Ad.shape[1] and np.abs(Ad - Ad.T).max() > 1e-8 * np.abs(Ad).max())
    if nnz and unsym:
        ctx.nontrivial(type(mesh).__name__, rec.name, tname, bk, str(sig(terms)), str(np.dtype(dtype)))
    if complex_:
        # the imaginary term may legitimately vanish (e.g. hessian of a linear function): judge against the reference
        has_imag = np.abs(Aref.imag).max() > 1e-12 * scale
        ctx.check("complex-dtype", np.iscomplexobj(Ad) and (np.abs(Ad.imag).max() > 0 or not has_imag),
                  mech="complex-lost", **tag)
        # s = J for a complex-valued integrand also when the Functional was declared without a dtype (the scalar is
        # whatever the integrand sums to; its elemental contributions say the same)
        import warnings as _w
        with _w.catch_warnings():
            _w.simplefilter("ignore")
            s_plain = skfem.Functional(fun).assemble(ub, cu=cu, cv=cv, **dict(kwargs))
            s_el = skfem.Functional(fun).elemental(ub, cu=cu, cv=cv, **dict(kwargs))
        ctx.close("complex-dtype", complex(s_plain), complex(s), rtol=1e-12, scale=abs(complex(s)) + big, mech="complex-functional-without-dtype",
                  **tag)
        ctx.close("complex-dtype", complex(np.sum(np.asarray(s_el))), complex(s), rtol=1e-10, scale=abs(complex(s)) + big,
                  mech="complex-functional-elemental-sum", **tag)

    # kwarg spellings: DOF vector == interpolate() == raw array, bit-identical
    if uses_field and ncomp_u == 1:
        fld = kwargs["coef_f"]
        variants = {"dofvector": z, "discretefield": fld, "rawarray": np.array(as_tuple(fld)[0])}
        for nm, val in variants.items():
            kw2 = dict(kwargs, coef_f=val)
            A2 = skfem.BilinearForm(bil, dtype=dtype).assemble(ub, vb, **kw2)
            same = A2.shape == A.shape and (A2 != A).nnz == 0
            if nm == "rawarray" and np.array(as_tuple(fld)[0]).ndim != 2:
                ctx.drop("raw-array-of-vector-field")
                continue
            ctx.check("kwarg-spellings-bitwise", same, mech=f"kwarg-{nm}", spelling=nm, **tag)
            ctx.reached("kwarg:" + nm)
            b2 = skfem.LinearForm(lin, dtype=dtype).assemble(vb, cu=cu, **kw2) if vb is ub else None
            if b2 is not None:
                ctx.check("kwarg-spellings-bitwise", np.array_equal(b2, b), mech=f"kwarg-{nm}-linear", spelling=nm, **tag)
            s2 = skfem.Functional(fun, dtype=dtype).assemble(ub, cu=cu, cv=cv, **kw2)
            ctx.check("kwarg-spellings-bitwise", s2 == s, mech=f"kwarg-{nm}-functional", spelling=nm, **tag)

    # the same keyword array object updated in place between two assemblies on the same basis objects (Newton-type
    # loops do exactly this): the second assembly must see the new values
    if uses_field and ncomp_u == 1 and np.array(as_tuple(kwargs["coef_f"])[0]).ndim == 2:
        zz = z.copy()
        skfem.BilinearForm(bil, dtype=dtype).assemble(ub, vb, **dict(kwargs, coef_f=zz))
        zz *= -1.5
        zz += 0.25
        A3 = skfem.BilinearForm(bil, dtype=dtype).assemble(ub, vb, **dict(kwargs, coef_f=zz))
        w3 = dict(w, coef_f=own_interpolate(ub, ed_u, zz, (0, "value", ())))
        Aref3, S3 = dense_reference(ub, vb, ed_u, ed_v, terms, w3)
        ctx.close("matrix-vs-dense-reference", A3.toarray(), Aref3, rtol=1e-10, scale=float(S3.max()) + 1e-300,
                  mech="kwarg-array-updated-in-place-not-seen", **tag)
        s3 = skfem.Functional(fun, dtype=dtype).assemble(ub, cu=cu, cv=cv, **dict(kwargs, coef_f=zz))
        ctx.close("functional-vs-own-sum", s3, v @ (Aref3 @ u), rtol=1e-9, scale=float(np.abs(v) @ S3 @ np.abs(u)) + 1e-300,
                  mech="kwarg-array-updated-in-place-not-seen:functional", **tag)
        ctx.reached("kwarg:updated-in-place")
    # threads
    if k % 2 == 0:
        for nth in (1, 2, 5):
            At = skfem.BilinearForm(bil, dtype=dtype, nthreads=nth).assemble(ub, vb, **dict(kwargs))
            ctx.check("threaded-equals-serial", At.shape == A.shape and (At != A).nnz == 0,
                      mech="threaded-differs", nthreads=nth, **tag)
    ctx.sample(dict(tag, N_trial=int(ub.N), N_test=int(vb.N), cells=int(len(cells)), nnz=nnz,
                    vTAu=complex(vAu) if complex_ else float(vAu), functional=complex(s) if complex_ else float(s)),
               per_family=2)


def trilinear(ctx, k):
    """TrilinearForm: the assembled order-3 tensor contracted with coefficient vectors equals the Functional
    of the same integrand on the interpolated fields; index roles (w-basis, test, trial) are identified by
    using three different elements."""
    import skfem
    rng = ctx.rng()
    kind = ("tri", "quad", "line", "tet")[k % 4]
    mc = G.first_order(rng, kind)
    mesh = mc.mesh
    if mesh.t.shape[1] > 12:
        S = np.sort(rng.choice(mesh.t.shape[1], size=12, replace=False))
        p, t = G.clean(np.asarray(mesh.p), np.asarray(mesh.t)[:, S].astype(np.int64))
        mesh = type(mesh)(p, t)
    names = {"tri": ("ElementTriP2", "ElementTriP1", "ElementTriP0"),
             "quad": ("ElementQuad2", "ElementQuad1", "ElementQuad0"),
             "line": ("ElementLineP2", "ElementLineP1", "ElementLineP0"),
             "tet": ("ElementTetP2", "ElementTetP1", "ElementTetP0")}[kind]
    if (k // 4) % 2 == 1:
        # trial and test spaces whose leading local DOFs are different global numbers (P2 and P1 share the vertex numbers)
        names = {"tri": ("ElementTriP2", "ElementTriCR", "ElementTriP1"), "quad": ("ElementQuad1", "ElementQuad0", "ElementQuad2"),
                 "line": ("ElementLineP1", "ElementLineP0", "ElementLineP2"), "tet": ("ElementTetP1", "ElementTetCR", "ElementTetP2")}[kind]
        ctx.reached("trilinear:test-dofs-unrelated-to-trial-dofs")
    eu, evv, ew = (EL.by_name(n).make() for n in names)
    ub = skfem.CellBasis(mesh, eu, intorder=4)
    vb, wb = ub.with_element(evv), ub.with_element(ew)
    d = mesh.dim()

    def tri(u, v, ww, w):
        return u.grad[0] * v * ww + u * v.grad[d - 1] * ww * w.x[0]

    T = skfem.TrilinearForm(tri).assemble(ub, vb, wb)
    T = np.asarray(T)
    ctx.check("trilinear-contraction", T.shape == (wb.N, vb.N, ub.N), mech="trilinear-shape", shape=T.shape)
    u, v, z = rng.standard_normal(ub.N), rng.standard_normal(vb.N), rng.standard_normal(wb.N)
    got = np.einsum("kji,k,j,i->", T, z, v, u)

    def fun(w):
        return w["cu"].grad[0] * w["cv"] * w["cw"] + w["cu"] * w["cv"].grad[d - 1] * w["cw"] * w.x[0]
    ref = skfem.Functional(fun).assemble(ub, cu=ub.interpolate(u), cv=vb.interpolate(v), cw=wb.interpolate(z))
    # natural scale: the same functional on absolute values of the basis contributions is not available cheaply;
    # use |T| contracted with |vectors|
    scale = float(np.einsum("kji,k,j,i->", np.abs(T), np.abs(z), np.abs(v), np.abs(u))) + 1e-300
    ctx.close("trilinear-contraction", got, ref, rtol=1e-10, scale=scale, mech="trilinear", kind=kind, desc=mc.desc)
    ctx.nontrivial("trilinear", kind, names)


def bare_fields(ctx, k):
    """Integrands that return one of their parameters as it is (w['f'], w.h, w.x[0], w.n[0]): the scalar equals the
    sum of field * dx, on every evaluation, and the field passed by the caller / kept by the basis enters a later
    linear form unchanged ("extra parameters enter all three identically")."""
    import skfem
    rng = ctx.rng()
    kind = ("tri", "quad", "line", "tet", "hex")[k % 5]
    ename = {"tri": "ElementTriP2", "quad": "ElementQuad2", "line": "ElementLineP2", "tet": "ElementTetP1", "hex": "ElementHex1"}[kind]
    mc = G.first_order(rng, kind)
    mesh = mc.mesh
    if mesh.t.shape[1] > 40:
        S = np.sort(rng.choice(mesh.t.shape[1], size=40, replace=False))
        p, t = G.clean(np.asarray(mesh.p), np.asarray(mesh.t)[:, S].astype(np.int64))
        mesh = type(mesh)(p, t)
    facet = (k // 5) % 2 == 1 and kind != "line"
    mk = (lambda: skfem.FacetBasis(mesh, EL.by_name(ename).make())) if facet else (lambda: skfem.CellBasis(mesh, EL.by_name(ename).make()))
    basis = mk()
    dx = np.array(basis.dx)
    z = rng.standard_normal(basis.N)
    f = basis.interpolate(z)
    fv = np.array(f).copy()
    tag = dict(kind=kind, elem=ename, basis="facet" if facet else "cell", desc=mc.desc)
    ref = float((fv * dx).sum())
    sc = float((np.abs(fv) * dx).sum()) + 1e-300
    for rep in range(2):
        J = skfem.Functional(lambda w: w["f"]).assemble(basis, f=f)
        ctx.close("functional-vs-own-sum", J, ref, rtol=1e-12, scale=sc, mech="bare-parameter-functional:field", evaluation=rep, **tag)
    ctx.check("kwarg-spellings-bitwise", np.array_equal(np.array(f), fv), mech="caller-field-modified-by-functional", **tag)
    b = skfem.LinearForm(lambda v, w: w["f"] * v).assemble(basis, f=f)
    M = skfem.BilinearForm(lambda u, v, w: u * v).assemble(mk())
    ctx.close("vector-vs-dense-reference", b, M @ z, rtol=1e-10, scale=float((abs(M) @ np.abs(z)).max()) + 1e-300,
              mech="field-reused-after-functional:linear-form", **tag)
    # default fields kept by the basis
    defaults = [("h", lambda w: w.h), ("x0", lambda w: w.x[0])] + ([("n0", lambda w: w.n[0])] if facet and mesh.dim() > 1 else [])
    for nm, fn in defaults:
        fresh = mk()
        refd = skfem.Functional(lambda w, fn=fn: fn(w) * 1.0).assemble(fresh)       # allocates: never in place
        scd = abs(float(skfem.Functional(lambda w, fn=fn: np.abs(fn(w)) * 1.0).assemble(fresh))) + 1e-300
        for rep in range(2):
            Jd = skfem.Functional(fn).assemble(basis)
            ctx.close("functional-vs-own-sum", Jd, refd, rtol=1e-12, scale=scd, mech=f"bare-parameter-functional:w.{nm}",
                      evaluation=rep, **tag)
        bd = skfem.LinearForm(lambda v, w, fn=fn: fn(w) * v).assemble(basis)
        bf = skfem.LinearForm(lambda v, w, fn=fn: fn(w) * v).assemble(fresh)
        ctx.close("vector-vs-dense-reference", bd, bf, rtol=1e-12, scale=float(np.abs(bf).max()) + 1e-300,
                  mech=f"default-field-changed-by-earlier-functional:w.{nm}", **tag)
    ctx.reached("bare-parameter-integrands")
    ctx.nontrivial("bare", kind, facet)


def jump_terms(ctx, k):
    """Trial functions on one side of a set of interior facets, test functions on the other (the jump / penalty terms of
    DG and Nitsche methods), equal or different elements; facet sets given as plain indices or as an oriented boundary
    (`facets_around`).  Rows index test DOFs of the side-1 cells, columns trial DOFs of the side-0 cells."""
    import skfem
    rng = ctx.rng()
    kind = ("tri", "quad", "tet", "hex")[k % 4]
    names = {"tri": ("ElementTriP2", "ElementTriP1"), "quad": ("ElementQuad2", "ElementQuad1"),
             "tet": ("ElementTetP1", "ElementTetP2"), "hex": ("ElementHex1", "ElementHex1")}[kind]
    same_elem = bool((k // 4) % 2)
    n1, n2 = names[0], (names[0] if same_elem else names[1])
    mc = G.first_order(rng, kind)
    mesh = mc.mesh
    if mesh.t.shape[1] > 40:
        S = np.sort(rng.choice(mesh.t.shape[1], size=40, replace=False))
        p, t = G.clean(np.asarray(mesh.p), np.asarray(mesh.t)[:, S].astype(np.int64))
        mesh = type(mesh)(p, t)
    f2t = np.asarray(mesh.f2t)
    itr = np.nonzero(f2t[1] != -1)[0]
    if itr.size < 2:
        raise Skip("no-interior-facets")
    oriented = bool((k // 8) % 2)
    e1, e2 = EL.by_name(n1).make(), EL.by_name(n2).make()
    order = 2 * max(e1.maxdeg, e2.maxdeg)
    order = min(order, {"tri": 12, "tet": 8}.get(kind, order))
    if oriented:
        # the facets around a cell set, interior ones only: side 0 is the cell the orientation names, side 1 the other
        cs = np.sort(rng.choice(mesh.t.shape[1], size=max(1, mesh.t.shape[1] // 3), replace=False)).astype(np.int32)
        ob = mesh.facets_around(cs, flip=bool(rng.integers(2)))
        keep = f2t[1, np.asarray(ob)] != -1
        if not keep.any():
            raise Skip("no-interior-facet-around-the-cell-set")
        from skfem.generic_utils import OrientedBoundary
        F = OrientedBoundary(np.asarray(ob)[keep], np.asarray(ob.ori)[keep])
        c0 = f2t[np.asarray(F.ori), np.asarray(F)]
        c1 = f2t[1 - np.asarray(F.ori), np.asarray(F)]
        ctx.reached("oriented-facet-set")
    else:
        F = rng.choice(itr, size=max(1, itr.size // 2), replace=False).astype(np.int32)
        c0, c1 = f2t[0, F], f2t[1, F]
    ub = skfem.InteriorFacetBasis(mesh, e1, facets=F, side=0, intorder=order)
    vb = skfem.InteriorFacetBasis(mesh, e2, facets=F, side=1, quadrature=ub.quadrature)
    ed_u = np.asarray(ub.dofs.element_dofs)[:, c0]
    ed_v = np.asarray(vb.dofs.element_dofs)[:, c1]
    tag = dict(kind=kind, trial=n1, test=n2, oriented=oriented, facets=int(np.asarray(F).size), mesh=type(mesh).__name__)
    ctx.check("domain-cells", np.array_equal(np.asarray(ub.element_dofs), ed_u) and np.array_equal(np.asarray(vb.element_dofs), ed_v),
              mech="interior-facet-basis-cells:" + ("oriented" if oriented else "plain"), **tag)
    ops_u, ops_v = enumerate_ops(ub), enumerate_ops(vb)
    terms = pick_terms(rng, ops_u, ops_v, True, False, False)
    bil, lin, fun = make_integrands(terms, len(ub.basis[0]))
    kwargs = {"coef_s": float(rng.integers(1, 9)) / 4}
    A = skfem.BilinearForm(bil).assemble(ub, vb, **dict(kwargs))
    w = dict(ub.default_parameters())
    w.update(kwargs)
    Aref, S = dense_reference(ub, vb, ed_u, ed_v, terms, w)
    ctx.check("shape-test-by-trial", A.shape == (vb.N, ub.N), mech="matrix-shape", shape=A.shape, **tag)
    ctx.close("matrix-vs-dense-reference", A.toarray(), Aref, rtol=1e-11, scale=float(S.max()) + 1e-300,
              mech="trial-and-test-on-opposite-sides-of-interior-facets", terms=sig(terms), **tag)
    u, v = rng.standard_normal(ub.N), rng.standard_normal(vb.N)
    s_ = skfem.Functional(fun).assemble(ub, cu=ub.interpolate(u), cv=vb.interpolate(v), **dict(kwargs))
    ctx.close("vTAu-equals-functional", v @ (A @ u), s_, rtol=1e-9, scale=float(np.abs(v) @ S @ np.abs(u)) + 1e-300,
              mech="jump-term:vTAu", **tag)
    Al = skfem.asm(skfem.BilinearForm(bil), [ub], [vb], **dict(kwargs))
    ctx.check("list-matrix-vs-own-sum", Al.shape == A.shape and (Al != A).nnz == 0, mech="list:bilinear:asm-pair-of-lists-vs-assemble", **tag)
    ctx.reached("trial-side0-test-side1")
    ctx.nontrivial("jump", kind, same_elem, oriented)


def scalar_kinds(ctx, k):
    """Scalars of every numeric type as extra parameters, integrands that return a constant, bases on an empty set of
    cells / facets, an explicit quadrature=: all three form types see the same thing."""
    import skfem
    rng = ctx.rng()
    kind = ("tri", "quad", "line", "tet")[k % 4]
    ename = {"tri": "ElementTriP2", "quad": "ElementQuad1", "line": "ElementLineP2", "tet": "ElementTetP1"}[kind]
    mc = G.first_order(rng, kind)
    mesh = mc.mesh
    basis = skfem.CellBasis(mesh, EL.by_name(ename).make())
    dx = np.array(basis.dx)
    M = skfem.BilinearForm(lambda u, v, w: u * v).assemble(basis)
    bl = skfem.LinearForm(lambda v, w: 1.0 * v).assemble(basis)
    meas = float(dx.sum())
    tag = dict(kind=kind, elem=ename, mesh=type(mesh).__name__)
    for nm, c in (("int", 3), ("bool", True), ("float32", np.float32(0.375)), ("int64", np.int64(-2)), ("float64", np.float64(1.25)),
                  ("complex", 0.5 + 2j), ("complex128", np.complex128(1 - 1j))):
        cplx = isinstance(c, (complex, np.complexfloating))
        dt = complex if cplx else np.float64
        cv = complex(c) if cplx else float(c)
        A = skfem.BilinearForm(lambda u, v, w: w["c"] * u * v, dtype=dt).assemble(basis, c=c)
        b = skfem.LinearForm(lambda v, w: w["c"] * v, dtype=dt).assemble(basis, c=c)
        sF = skfem.Functional(lambda w: w["c"] + 0 * w.x[0], dtype=dt).assemble(basis, c=c)
        rt = 1e-6 if nm == "float32" else 1e-12
        ctx.close("matrix-vs-dense-reference", A.toarray(), cv * M.toarray(), rtol=rt, scale=abs(cv) * float(np.abs(M).max()),
                  mech=f"scalar-parameter:{nm}:bilinear", **tag)
        ctx.close("vector-vs-dense-reference", b, cv * bl, rtol=rt, scale=abs(cv) * float(np.abs(bl).max()), mech=f"scalar-parameter:{nm}:linear", **tag)
        ctx.close("functional-vs-own-sum", sF, cv * meas, rtol=rt, scale=abs(cv) * meas, mech=f"scalar-parameter:{nm}:functional", **tag)
    ctx.reached("kwarg:scalar-types")
    # integrands returning a constant
    for nm, fn, ref in (("float", lambda w: 1.0, meas), ("int", lambda w: 2, 2 * meas)):
        try:
            got = skfem.Functional(fn).assemble(basis)
            ctx.close("functional-vs-own-sum", got, ref, rtol=1e-12, scale=abs(ref), mech=f"constant-integrand:{nm}", **tag)
        except Exception as e:
            ctx.check("functional-vs-own-sum", False, mech=f"constant-integrand-raises:{nm}", error=repr(e)[:200], **tag)
    rho = rng.integers(1, 5, size=(dx.shape[0], 1)).astype(float)          # one number per cell, broadcast over the points
    A = skfem.BilinearForm(lambda u, v, w: w["rho"] * u * v).assemble(basis, rho=rho)
    Aref = np.zeros((basis.N, basis.N))
    ed = np.asarray(basis.element_dofs)
    for j in range(basis.Nbfun):
        for i in range(basis.Nbfun):
            np.add.at(Aref, (ed[i], ed[j]), (rho * np.array(basis.basis[j][0]) * np.array(basis.basis[i][0]) * dx).sum(axis=1))
    ctx.close("matrix-vs-dense-reference", A.toarray(), Aref, rtol=1e-11, scale=float(np.abs(Aref).max()), mech="per-cell-coefficient-array", **tag)
    # empty integration domains: zero matrix / vector / scalar of the right shape
    emp = np.array([], dtype=np.int32)
    for nm, be in (("cells", skfem.CellBasis(mesh, EL.by_name(ename).make(), elements=emp)),
                   ("facets", skfem.FacetBasis(mesh, EL.by_name(ename).make(), facets=emp) if kind != "line" else None)):
        if be is None:
            continue
        try:
            A0 = skfem.BilinearForm(lambda u, v, w: u * v).assemble(be)
            b0 = skfem.LinearForm(lambda v, w: 1.0 * v).assemble(be)
            s0 = skfem.Functional(lambda w: 1.0 + 0 * w.x[0]).assemble(be)
            ctx.check("matrix-vs-dense-reference", A0.shape == (basis.N, basis.N) and A0.nnz == 0 and not np.any(b0) and
                      b0.shape == (basis.N,) and s0 == 0, mech=f"empty-domain:{nm}", shape=A0.shape, nnz=int(A0.nnz), **tag)
        except Exception as e:
            ctx.check("matrix-vs-dense-reference", False, mech=f"empty-domain-raises:{nm}", error=repr(e)[:200], **tag)
    ctx.reached("empty-domain")
    # an explicit rule instead of an order
    from skfem.quadrature import get_quadrature
    n = int(rng.integers(1, 7))
    XW = get_quadrature(mesh.elem.refdom, n)
    bq = skfem.CellBasis(mesh, EL.by_name(ename).make(), quadrature=XW)
    bn = skfem.CellBasis(mesh, EL.by_name(ename).make(), intorder=n)
    ctx.check("kwarg-spellings-bitwise", np.array_equal(np.asarray(bq.dx), np.asarray(bn.dx)) and
              (skfem.BilinearForm(lambda u, v, w: u * v).assemble(bq) != skfem.BilinearForm(lambda u, v, w: u * v).assemble(bn)).nnz == 0,
              mech="explicit-quadrature-differs-from-intorder", order=n, **tag)
    # ways of making a form: decorator with options, a form made of a form, partial application, dtype spellings
    zc = rng.standard_normal(basis.N) + 1j * rng.standard_normal(basis.N)
    fz = basis.interpolate(zc)

    def bil_(u, v, w):
        return (1 + 2j) * u * v + w["f"] * u.grad[0] * v

    def lin_(v, w):
        return (2 - 1j) * w["f"] * v + v.grad[0]

    def fun_(w):
        return w["f"] * w["f"] + 1j * w.x[0]
    A0 = skfem.BilinearForm(bil_, dtype=complex).assemble(basis, f=fz)
    b0 = skfem.LinearForm(lin_, dtype=complex).assemble(basis, f=fz)
    s0 = skfem.Functional(fun_, dtype=complex).assemble(basis, f=fz)
    ctx.check("complex-dtype", A0.dtype == np.complex128 and b0.dtype == np.complex128, mech="complex-form-result-dtype",
              dtypes=[str(A0.dtype), str(b0.dtype)], **tag)
    spell = {"decorator-options": (skfem.BilinearForm(dtype=complex)(bil_), skfem.LinearForm(dtype=complex)(lin_), skfem.Functional(dtype=complex)(fun_)),
             "dtype-np.complex128": (skfem.BilinearForm(bil_, dtype=np.complex128), skfem.LinearForm(lin_, dtype=np.complex128),
                                     skfem.Functional(fun_, dtype=np.complex128)),
             "form-of-form": (skfem.BilinearForm(skfem.BilinearForm(bil_, dtype=complex).form, dtype=complex),
                              skfem.LinearForm(skfem.LinearForm(lin_, dtype=complex).form, dtype=complex),
                              skfem.Functional(skfem.Functional(fun_, dtype=complex).form, dtype=complex))}
    for nm, (fb_, fl_, ff_) in spell.items():
        A1, b1, s1 = fb_.assemble(basis, f=fz), fl_.assemble(basis, f=fz), ff_.assemble(basis, f=fz)
        ctx.check("kwarg-spellings-bitwise", (A1 != A0).nnz == 0 and np.array_equal(b1, b0) and s1 == s0, mech=f"form-construction:{nm}", **tag)
    # partial application of a leading argument of the integrand
    def bil3(c_, u, v, w):
        return c_ * u * v
    Ap = skfem.BilinearForm(bil3).partial(2.5).assemble(basis)
    ctx.close("matrix-vs-dense-reference", Ap.toarray(), 2.5 * M.toarray(), rtol=1e-13, scale=2.5 * float(np.abs(M).max()),
              mech="form-construction:partial", **tag)
    ctx.reached("form-construction-spellings")
    ctx.nontrivial("scalar-kinds", kind)


# ------------------------------------------------------------ lists of bases
LIST_COMPS = ("cell-partition", "two-sides", "boundary+interior", "cell+facet", "overlap")
OTHER_MESH = {"tri": ("quad", "ElementQuad1"), "quad": ("tri", "ElementTriP1"), "tet": ("hex", "ElementHex1"),
              "hex": ("tet", "ElementTetP1"), "line": ("line", "ElementLineP2"), "wedge": ("tet", "ElementTetP1")}


def list_entries(comp, mesh, rng, L, line):
    """One list of integration domains: [(label, factory(elem, **kw) -> basis, own cell index array, is_facet)].
    The label "repeat-first" means: the very same basis object as entry 0, listed again."""
    import skfem
    nt = mesh.t.shape[1]
    f2t = np.asarray(mesh.f2t)
    bnd = np.nonzero(f2t[1] == -1)[0]
    itr = np.nonzero(f2t[1] != -1)[0]
    idt = (np.int32, np.int64)

    def cellsub(S, label="cell-subset"):
        S = np.asarray(S).astype(idt[int(rng.integers(2))])
        return (label, lambda e, S=S, **kw: skfem.CellBasis(mesh, e, elements=S, **kw), S, False)

    def rsub(n, frac):
        return rng.choice(n, size=max(1, int(n * frac)), replace=False)

    if comp == "cell-partition":
        L = min(L, nt)
        if L == 1 and rng.integers(2):
            return [("cell", lambda e, **kw: skfem.CellBasis(mesh, e, **kw), np.arange(nt), False)]
        perm = rng.permutation(nt)
        if rng.integers(2) and nt > L:          # some cells belong to no entry
            perm = perm[:int(rng.integers(L, nt))]
        cuts = np.sort(rng.choice(np.arange(1, perm.size), size=L - 1, replace=False)) if L > 1 else []
        return [cellsub(P) for P in np.split(perm, cuts)]
    if comp == "overlap":
        S1 = rsub(nt, 0.5)
        S2 = np.unique(np.concatenate([rsub(nt, 0.5), S1[:1]]))           # shares at least one cell with S1
        out = [cellsub(S1), cellsub(S2[rng.permutation(S2.size)])]
        if L >= 3:
            out.append(("repeat-first", None, out[0][2], False))
        return out
    if comp == "cell+facet":
        out = [cellsub(rsub(nt, 0.5))]
        if line or rng.integers(2):
            out.append(("facet-boundary", lambda e, **kw: skfem.FacetBasis(mesh, e, **kw), f2t[0, bnd], True))
        else:
            F = rsub(f2t.shape[1], 0.3).astype(np.int64)
            out.append(("facet-subset", lambda e, **kw: skfem.FacetBasis(mesh, e, facets=F, **kw), f2t[0, F], True))
        if L >= 3:
            out.insert(int(rng.integers(3)), cellsub(rsub(nt, 0.4)))
        return out
    if itr.size == 0:
        raise Skip("no-interior-facets")
    if comp == "two-sides":
        if rng.integers(3) == 0:
            F, kwf = itr, {}
        else:
            F = rsub(itr.size, 0.5)
            F = itr[F].astype(np.int32)
            kwf = {"facets": F}
        return [("interior-side%d" % sd, lambda e, sd=sd, **kw: skfem.InteriorFacetBasis(mesh, e, side=sd, **kwf, **kw),
                 f2t[sd, F], True) for sd in (0, 1)]
    if comp == "boundary+interior":
        out = [("facet-boundary", lambda e, **kw: skfem.FacetBasis(mesh, e, **kw), f2t[0, bnd], True),
               ("interior-side0", lambda e, **kw: skfem.InteriorFacetBasis(mesh, e, side=0, **kw), f2t[0, itr], True)]
        if L >= 3:
            out.append(("interior-side1", lambda e, **kw: skfem.InteriorFacetBasis(mesh, e, side=1, **kw), f2t[1, itr], True))
        return [out[i] for i in rng.permutation(len(out))]
    raise ValueError(comp)


def list_of_bases(ctx, k):
    """The integration domain given as a LIST of bases (two cell subsets, both sides of interior facets, boundary plus
    interior facets, cells plus facets, overlapping subsets, the same basis twice; length 1, 2, 3): every spelling the
    library offers - skfem.asm(form, [bases]), asm(form, [trial bases], [test bases]) (all pairs), the sum of separately
    assembled results, the sum of .coo_data()/.elemental() blocks converted by .todefault() - gives the SUM over the
    listed bases of the own quadrature sum, for the bilinear form, the linear form and the functional alike; asm()'s
    product index w.idx enters all three identically."""
    import skfem
    from dataclasses import replace
    rng = ctx.rng()
    kind = ("tri", "quad", "tet", "hex", "line", "wedge")[k % 6]
    a = k // 6
    comp = LIST_COMPS[a % len(LIST_COMPS)]
    recs = [r for r in EL.all_for_kind(kind) if not r.skeleton and r.mesh_req != "axis-parallel"]
    rec = recs[(5 * a + k // 30) % len(recs)]
    if (not rec.facet_basis or kind == "wedge") and comp not in ("cell-partition", "overlap"):
        comp = ("cell-partition", "overlap")[a % 2]
    if kind == "line" and comp in ("two-sides", "boundary+interior"):
        comp = "cell+facet"
    L = 1 + (k + a) % 3
    L = {"cell-partition": L, "two-sides": 2}.get(comp, max(L, 2))
    # mesh: at most 24 (60) cells so that the dense reference stays small
    if rec.family == "global" or rec.mesh_req == "affine":
        from .c09 import wellshaped
        mc = wellshaped(rng, kind, False)
    else:
        mc = G.first_order(rng, kind)
    cap = ctx.scale(24, 60)
    if mc.mesh.t.shape[1] > cap:
        S = np.sort(rng.choice(mc.mesh.t.shape[1], size=cap, replace=False))
        p, t = G.clean(np.asarray(mc.mesh.p), np.asarray(mc.mesh.t)[:, S].astype(np.int64))
        mc = replace(mc, mesh=type(mc.mesh)(p, t))
    if rec.family != "global" and rec.mesh_req == "any" and kind in ("tri", "quad", "tet", "hex") and a % 4 == 3:
        mc = G.second_order(rng, mc)
    mesh = mc.mesh
    entries = list_entries(comp, mesh, rng, L, kind == "line")
    L = len(entries)
    any_facet = any(e[3] for e in entries)
    all_facet = all(e[3] for e in entries)
    complex_ = (k % 7 == 5)
    others = [r for r in EL.of_kind(kind) if not r.skeleton and r.name != rec.name and r.mesh_req == "any"
              and r.family in ("h1", "hdiv", "hcurl") and (r.facet_basis or not any_facet)]
    different = bool(others) and ((k % 6 >= 3) + a) % 2 == 1 and rec.family in ("h1", "hdiv", "hcurl", "h1vec") \
        and rec.mesh_req == "any"
    try:
        if different:
            r2 = others[int(rng.integers(len(others)))]
            order = 2 * max(rec.make().maxdeg, r2.make().maxdeg)
            order = min(order, {"tri": 19, "tet": 8}.get(kind, order))
            ubs = [e[1](rec.make(), intorder=order) if e[1] else None for e in entries]
            vbs = [e[1](r2.make(), intorder=order) if e[1] else None for e in entries]
            tname = r2.name
        else:
            ubs = [e[1](rec.make()) if e[1] else None for e in entries]
            vbs = list(ubs)
            tname = rec.name
    except NotImplementedError:
        raise Skip("basis-kind-not-implemented-for-element")
    for i, e in enumerate(entries):
        if e[0] == "repeat-first":
            ubs[i], vbs[i] = ubs[0], vbs[0]
            ctx.reached("list:same-object-twice")
    labels = [e[0] for e in entries]
    cells = [np.asarray(e[2]) for e in entries]
    eds_u = [np.asarray(b.dofs.element_dofs)[:, c] for b, c in zip(ubs, cells)]
    eds_v = [np.asarray(b.dofs.element_dofs)[:, c] for b, c in zip(vbs, cells)]
    tag = dict(mesh=type(mesh).__name__, desc=mc.desc, trial=rec.name, test=tname, list=labels, comp=comp,
               dtype="complex" if complex_ else "float")
    for b, ed, c in zip(ubs, eds_u, cells):
        ctx.check("domain-cells", np.array_equal(np.asarray(b.element_dofs), ed) and b.dx.shape[0] == len(c),
                  mech="basis-domain-cells:list", **tag)
    ctx.reached("list:len%d" % L)
    ctx.reached("list:" + comp)
    if different:
        ctx.reached("list:trial!=test")

    # operators every listed basis delivers
    def common_ops(bs):
        ops = enumerate_ops(bs[0])
        for b in bs[1:]:
            have = set(enumerate_ops(b))
            ops = [o for o in ops if o in have]
        return ops
    ops_u, ops_v = common_ops(ubs), common_ops(vbs)
    ncomp_u = len(ubs[0].basis[0])
    terms = pick_terms(rng, ops_u, ops_v, all_facet and mesh.dim() > 1, complex_, not different)
    if (k + a) % 2 == 0:
        terms[0] = (("jump",), terms[0][1], terms[0][2])
        ctx.reached("list:idx-coefficient")
    if not different and k % 4 == 1:
        terms.insert(1, (("field",), ops_u[int(rng.integers(len(ops_u)))], ops_v[int(rng.integers(len(ops_v)))]))
    tag["terms"] = sig(terms)
    bil, lin, fun = make_integrands(terms, ncomp_u)
    dtype = complex if complex_ else np.float64
    N, M = ubs[0].N, vbs[0].N
    z = rng.standard_normal(N)
    kwargs = {"coef_s": float(rng.integers(1, 9)) / 4}
    uses_field = any(c[0] == "field" for c, _, _ in terms)
    if uses_field:
        kwargs["coef_f"] = z            # a DOF vector: every listed basis interpolates it on its own domain
        ctx.reached("list:dofvector-parameter")
    if complex_:
        u = rng.standard_normal(N) + 1j * rng.standard_normal(N)
        v = rng.standard_normal(M) + 1j * rng.standard_normal(M)
    else:
        u, v = rng.standard_normal(N), rng.standard_normal(M)

    def own_w(b, idx):
        w = dict(b.default_parameters())
        w.update(kwargs)
        w["idx"] = idx
        if uses_field:
            w["coef_f"] = b.interpolate(z)      # judged by interpolate-vs-own below
        return w

    # ---- the oracle: sum over the listed bases of the own quadrature sum
    cdt = complex if complex_ else float
    Aref, S = np.zeros((M, N), dtype=cdt), np.zeros((M, N))
    for i in range(L):
        Ai, Si = dense_reference(ubs[i], vbs[i], eds_u[i], eds_v[i], terms, own_w(ubs[i], (i,)))
        Aref = Aref + Ai
        S = S + Si
    i0 = int(rng.integers(L))
    ou = ops_u[int(rng.integers(len(ops_u)))]
    own = own_interpolate(ubs[i0], eds_u[i0], u, ou)
    cus = [b.interpolate(u) for b in ubs]
    cvs = [b.interpolate(v) for b in vbs]
    ctx.close("interpolate-vs-own", apply_op(cus[i0], ou), own, rtol=1e-11,
              scale=float(np.abs(own).max()) + float(np.abs(u).max()) * 1e-3, mech=f"interpolate:list:{labels[i0]}", op=ou, **tag)
    sA = float(S.max()) + 1e-300
    sb = float((S @ np.abs(u)).max()) + 1e-300
    big = float(np.abs(v) @ S @ np.abs(u)) + 1e-300
    bref = Aref @ u
    sref = v @ bref
    BF, LF, FN = skfem.BilinearForm(bil, dtype=dtype), skfem.LinearForm(lin, dtype=dtype), skfem.Functional(fun, dtype=dtype)
    kw = lambda **more: dict(kwargs, **more)
    vb_arg = (lambda i: (vbs[i],)) if different else (lambda i: ())

    # ---- 2-tensor
    mats = {}
    if not different:
        mats["asm-list"] = lambda: skfem.asm(BF, list(ubs), **kw())
    if L == 1:
        mats["asm-pair-of-lists"] = lambda: skfem.asm(BF, [ubs[0]], [vbs[0]], **kw())
        mats["asm-pair-plain"] = lambda: skfem.asm(BF, ubs[0], vbs[0], **kw())
    mats["sum-of-assembled"] = lambda: sum(BF.assemble(ubs[i], *vb_arg(i), **kw(idx=(i,))) for i in range(L))
    mats["coo-sum"] = lambda: sum(BF.coo_data(ubs[i], *vb_arg(i), **kw(idx=(i,))) for i in range(L)).todefault()
    mats["elemental-sum"] = lambda: sum(BF.elemental(ubs[i], *vb_arg(i), **kw(idx=(i,))) for i in range(L)).todefault()
    got_A = {}
    for nm, f in mats.items():
        A = f()
        got_A[nm] = A
        ok = ctx.check("list-matrix-vs-own-sum", getattr(A, "shape", None) == (M, N), mech=f"list:bilinear:{nm}:shape",
                       shape=getattr(A, "shape", None), **tag)
        if ok:
            ctx.close("list-matrix-vs-own-sum", A.toarray(), Aref, rtol=1e-11, scale=sA, mech=f"list:bilinear:{nm}", **tag)
    ctx.reached("list:coo-sum-2tensor")

    # ---- 1-tensor
    vecs = {}
    if not different:
        vecs["asm-list"] = lambda: skfem.asm(LF, list(vbs), **kw(cu=u))
    vecs["sum-of-assembled"] = lambda: sum(LF.assemble(vbs[i], **kw(cu=cus[i], idx=(i,))) for i in range(L))
    vecs["coo-sum"] = lambda: sum(LF.coo_data(vbs[i], **kw(cu=cus[i], idx=(i,))) for i in range(L)).todefault()
    vecs["elemental-sum"] = lambda: sum(LF.elemental(vbs[i], **kw(cu=cus[i], idx=(i,))) for i in range(L)).todefault()
    got_b = {}
    for nm, f in vecs.items():
        b = f()
        got_b[nm] = b
        ok = ctx.check("list-vector-vs-own-sum", getattr(b, "shape", None) == (M,), mech=f"list:linear:{nm}:shape",
                       shape=getattr(b, "shape", None), **tag)
        if ok:
            ctx.close("list-vector-vs-own-sum", b, bref, rtol=1e-10, scale=sb, mech=f"list:linear:{nm}", **tag)
    ctx.reached("list:coo-sum-1tensor")

    # ---- 0-tensor
    scs = {}
    if not different:
        scs["asm-list"] = lambda: skfem.asm(FN, list(ubs), **kw(cu=u, cv=v))
        if not complex_:
            scs["asm-bare-callable"] = lambda: skfem.asm(fun, list(ubs), **kw(cu=u, cv=v))
    scs["sum-of-assembled"] = lambda: sum(FN.assemble(ubs[i], **kw(cu=cus[i], cv=cvs[i], idx=(i,))) for i in range(L))
    scs["coo-sum"] = lambda: sum(FN.coo_data(ubs[i], **kw(cu=cus[i], cv=cvs[i], idx=(i,))) for i in range(L)).todefault()
    scs["elemental-sum"] = lambda: sum(FN.elemental(ubs[i], **kw(cu=cus[i], cv=cvs[i], idx=(i,))).sum() for i in range(L))
    got_s = {}
    for nm, f in scs.items():
        s = f()
        got_s[nm] = s
        ok = ctx.check("list-scalar-vs-own-sum", np.ndim(s) == 0, mech=f"list:functional:{nm}:shape", shape=np.shape(s), **tag)
        if ok:
            ctx.close("list-scalar-vs-own-sum", s, sref, rtol=1e-10, scale=big, mech=f"list:functional:{nm}", **tag)
    ctx.reached("list:coo-sum-0tensor")

    # ---- the three form types agree with one another (no reference involved)
    if not different:
        A, b, s = got_A["asm-list"], got_b["asm-list"], got_s["asm-list"]
        ctx.reached("list:asm-all-three")
    else:
        A, b, s = got_A["coo-sum"], got_b["coo-sum"], got_s["coo-sum"]
    if getattr(A, "shape", None) == (M, N) and np.shape(b) == (M,) and np.ndim(s) == 0:
        ctx.close("list-forms-agree", v @ (A @ u), s, rtol=1e-10, scale=big, mech="list:vTAu-vs-functional", **tag)
        ctx.close("list-forms-agree", b, A @ u, rtol=1e-10, scale=sb, mech="list:linear-vs-Au", **tag)
        ctx.close("list-forms-agree", b @ v, s, rtol=1e-10, scale=big, mech="list:bTv-vs-functional", **tag)

    # ---- all pairs (trial basis i, test basis j) of two lists over the same facets: the four blocks of a jump term
    if comp == "two-sides":
        Ap = skfem.asm(BF, list(ubs), list(vbs), **kw())
        Pref, PS = np.zeros((M, N), dtype=cdt), np.zeros((M, N))
        parts_A, parts_s = [], []
        for i in range(2):
            for j in range(2):
                Aij, Sij = dense_reference(ubs[i], vbs[j], eds_u[i], eds_v[j], terms, own_w(ubs[i], (i, j)))
                Pref = Pref + Aij
                PS = PS + Sij
                parts_A.append(BF.coo_data(ubs[i], vbs[j], **kw(idx=(i, j))))
                parts_s.append(FN.coo_data(ubs[i], **kw(cu=cus[i], cv=cvs[j], idx=(i, j))))
        psA = float(PS.max()) + 1e-300
        pbig = float(np.abs(v) @ PS @ np.abs(u)) + 1e-300
        if ctx.check("list-matrix-vs-own-sum", getattr(Ap, "shape", None) == (M, N), mech="list:bilinear:asm-all-pairs:shape", **tag):
            ctx.close("list-matrix-vs-own-sum", Ap.toarray(), Pref, rtol=1e-11, scale=psA, mech="list:bilinear:asm-all-pairs", **tag)
            ctx.close("list-matrix-vs-own-sum", sum(parts_A).todefault().toarray(), Pref, rtol=1e-11, scale=psA,
                      mech="list:bilinear:coo-sum-all-pairs", **tag)
            sp = sum(parts_s).todefault()
            ctx.close("list-scalar-vs-own-sum", sp, v @ (Pref @ u), rtol=1e-10, scale=pbig, mech="list:functional:coo-sum-all-pairs", **tag)
            ctx.close("list-forms-agree", v @ (Ap @ u), sp, rtol=1e-10, scale=pbig, mech="list:all-pairs:vTAu-vs-functional", **tag)
        ctx.reached("list:all-pairs")

    # ---- functionals of the geometry only: any bases may share a list, also bases of different meshes (ex41)
    okind, oname = OTHER_MESH[kind]
    om = G.first_order(ctx.rng("other-mesh"), okind).mesh
    ob = skfem.CellBasis(om, EL.by_name(oname).make()) if rng.integers(2) or okind == "line" \
        else skfem.FacetBasis(om, EL.by_name(oname).make())
    cpool = [("one",), ("x", 0), ("xx",), ("h",), ("scalar",), ("jump",)]
    cs = [cpool[int(i)] for i in rng.choice(len(cpool), size=int(rng.integers(1, 4)), replace=False)]
    pos = int(rng.integers(L + 1))
    mixed = list(ubs[:pos]) + [ob] + list(ubs[pos:])

    def cfun(w):
        return sum(coef_eval(c, w) for c in cs) + 0.0 * w.x[0]
    ref = sca = 0.0
    for i, b in enumerate(mixed):
        w = dict(b.default_parameters())
        w.update(kwargs, idx=(i,))
        val = sum(coef_eval(c, w) for c in cs) + 0.0 * np.array(w["x"])[0]
        ref = ref + float((val * b.dx).sum())
        sca = sca + float((np.abs(val) * b.dx).sum())
    got = skfem.asm(skfem.Functional(cfun), mixed, coef_s=kwargs["coef_s"])
    if ctx.check("list-scalar-vs-own-sum", np.ndim(got) == 0, mech="list:functional:mixed-meshes:shape", shape=np.shape(got), **tag):
        ctx.close("list-scalar-vs-own-sum", got, ref, rtol=1e-11, scale=sca + 1e-300, mech="list:functional:mixed-meshes",
                  coefs=[c[0] for c in cs], other=type(ob).__name__ + ":" + type(om).__name__, **tag)
    ctx.reached("list:mixed-meshes")

    Ad = Aref
    nnz = int((np.abs(Ad) > 1e-14 * sA).sum())
    if nnz and L >= 1:
        ctx.nontrivial("list", type(mesh).__name__, rec.name, tname, comp, L, str(sig(terms)), str(np.dtype(dtype)))
    ctx.sample(dict(tag, N_trial=int(N), N_test=int(M), cells=[int(len(c)) for c in cells], nnz=nnz,
                    functional=complex(sref) if complex_ else float(sref)), per_family=2)


def fam(kind):
    return lambda ctx, k: one_case(ctx, k, kind)


def ncases(kind, mult):
    return lambda ctx: len([r for r in EL.all_for_kind(kind) if not r.skeleton and r.mesh_req != "axis-parallel"]) \
        * (mult * 3 if ctx.tier == "quick" else mult * 60)


def many_dofs(ctx, k):
    """The statement has no size limit: spaces with more than 2^16 DOFs (index arrays no longer fit 16 bits), different
    trial and test spaces so that one side is above and the other below the limit.  A dense reference is out of reach; the
    oracle is the statement's own consistency clause - v^T A u against the FUNCTIONAL of the same integrand on the
    interpolated functions, b^T v likewise - plus: every test function of a mass-type form has a non-empty row."""
    import skfem
    from skfem.helpers import dot, grad
    rng = ctx.rng()
    which = k % 4
    if which in (0, 1):
        mesh = skfem.MeshTri.init_tensor(np.linspace(0, 1, 129 + int(rng.integers(0, 3))), np.linspace(0, 2, 129))   # ~16.6k vertices
        lo, hi = skfem.ElementTriP1(), skfem.ElementTriP2()                                   # ~16.6k and ~66k DOFs
    elif which == 2:
        mesh = skfem.MeshLine(np.linspace(0, 1, 66001 + int(rng.integers(0, 50))))
        lo, hi = skfem.ElementLineP0(), skfem.ElementLineP1()                                 # 66000 / 66001: both above
    else:
        mesh = skfem.MeshQuad.init_tensor(np.linspace(0, 1, 131), np.linspace(0, 1, 127 + int(rng.integers(0, 3))))
        lo, hi = skfem.ElementQuad1(), skfem.ElementQuad2()
    bl, bh = skfem.CellBasis(mesh, lo, intorder=4), skfem.CellBasis(mesh, hi, intorder=4)
    ub, vb = (bl, bh) if which != 1 else (bh, bl)          # trial below / test above the limit, and the other way round
    tag = dict(mesh=type(mesh).__name__, trial=type(ub.elem).__name__, test=type(vb.elem).__name__, Nu=int(ub.N), Nv=int(vb.N))
    c = float(rng.integers(1, 5))

    def a_int(u, v, w):
        return (1.0 + w.x[0]) * u * v + c * dot(grad(u), grad(v))

    def l_int(v, w):
        return (2.0 - w.x[0]) * v + c * grad(v)[0]
    A = skfem.BilinearForm(a_int).assemble(ub, vb)
    b = skfem.LinearForm(l_int).assemble(vb)
    ctx.check("shape-test-by-trial", A.shape == (vb.N, ub.N) and b.shape == (vb.N,), mech="many-dofs:shape", shape=A.shape, **tag)
    if A.shape != (vb.N, ub.N):
        return
    u, v = rng.standard_normal(ub.N), rng.standard_normal(vb.N)
    uh, vh = ub.interpolate(u), vb.interpolate(v)
    s_a = skfem.Functional(lambda w: (1.0 + w.x[0]) * w["uh"] * w["vh"] + c * dot(w["uh"].grad, w["vh"].grad)).assemble(ub, uh=uh, vh=vh)
    mag = skfem.Functional(lambda w: (1.0 + w.x[0]) * abs(w["uh"] * w["vh"]) + c * abs(dot(w["uh"].grad, w["vh"].grad))).assemble(ub, uh=uh, vh=vh)
    ctx.close("vTAu-equals-functional", float(v @ (A @ u)), float(s_a), rtol=1e-9, scale=float(mag), mech="many-dofs:vTAu-vs-functional", **tag)
    s_l = skfem.Functional(lambda w: (2.0 - w.x[0]) * w["vh"] + c * w["vh"].grad[0]).assemble(vb, vh=vh)
    magl = skfem.Functional(lambda w: (2.0 - w.x[0]) * abs(w["vh"]) + c * abs(w["vh"].grad[0])).assemble(vb, vh=vh)
    ctx.close("linearform-equals-Au", float(b @ v), float(s_l), rtol=1e-9, scale=float(magl), mech="many-dofs:bTv-vs-functional", **tag)
    # the positive mass-type part reaches every test function and every trial function
    M = skfem.BilinearForm(lambda u_, v_, w: abs(u_) * abs(v_) if False else u_ * v_).assemble(ub, vb).tocsr()
    Ma = abs(M)
    rows_hit = np.asarray(Ma.sum(axis=1)).ravel() > 0
    cols_hit = np.asarray(Ma.sum(axis=0)).ravel() > 0
    ctx.check("matrix-vs-dense-reference", bool(rows_hit.all() and cols_hit.all()), mech="many-dofs:test-or-trial-function-without-entries",
              empty_rows=int((~rows_hit).sum()), empty_cols=int((~cols_hit).sum()), **tag)
    # the same through the elemental data and the list spelling
    coo = skfem.BilinearForm(a_int).coo_data(ub, vb)
    ctx.close("elemental-sums", float(v @ coo.dot(u)) if hasattr(coo, "dot") else float(v @ (coo.tocsr() @ u)), float(s_a), rtol=1e-9,
              scale=float(mag), mech="many-dofs:coo-data", **tag)
    ctx.reached("more-than-2^16-dofs")
    ctx.reached("more-than-2^16-dofs:" + ("test-above-trial-below" if (vb.N > 65536 >= ub.N) else
                                          "trial-above-test-below" if (ub.N > 65536 >= vb.N) else "both-above"))
    ctx.nontrivial("many-dofs", which)


FAMILIES = [Family("asm-" + kd, fam(kd), ncases(kd, m), ncases(kd, m), budget={"quick": 40, "thorough": 600})
            for kd, m in (("line", 1), ("tri", 2), ("quad", 2), ("tet", 1), ("hex", 1), ("wedge", 1))]
FAMILIES.append(Family("trilinear", trilinear, 8, 160))
FAMILIES.append(Family("bare-fields", bare_fields, 10, 200))
FAMILIES.append(Family("jump-terms", jump_terms, 16, 480, budget={"quick": 40, "thorough": 400}))
FAMILIES.append(Family("scalar-kinds", scalar_kinds, 4, 80))
FAMILIES.append(Family("basis-lists", list_of_bases, 36, 1440, budget={"quick": 40, "thorough": 600}))
FAMILIES.append(Family("many-dofs", many_dofs, 4, 24, budget={"quick": 120, "thorough": 600}))
