"""C13 Adaptive refinement: conforming, domain-preserving for every marked set.

Events: every `mesh.refined(index array)` (and, inside histories, `mesh.refined(1)`) issued by the
workload; the postcondition oracle runs on (snapshot of the parent, returned child).

Oracle (rv.refmodel.c13_refine.StepOracle): the parent of every child cell is found geometrically
(exact integer arithmetic on dyadic coordinates of any scale / offset, tolerance 1e-12 h otherwise, counted) and each
clause of the statement is decided from (parent p, t, tags) and (child p, t, tags) alone:

  valid-mesh                       shapes, integer cells in range, every vertex used, library is_valid()
  no-duplicate-vertices            bitwise-equal coordinate columns
  no-degenerate-cells              exact measure != 0
  old-vertices-keep-indices        child p[:, :nv_parent] bitwise == parent p
  child-inside-one-parent          all vertices of every child cell in the closure of one parent cell
  children-measure-equals-parent   sum of exact child measures per parent == parent measure
                                   (with containment + conformity: same domain, no overlap)
  marked-cells-subdivided          every marked parent has >= 2 children and is absent from the child
  conforming-facets                <= 2 cells per facet; the two cells of a facet on strictly opposite sides;
                                   single-cell facets lie on boundary facets of the parent and add up to
                                   each parent boundary facet's measure exactly
  no-hanging-nodes                 no vertex in the relative interior of any cell's edge
  subdomains-cover-same-regions    child set == children of the parent's set (geometric parent map)
  boundaries-dropped-or-identical  None + logged warning, or exactly the child facets inside tagged facets
  marked-order-independent         second execution with the marked set listed in another order / container
  second-order-nodes-on-edges      MeshTri2/MeshTet2: edge nodes are the midpoints of the child's edges
  adaptive-theta-definition        marked == {i : est_i > theta * max}, valid index array

Pitfalls met while building the oracle (library right, draft oracle wrong) are noted inline with
"PITFALL".
"""
from __future__ import annotations

import logging

import numpy as np

from ..engine import Family, Skip
from ..gen import meshes as G
from ..refmodel import c13_refine as R

PID = "C13"
RULE = ("(a) EXHAUSTIVE: all 2^n marked subsets (incl. empty and full) of directed and seeded tiny meshes with n <= 8 "
        "cells (triangles, tetrahedra, segments; renumbered / locally permuted / tagged), followed by all subsets of "
        "every child that still has <= 8 cells (two-step histories) up to a per-case cap; (b) random marked subsets "
        "(single, few, half, all-but-one, all, empty; int16/int32/int64/uint8/uint32, unsorted, list, tuple, range, "
        "one-column 2-D, read-only, strided, np.nonzero of a read-only mask, the mesh's own subdomain array) of random "
        "Delaunay/tensor/L-shaped/holed/anisotropic meshes with random subdomain and boundary tags; (c) histories of "
        "up to 12 mixed adaptive/uniform steps with marking by random sets, point singularities, adaptive_theta and "
        "named subdomains; (d) straight MeshTri2/MeshTet2; (e) rotated / 1/3-scaled and docs meshes in tolerance "
        "mode; (f) each of (a)-(c), (e), adaptive_theta-driven and uniform steps once more on parents carrying a point "
        "that no cell uses (trailing / interior index); (g) MeshTri1 parents with sort_t=False (random local vertex "
        "order per cell, oriented()): all subsets of all tiny meshes with two-step histories, plus (b), (c), (e); "
        "(h) (a)-(c) on parents scaled by 2^-30 or translated by +-2^20..2^24 on every axis (needle tetrahedra "
        "included), exact oracle; (i) 30-40 consecutive steps towards one point (all cells at the point / the one "
        "corner cell in a fixed direction / an edge midpoint) down to cells of 2^-30 h, exact oracle; (j) "
        "adaptive_theta on list / tuple / float32 / integer / one-column / read-only estimators and on the output of "
        "Functional.elemental, theta as int, max=0, its raw output driving a refinement. Key = (mesh class, |marked| class, step index); non-trivial iff the marked set is neither empty nor "
        "everything.")
TRACK = ["skfem.mesh.mesh_tri_1:MeshTri1._adaptive", "skfem.mesh.mesh_tri_1:MeshTri1._adaptive_sort_mesh",
         "skfem.mesh.mesh_tri_1:MeshTri1._adaptive_find_facets",
         "skfem.mesh.mesh_tri_1:MeshTri1._adaptive_split_elements",
         "skfem.mesh.mesh_tet_1:MeshTet1._adaptive", "skfem.mesh.mesh_tet_1:MeshTet1._adaptive_sort_mesh",
         "skfem.mesh.mesh_tet_1:MeshTet1._find_nz", "skfem.mesh.mesh_line_1:MeshLine1._adaptive",
         "skfem.mesh.mesh_tri_2:MeshTri2._adaptive", "skfem.mesh.mesh_tet_2:MeshTet2._adaptive",
         "skfem.mesh.mesh:Mesh.refined", "skfem.utils:adaptive_theta"]
REQUIRED_MONITORS = ["valid-mesh", "no-duplicate-vertices", "no-degenerate-cells", "old-vertices-keep-indices",
                     "child-inside-one-parent", "children-measure-equals-parent", "marked-cells-subdivided",
                     "conforming-facets", "no-hanging-nodes", "subdomains-cover-same-regions",
                     "boundaries-dropped-or-identical", "marked-order-independent", "second-order-nodes-on-edges",
                     "adaptive-theta-definition"]
REQUIRED_REACH = ["tri-template-red", "tri-template-blue1", "tri-template-blue2", "tri-template-green",
                  "tri-closure-propagated-depth>=2", "tet-worklist-rounds>=2", "tet-worklist-rounds>=3",
                  "exhaustive-level1-subsets", "exhaustive-level2-subsets", "exact-mode-steps",
                  "tolerance-mode-steps", "history-steps>=8", "history-mixed-adaptive-uniform",
                  "uniform-step-in-history", "line-adaptive-steps", "second-order-adaptive-steps",
                  "parent-reused-after-adaptive", "empty-marked-set-in-every-container"]
REQUIRED_REACH += ["marked-container:" + f for f in ("tuple", "tuple-of-numpy-scalars", "column-2d", "int16", "uint8",
                                                      "range", "nonzero-of-read-only-mask",
                                                      "own-subdomain-array-object")]
REQUIRED_REACH += ["theta-input-form:" + f for f in ("list", "float32", "column-2d", "int64", "read-only")]
REQUIRED_REACH += ["theta-estimator-from-Functional.elemental", "theta-output-refined:column-2d"]
REQUIRED_REACH += ["parent-scaled-2^-30", "parent-shifted-2^>=20"]
REQUIRED_REACH += ["deep-history-steps>=25", "deep-history-smallest-cell<=2^-20h:tri",
                   "deep-history-smallest-cell<=2^-20h:line", "deep-history-smallest-cell<=2^-10h:tet"]
REQUIRED_REACH += ["unsorted-triangle-parent:adaptive", "unsorted-triangle-parent:uniform",
                   "parent-with-unsorted-cells:permuted", "parent-with-unsorted-cells:oriented"]
REQUIRED_REACH += [f"unused-{w}-vertex:{h}:{c}" for w in ("trailing", "interior") for h in ("adaptive", "uniform")
                   for c in ("MeshLine1", "MeshTri1", "MeshTet1")]
ASSUMPTIONS = [
    "input meshes are conforming, non-degenerate and straight-sided (generators; quality floor 2^-10, except the deliberately thin 'needle' tetrahedra)",
    "marked sets are sets of valid cell indices, passed as integer ndarray (any integer dtype, 1-D or one column), "
    "list, tuple or range, in any order, possibly listing a cell twice; boolean masks, floats, sets and a bare "
    "NumPy scalar are not judged",
    "exact mode: the parent's coordinates, in units of their own coarsest power-of-two grid, are below 2^52 (any scale, "
    "any offset), so the midpoints a correct library computes are exact doubles; otherwise tolerance 1e-12*h + "
    "16 ulp(max|x|) (steps counted under reach tolerance-mode-steps)",
    "REPORT_ONLY lists mechanisms of library defects found by the 'scales' workload and reported, not yet decided: "
    "MeshTet1 adaptive steps on parents where the library's absolute 1e-10 tie-break noise is rounded away "
    "(|x| >= 2^16) or dominant (edges <= 1.6e-6) that end in the library's duplicate-point assertion, in a closure "
    "of more than TET_MAX_ROUNDS rounds, or (rounded away + exactly tied longest edges) in a non-conforming child "
    "are counted under reach 'report-only:*' instead of failing the run",
    "adaptive_theta is judged on finite non-negative estimators with a positive entry, given as float64/float32/"
    "integer ndarray (1-D or one column), read-only view, or (max=None only) Python list / tuple; theta in [0, 1] "
    "as float or int; max >= 0; entries within 4 ulp (of the estimator's dtype) of theta*max may fall on either side; "
    "NaN, negative and empty estimators are not judged",
    "named boundaries are not mentioned by the statement; they are judged as part of 'valid mesh': either dropped "
    "with the logged warning or designating exactly the child facets inside the tagged parent facets",
    "reach points for templates / worklist rounds are read by harness-side wrappers on "
    "MeshTri1._adaptive_split_elements and MeshTet1._adaptive_sort_mesh (evidence only, never an oracle)",
]

OBS = {"tet_rounds": 0, "tri": None, "nt0": 1, "regime": 0}

# Genuine library defects found by a strengthened workload, reported to the maintainers of the harness but not yet
# decided (fix or known finding): witnesses of exactly these mechanisms are counted (reach 'report-only:<mech>',
# tolerated['valid-mesh']) instead of failing the run.  Everything else stays a violation.
REPORT_ONLY = set()      # (the defects it held were repaired in the library: cd67d70, d8cb789)
# worklist rounds of ONE MeshTet1._adaptive call / its cell buffer relative to the initial 8 nt, (at regular scale,
# in the regimes of tet_noise_regime).  Observed on successful calls: <= 49 rounds (deep graded histories), cells
# after / before < 16; runaways in the regimes: 110-170 rounds before they end in garbage or in the assertion.
TET_MAX_ROUNDS = (400, 100)
TET_MAX_GROWTH = (2048, 128)


class ClosureRunaway(Exception):
    """Raised by the harness-side wrapper of MeshTet1._adaptive_sort_mesh when one adaptive call has gone
    through more than TET_MAX_ROUNDS worklist rounds or holds more than TET_MAX_GROWTH times its initial cell buffer:
    the explicit predicate for 'the conformity closure does not terminate'."""


# ------------------------------------------------------------------ attachment
def setup(ctx):
    """Harness-side wrappers used only for reach evidence (which split templates ran, how many
    worklist rounds).  They call the original unchanged."""
    from skfem.mesh.mesh_tri_1 import MeshTri1
    from skfem.mesh.mesh_tet_1 import MeshTet1
    if getattr(MeshTri1, "_rv_c13_attached", False):
        return
    try:
        orig_split = MeshTri1.__dict__["_adaptive_split_elements"].__func__

        def split(m, facets, subdomains):
            try:
                ix = np.where(np.asarray(facets) == 1, 1, -1)[m.t2f]
                OBS["tri"] = {
                    "red": int(((ix[0] >= 0) & (ix[1] >= 0) & (ix[2] >= 0)).sum()),
                    "blue1": int(((ix[0] < 0) & (ix[1] >= 0) & (ix[2] >= 0)).sum()),
                    "blue2": int(((ix[0] >= 0) & (ix[1] < 0) & (ix[2] >= 0)).sum()),
                    "green": int(((ix[0] < 0) & (ix[1] < 0) & (ix[2] >= 0)).sum())}
            except Exception:
                OBS["tri"] = None
            return orig_split(m, facets, subdomains)
        MeshTri1._adaptive_split_elements = staticmethod(split)
    except (KeyError, AttributeError):
        ctx.notes["missing_attachment:MeshTri1._adaptive_split_elements"] = True
    try:
        orig_sort = MeshTet1.__dict__["_adaptive_sort_mesh"]

        def sort_mesh(self, p, t, marked):
            OBS["tet_rounds"] += 1
            if (OBS["tet_rounds"] > TET_MAX_ROUNDS[OBS["regime"]]
                    or t.shape[1] > TET_MAX_GROWTH[OBS["regime"]] * 8 * OBS["nt0"]):
                raise ClosureRunaway("rounds=%d buffer_cells=%d parent_cells=%d"
                                     % (OBS["tet_rounds"], t.shape[1], OBS["nt0"]))
            return orig_sort(self, p, t, marked)
        MeshTet1._adaptive_sort_mesh = sort_mesh
    except (KeyError, AttributeError):
        ctx.notes["missing_attachment:MeshTet1._adaptive_sort_mesh"] = True
    MeshTri1._rv_c13_attached = True


class _Capture(logging.Handler):
    def __init__(self):
        super().__init__(level=logging.WARNING)
        self.records = []

    def emit(self, record):
        self.records.append(record.getMessage())


def call_refined(mesh, arg):
    """mesh.refined(arg) with the library's warnings captured (rv.cli silences the skfem logger)."""
    lg = logging.getLogger("skfem.mesh.mesh")
    h = _Capture()
    old_level, old_prop = lg.level, lg.propagate
    lg.addHandler(h)
    lg.setLevel(logging.WARNING)
    lg.propagate = False
    OBS["tet_rounds"] = 0
    OBS["tri"] = None
    OBS["nt0"] = max(1, int(mesh.t.shape[1]))
    OBS["regime"] = int(tet_noise_regime(mesh) is not None)
    try:
        child = mesh.refined(arg)
    finally:
        lg.removeHandler(h)
        lg.setLevel(old_level)
        lg.propagate = old_prop
    return child, h.records


# -------------------------------------------------------------------- snapshots
def nverts(mesh):
    return int(mesh.p.shape[1]) if G.order_of(mesh) == 1 else int(np.max(mesh.t)) + 1


class Snap:
    """Copy of everything the oracle needs from the parent, taken before the call."""

    def __init__(self, mesh):
        self.cls = type(mesh).__name__
        self.order = G.order_of(mesh)
        nv = nverts(mesh)
        self.P = np.array(mesh.p[:, :nv], dtype=float, copy=True)
        self.t = np.array(mesh.t[:mesh.elem.refdom.nnodes], dtype=np.int64, copy=True)
        self.sub = None if mesh.subdomains is None else {k: np.array(v, copy=True) for k, v in mesh.subdomains.items()}
        self.bnd = None if mesh.boundaries is None else {k: np.array(v, copy=True) for k, v in mesh.boundaries.items()}
        self.facets = np.array(mesh.facets, copy=True) if self.bnd else None
        self.d = self.P.shape[0]
        # PITFALL: Mesh.is_valid() is False for every MeshTri2/MeshTet2 (it compares all of doflocs, edge
        # nodes included, with t, which lists vertices only); so it is demanded of the child only when
        # the parent passes it.
        self.lib_valid = bool(mesh.is_valid())
        used = np.zeros(nv, dtype=bool)
        used[self.t.ravel()] = True
        self.all_used = bool(used.all())
        self.noise_regime = tet_noise_regime(mesh)
        # cells the class did not sort (MeshTri1 sorts unless sort_t=False; the other classes never sort)
        self.unsorted = bool(self.cls == "MeshTri1" and not getattr(mesh, "sort_t", True)
                             and (np.diff(self.t, axis=0) < 0).any())
        # where the vertices no cell uses sit: after all used ones ("trailing": max(t) + 1 < number of points) and /
        # or between them ("interior")
        un = np.nonzero(~used)[0]
        self.unused_where = ([] if not un.size else
                             (["trailing"] if un.max() > self.t.max() else []) +
                             (["interior"] if un.min() < self.t.max() else []))


def facet_dict(t):
    fd = {}
    n = t.shape[0]
    for c, col in enumerate(t.T.tolist()):
        for i in range(n):
            fd.setdefault(tuple(sorted(col[:i] + col[i + 1:])), []).append(c)
    return fd


def marked_class(nm, nt):
    if nm == 0:
        return "empty"
    if nm == nt:
        return "all"
    if nm == 1:
        return "one"
    if nm == nt - 1:
        return "all-but-one"
    return "few" if 4 * nm <= nt else "many"


# ----------------------------------------------------------------------- oracle
def gated(ctx, monitor, cond, mech, hit, **detail):
    """ctx.check, except that a failure whose mechanism is listed in REPORT_ONLY is counted instead of recorded
    (`hit` collects the mechanisms so that the caller can stop a history there)."""
    if not cond:
        m = mech() if callable(mech) else mech
        if m in REPORT_ONLY:
            ctx.ok(monitor)
            ctx.tolerated(monitor)
            ctx.reached("report-only:" + m)
            ctx.notes.setdefault("report_only:" + m, {"case": repr(detail.get("case"))[:600],
                                                      "marked": repr(detail.get("marked"))[:200]})
            hit.append(m)
            return False
        mech = m
    return ctx.check(monitor, cond, mech=mech, **detail)


def tied_longest_edges(X, t):
    """Cells (columns of t) whose two longest edges have exactly the same length (X: integer or float coords)."""
    import itertools
    L = [((X[:, t[i]] - X[:, t[j]]) ** 2).sum(axis=0) for i, j in itertools.combinations(range(t.shape[0]), 2)]
    L = np.sort(np.stack(L), axis=0)
    return np.nonzero(np.asarray(L[-1] == L[-2], dtype=bool))[0]


def check_step(ctx, par: Snap, child, marked, records, desc, step=0, light=False):
    """Evaluate every clause for one step.  `marked` = sorted unique int array, or None for a uniform
    step.  Returns the StepOracle (or None when the child cannot be analysed / continued)."""
    cls = par.cls
    how = "uniform" if marked is None else "adaptive"
    d = par.d

    def mech(clause):
        return f"{clause}:{how}:{cls}"

    report_only_hit = []
    tet_rounds = OBS["tet_rounds"]

    def geom_mech(clause):
        # a closure that did end by itself, but only after bisecting down towards the rounding level of the
        # coordinates (inexact midpoints: degenerate / misplaced cells), in the regimes of tet_noise_regime
        if marked is not None and cls in ("MeshTet1", "MeshTet2") and par.noise_regime and tet_rounds > 50:
            return "tet-adaptive-tie-break-noise-is-absolute-1e-10:closure-runaway"
        return mech(clause)

    def conformity_mech(clause):
        # the one recorded way in which correct single bisections add up to a non-conforming mesh: neighbours
        # bisecting different ones of several exactly equally long edges, in the regime where the library's
        # absolute tie-break noise is not visible in the coordinates (all other clauses of this step are judged
        # as everywhere else)
        if (marked is not None and cls in ("MeshTet1", "MeshTet2") and par.noise_regime == "rounded-away"
                and (tied_longest_edges(orc.Xp, par.t).size or tied_longest_edges(orc.Xc, tc).size)):
            return "tet-adaptive-tie-break-noise-is-absolute-1e-10:non-conforming-child"
        return mech(clause)

    ctx.check("valid-mesh", type(child).__name__ == cls, mech=mech("class-changed"), case=desc,
              got=type(child).__name__)
    # ---- arrays
    nvl = child.elem.refdom.nnodes
    tc_raw = np.asarray(child.t)
    pc_raw = np.asarray(child.p)
    ok_shape = (tc_raw.ndim == 2 and tc_raw.shape[0] == nvl == d + 1 and pc_raw.ndim == 2 and pc_raw.shape[0] == d
                and np.issubdtype(tc_raw.dtype, np.integer) and tc_raw.shape[1] >= 1)
    if not ctx.check("valid-mesh", ok_shape, mech=mech("array-shapes"), case=desc, t=tc_raw.shape, p=pc_raw.shape,
                     dtype=str(tc_raw.dtype)):
        return None
    nvc = nverts(child)
    tc = tc_raw.astype(np.int64)
    Pc = np.array(pc_raw[:, :nvc], dtype=float)
    in_range = tc.min() >= 0 and tc.max() < pc_raw.shape[1] and np.isfinite(pc_raw).all()
    if not ctx.check("valid-mesh", in_range, mech=mech("indices-out-of-range"), case=desc):
        return None
    used = np.zeros(nvc, dtype=bool)
    used[tc.ravel()] = True
    if par.all_used:
        ctx.check("valid-mesh", used.all(), mech=mech("unused-vertex"), case=desc,
                  unused=lambda: np.nonzero(~used)[0][:8])
    else:
        # PITFALL: Mesh.load of a mixed file (docs/examples/meshes/mixedtriquad.msh) yields a MeshTri1 that
        # keeps the quadrilaterals' vertices: the parent already has unused vertices, the child inherits them.
        # Only vertices the step itself created and left unused are judged.
        ctx.drop("parent-has-unused-vertices")
        fresh = np.nonzero(~used[par.P.shape[1]:])[0] + par.P.shape[1]
        ctx.check("valid-mesh", fresh.size == 0, mech=mech("new-unused-vertex"), case=desc, unused=lambda: fresh[:8])
        for where in par.unused_where:
            ctx.reached(f"unused-{where}-vertex:{how}:{cls}")
    if par.lib_valid:
        gated(ctx, "valid-mesh", bool(child.is_valid()), lambda: geom_mech("is_valid-false"), report_only_hit,
              case=desc, marked=marked)

    nvp = par.P.shape[1]
    ctx.check("old-vertices-keep-indices",
              Pc.shape[1] >= nvp and np.array_equal(Pc[:, :nvp], par.P),
              mech=mech("old-vertices"), case=desc, nv_parent=nvp, nv_child=Pc.shape[1])

    orc = R.StepOracle(par.P, par.t, Pc, tc)
    ctx.reached("exact-mode-steps" if orc.exact else "tolerance-mode-steps")
    dup = orc.duplicate_vertices()
    gated(ctx, "no-duplicate-vertices", not dup, lambda: geom_mech("duplicate-vertices"), report_only_hit,
          case=desc, marked=marked, pairs=dup[:5])
    deg = orc.degenerate_children()
    ok_deg = gated(ctx, "no-degenerate-cells", deg.size == 0, lambda: geom_mech("degenerate-cell"), report_only_hit,
                   case=desc, marked=marked, cells=lambda: deg[:8], verts=lambda: tc[:, deg[:3]])

    parent = orc.locate()
    lost = np.nonzero(parent < 0)[0]
    if not gated(ctx, "child-inside-one-parent", lost.size == 0, lambda: geom_mech("child-not-inside-a-parent"),
                 report_only_hit, case=desc, marked=marked, cells=lambda: lost[:8],
                 coords=lambda: Pc[:, tc[:, lost[0]]].T, exact=orc.exact):
        return None
    if not ok_deg:
        return None
    bad = orc.measure_defects()
    ok_meas = gated(ctx, "children-measure-equals-parent", bad.size == 0, lambda: geom_mech("measure"),
                    report_only_hit, case=desc, marked=marked, parents=lambda: bad[:8],
                        children_total=lambda: [str(orc.children_total[b]) for b in bad[:4]],
                        parent_measure=lambda: [str(orc.absdetp[b]) for b in bad[:4]])
    nchild = np.bincount(parent, minlength=orc.ntp)

    # ---- marked cells subdivided
    child_sets = None
    if marked is not None:
        if marked.size:
            child_sets = {frozenset(col) for col in tc.T.tolist()}
            still = [int(K) for K in marked.tolist() if frozenset(par.t[:, K].tolist()) in child_sets]
            few = marked[nchild[marked] < 2]
            ctx.check("marked-cells-subdivided", not still and few.size == 0, mech=mech("marked-not-subdivided"),
                      case=desc, marked=marked, still_present=still[:8], children=lambda: nchild[marked][:16])
        else:
            # empty marked set: nothing may be required beyond the generic clauses
            ctx.check("marked-cells-subdivided", True)
    else:
        ctx.check("marked-cells-subdivided", bool((nchild >= 2).all()), mech=mech("uniform-cell-not-subdivided"),
                  case=desc, parents=lambda: np.nonzero(nchild < 2)[0][:8])

    # ---- conformity
    fc = orc.child_facets()
    pfm = orc.facet_parent_slots()
    pfd = facet_dict(par.t)
    problems = []
    bsum = {}
    bcnt = {}
    for key, inc in fc.items():
        if len(inc) > 2:
            problems.append(("facet-with-more-than-two-cells", key, len(inc)))
        elif len(inc) == 2:
            (c1, i1), (c2, i2) = inc
            if not orc.opposite_sides(key, int(tc[i1, c1]), int(tc[i2, c2])):
                problems.append(("cells-on-same-side-of-shared-facet", key, (c1, c2)))
            k1, k2 = orc.parent_facet_key(c1, i1), orc.parent_facet_key(c2, i2)
            if parent[c1] != parent[c2] and (k1 is None or k1 != k2):
                problems.append(("shared-facet-on-different-parent-facets", key, (k1, k2)))
        else:
            c, i = inc[0]
            pk = orc.parent_facet_key(c, i)
            if pk is None:
                problems.append(("single-cell-facet-inside-a-parent-cell", key, int(parent[c])))
            elif len(pfd[pk]) != 1:
                problems.append(("single-cell-facet-on-interior-parent-facet", key, pk))
            else:
                r = orc.facet_ratio_num(c, i, int(pfm[c, i]))
                bsum[pk] = bsum.get(pk, 0) + r
                bcnt[pk] = bcnt.get(pk, 0) + 1
        if len(problems) > 6:
            break
    if not problems:
        for pk, cells in pfd.items():
            if len(cells) != 1:
                continue
            K = cells[0]
            full = orc.absdetp[K] ** d
            got = bsum.get(pk, 0)
            if orc.exact:
                okb = got == full
            else:
                # every barycentric numerator carries the rounding of the stored coordinates (vol_tol: the new points
                # of a mesh far from the origin are the nearest doubles of the midpoints); a facet piece that is really
                # missing is off by a fraction 2^-k of the facet, never by rounding
                rel = max(1e-9, 16.0 * d * (bcnt.get(pk, 0) + 1) * float(orc.vol_tol(K)) / float(full ** (1.0 / d) if d > 1 else full))
                if rel > 1e-3:
                    ctx.drop("boundary-facet-coverage-below-coordinate-resolution")
                    continue
                okb = abs(float(got) - float(full)) <= rel * float(full)
            if not okb:
                problems.append(("parent-boundary-facet-not-covered-exactly", pk, str(got), str(full)))
                if len(problems) > 4:
                    break
    gated(ctx, "conforming-facets", not problems, lambda: conformity_mech(problems[0][0]), report_only_hit,
          case=desc, marked=marked, problems=lambda: problems[:5], exact=orc.exact)

    # ---- hanging nodes
    if light and orc.ntc > 6000:
        ctx.drop("hanging-node-scan-skipped-large-mesh")
    else:
        hang = orc.vertices_inside_edges()
        gated(ctx, "no-hanging-nodes", not hang, lambda: conformity_mech("hanging-node"), report_only_hit,
              case=desc, marked=marked, pairs=lambda: hang[:6])

    # ---- subdomains
    nowarn_sub = not any("subdomains invalidated" in r for r in records)
    if par.sub is not None:
        csub = child.subdomains
        if csub is None:
            ctx.check("subdomains-cover-same-regions", False,
                      mech=f"subdomains-dropped-{'silently' if nowarn_sub else 'with-warning'}:{how}:{cls}",
                      case=desc, names=sorted(par.sub), warnings=records)
        else:
            for name, pix in par.sub.items():
                pset = set(int(i) for i in np.asarray(pix).ravel().tolist())
                if pset and (min(pset) < 0 or max(pset) >= orc.ntp):
                    # PITFALL: the gmsh reader stores metadata such as 'gmsh:bounding_entities' = [-2, 3] in
                    # the subdomain dictionary; an array that is not a set of cell indices of the parent is not
                    # a named subdomain in the sense of the statement.
                    ctx.drop("parent-subdomain-entry-is-not-a-cell-index-set")
                    continue
                expected = set(np.nonzero(np.isin(parent, list(pset)))[0].tolist())
                if name not in csub:
                    ctx.check("subdomains-cover-same-regions", False, mech=mech("subdomain-name-lost"), case=desc,
                              name=name)
                    continue
                cix = np.asarray(csub[name])
                got = set(int(i) for i in cix.ravel().tolist())

                def sub_mech(cix=cix, pix=pix, got=got, pset=pset):
                    if marked is not None and cix.shape == np.asarray(pix).shape and np.array_equal(cix, pix):
                        return f"adaptive-returns-parent-subdomain-indices-unchanged:{cls}"
                    if marked is None:
                        blocked = {k + j * orc.ntp for k in pset for j in range(orc.ntc // orc.ntp)}
                        if got == blocked:
                            return f"uniform-generic-subdomain-map-assumes-blocked-children:{cls}"
                    return mech("subdomain-region-changed")
                okr = (np.issubdtype(cix.dtype, np.integer) and
                       (not got or (min(got) >= 0 and max(got) < orc.ntc)))
                ctx.check("subdomains-cover-same-regions", okr and got == expected, mech=sub_mech, case=desc,
                          name=name, marked=marked, parent_cells=sorted(pset)[:24], got=sorted(got)[:32],
                          expected=sorted(expected)[:32], missing=sorted(expected - got)[:12],
                          extra=sorted(got - expected)[:12], ncells_child=orc.ntc)
                if 0 < len(pset) < orc.ntp and marked is not None and marked.size:
                    ctx.reached("subdomain-nontrivial-under-adaptive")

    # ---- boundaries
    if par.bnd is not None:
        cb = child.boundaries
        warned = any("boundaries invalidated" in r for r in records)
        if cb is None:
            ctx.check("boundaries-dropped-or-identical", warned, mech=mech("boundaries-dropped-without-warning"),
                      case=desc, warnings=records)
            ctx.reached("boundaries-dropped-with-warning")
        else:
            cfac = np.asarray(child.facets)
            nfc = cfac.shape[1]
            # child facet key -> parent facet key (None: inside a parent cell)
            f2pk = {key: orc.parent_facet_key(*inc[0]) for key, inc in fc.items()}
            for name, pix in par.bnd.items():
                pix = np.asarray(pix).ravel()
                if pix.size and (pix.min() < 0 or pix.max() >= par.facets.shape[1]):
                    ctx.drop("parent-boundary-entry-is-not-a-facet-index-set")
                    continue
                pkeys = {tuple(sorted(int(v) for v in par.facets[:, f])) for f in pix.tolist()
                         if 0 <= f < par.facets.shape[1]}
                expected = {key for key, pk in f2pk.items() if pk is not None and pk in pkeys}
                if name not in cb:
                    ctx.check("boundaries-dropped-or-identical", False, mech=mech("boundary-name-lost"), case=desc,
                              name=name)
                    continue
                cix = np.asarray(cb[name]).ravel()
                in_rng = cix.size == 0 or (cix.min() >= 0 and cix.max() < nfc)
                got = {tuple(sorted(int(v) for v in cfac[:, f])) for f in cix.tolist()} if in_rng else None

                def bnd_mech(cix=cix, pix=pix):
                    if marked is not None and cix.shape == pix.shape and np.array_equal(cix, pix):
                        return f"adaptive-returns-parent-boundary-indices-unchanged:{cls}"
                    return mech("boundary-facets-changed")
                ctx.check("boundaries-dropped-or-identical", in_rng and got == expected, mech=bnd_mech, case=desc,
                          name=name, marked=marked, parent_facets=pix[:16], child_facets=cix[:24],
                          n_expected=len(expected), n_got=None if got is None else len(got),
                          stray=lambda: sorted((got or set()) - expected)[:4],
                          stray_coords=lambda: [Pc[:, list(k)].T.tolist() for k in sorted((got or set()) - expected)[:2]])
                ctx.reached("boundaries-kept-and-checked")

    # ---- second order
    if par.order == 2:
        worst = R.second_order_nodes(child)
        ctx.check("second-order-nodes-on-edges", worst <= 1e-12, mech=mech("edge-node-off-midpoint"), case=desc,
                  worst_relative_offset=worst)
        ctx.reached("second-order-adaptive-steps" if marked is not None else "second-order-uniform-steps")

    # ---- evidence
    if par.unsorted:
        ctx.reached("unsorted-triangle-parent:" + how)
    if marked is not None:
        nm = int(marked.size)
        mc = marked_class(nm, orc.ntp)
        if 0 < nm < orc.ntp:
            ctx.nontrivial(cls, mc, step)
        if cls == "MeshLine1":
            ctx.reached("line-adaptive-steps")
        tri = OBS.get("tri")
        if tri and cls in ("MeshTri1", "MeshTri2"):
            for k, v in tri.items():
                if v:
                    ctx.reached("tri-template-" + k)
        if cls in ("MeshTet1", "MeshTet2"):
            if OBS["tet_rounds"] >= 2:
                ctx.reached("tet-worklist-rounds>=2")
            if OBS["tet_rounds"] >= 3:
                ctx.reached("tet-worklist-rounds>=3")
        if nm and ok_meas and d >= 2:
            depth = closure_depth(par.t, pfd, marked, nchild)
            if depth >= 2:
                ctx.reached(("tri" if d == 2 else "tet") + "-closure-propagated-depth>=2")
            if depth >= 4:
                ctx.reached(("tri" if d == 2 else "tet") + "-closure-propagated-depth>=4")
    orc.nchild = nchild
    if report_only_hit:
        return None          # the child is not a mesh the next step of a history could start from
    return orc


def closure_depth(tp, pfd, marked, nchild):
    """Largest facet-adjacency distance from the marked set to a parent cell that was subdivided
    (observed from the result; each closure pass can advance by one layer only)."""
    ntp = tp.shape[1]
    adj = [[] for _ in range(ntp)]
    for cells in pfd.values():
        if len(cells) == 2:
            adj[cells[0]].append(cells[1])
            adj[cells[1]].append(cells[0])
    dist = -np.ones(ntp, dtype=int)
    dist[marked] = 0
    front = list(marked.tolist())
    while front:
        nxt = []
        for c in front:
            for n in adj[c]:
                if dist[n] < 0 and nchild[n] >= 2:      # walk through subdivided cells only
                    dist[n] = dist[c] + 1
                    nxt.append(n)
        front = nxt
    return int(dist.max()) if dist.size else 0


# ------------------------------------------------------------- canonical forms
def canon_cells(mesh):
    nv = nverts(mesh)
    P = mesh.p[:, :nv]
    cols = [tuple(map(float, P[:, v])) for v in range(nv)]
    return [tuple(sorted(cols[v] for v in col)) for col in np.asarray(mesh.t).T.tolist()]


def canon(mesh):
    cells = canon_cells(mesh)
    subs = None
    if mesh.subdomains is not None:
        subs = {k: sorted(cells[i] for i in set(np.asarray(v).ravel().tolist()) if 0 <= i < len(cells))
                for k, v in mesh.subdomains.items()}
    return sorted(cells), subs


NFORMS = 16


def marked_variant(rng, marked, which=None, nt=None):
    """The same set in another order / container / dtype.  `nt` (number of cells) enables the forms that need it."""
    m = np.array(marked, dtype=np.int64)
    m = m[rng.permutation(m.size)]
    which = int(rng.integers(0, NFORMS)) if which is None else which
    if which == 9:
        return tuple(int(i) for i in m), "tuple"
    if which == 10:
        return tuple(np.int32(i) for i in m), "tuple-of-numpy-scalars"
    if which == 11:
        return m.reshape(-1, 1), "column-2d"
    if which == 12:
        top = int(m.max()) if m.size else 0
        dt = np.int16 if top < 2 ** 15 else np.int32
        return m.astype(dt), np.dtype(dt).name
    if which == 13:
        top = int(m.max()) if m.size else 0
        dt = np.uint8 if top < 2 ** 8 else (np.uint16 if top < 2 ** 16 else np.uint64)
        return m.astype(dt), np.dtype(dt).name
    if which == 14:
        srt = np.sort(m)
        steps = np.unique(np.diff(srt))
        if srt.size == 0:
            return range(0), "range"
        if srt.size == 1:
            return range(int(srt[0]), int(srt[0]) + 1), "range"
        if steps.size == 1:
            r = range(int(srt[0]), int(srt[-1]) + 1, int(steps[0]))
            return (r if rng.random() < 0.5 else r[::-1]), "range"
        return [np.int64(i) for i in m], "list-of-numpy-scalars"
    if which == 15:
        if nt is None:
            return np.sort(m).astype(np.int64), "sorted-int64"
        mask = np.zeros(nt, dtype=bool)
        mask[m] = True
        mask.setflags(write=False)
        return np.nonzero(mask[:])[0], "nonzero-of-read-only-mask"
    if which >= 7 and m.size:
        # the same *set* with some cells listed more than once (e.g. f2t[0, facets] of several facets of one cell)
        rep = np.concatenate([m, m[rng.integers(0, m.size, size=int(rng.integers(1, m.size + 2)))]])
        rep = rep[rng.permutation(rep.size)]
        return (rep if which == 7 else [int(i) for i in rep]), ("ndarray-with-repeats" if which == 7 else "list-with-repeats")
    if which == 0:
        return m.astype(np.int32), "int32-permuted"
    if which == 1:
        return [int(i) for i in m], "list-permuted"
    if which == 2:
        big = np.zeros(2 * m.size, dtype=np.int64)
        big[::2] = m
        return big[::2], "strided-view"
    if which == 3:
        r = m.copy()
        r.setflags(write=False)
        return r, "read-only"
    if which == 4:
        return m.astype(np.uint32), "uint32"
    if which == 5:
        return np.asfortranarray(m[::-1].copy()), "reversed"
    return np.sort(m)[::-1].astype(np.intp), "descending-intp"


def check_order_independence(ctx, mesh, marked, child, rng, desc):
    alt, form = marked_variant(rng, marked, nt=int(mesh.t.shape[1]))
    child2, _ = call_refined(mesh, alt)
    c1, s1 = canon(child)
    c2, s2 = canon(child2)
    ctx.check("marked-order-independent", c1 == c2, mech=f"order-dependent-cells:{type(mesh).__name__}", case=desc,
              marked=marked, form=form, ncells=(len(c1), len(c2)))
    if s1 is not None or s2 is not None:
        def mech():
            # the recorded stale-tag mechanism also shows up here: unchanged parent index arrays designate
            # different cells when the children are laid out in another order
            a, b, c = mesh.subdomains, child.subdomains, child2.subdomains
            if a and b and c and all(k in b and k in c and np.array_equal(a[k], b[k]) and np.array_equal(a[k], c[k])
                                     for k in a):
                return f"adaptive-returns-parent-subdomain-indices-unchanged:{type(mesh).__name__}"
            return f"order-dependent-subdomains:{type(mesh).__name__}"
        ctx.check("marked-order-independent", s1 == s2, mech=mech, case=desc, marked=marked, form=form)


# ------------------------------------------------------------------------ tags
def subset(rng, n, lo=1, hi=None):
    hi = n if hi is None else hi
    if n <= 0 or hi < lo:
        return np.zeros(0, dtype=np.int64)
    k = int(rng.integers(lo, hi + 1))
    return np.sort(rng.choice(n, size=k, replace=False)).astype(np.int64)


def with_tags(rng, m, sub=True, bnd=True):
    """Random named subdomains / boundaries (index arrays; int32/int64; one unsorted; empty and full sets;
    interior facets; an oriented boundary)."""
    nt = m.t.shape[1]
    if sub:
        subs = {"S": subset(rng, nt, 1, max(1, nt - 1)).astype(np.int32),
                "T": rng.permutation(subset(rng, nt, 1, nt))}
        if rng.random() < 0.3:
            subs["none"] = np.zeros(0, dtype=np.int32)
        if rng.random() < 0.3:
            subs["all"] = np.arange(nt, dtype=np.int32)
        m = m.with_subdomains(subs)
    if bnd:
        bf = np.asarray(m.boundary_facets())
        nf = m.facets.shape[1]
        bnds = {"B": bf[subset(rng, bf.size, 1, bf.size)].astype(np.int32),
                "I": subset(rng, nf, 1, nf)}
        if sub and m.dim() > 1 and rng.random() < 0.4:
            bnds["O"] = m.facets_around(m.subdomains["S"])
        m = m.with_boundaries(bnds)
    return m


# ---------------------------------- parents with unused vertices / unsorted cells
# set by the families `unused-vertex` / `unsorted-tri` around a run of another family's case
VARIANT = {"unused": None, "unsorted": None, "affine": None}


def add_unused_vertex(rng, mesh, where):
    """The same first-order mesh with ONE more point that no cell refers to: "trailing" = after all others
    (max(t) + 1 < number of points), "interior" = at a random position before the last used vertex (cells
    renumbered).  The point lies outside the bounding box (dyadic if the mesh is), so that no vertex a bisection
    creates can coincide with it."""
    p = np.asarray(mesh.p, dtype=float)
    t = np.asarray(mesh.t).astype(np.int64)
    d, nv = p.shape
    lo, hi = p.min(axis=1), p.max(axis=1)
    ext = float((hi - lo).max())
    x = hi + ext * np.array([1.0, 0.5, 0.25])[:d]
    if where == "trailing":
        p2, t2 = np.hstack((p, x[:, None])), t
    else:
        j = int(rng.integers(0, nv))
        p2 = np.hstack((p[:, :j], x[:, None], p[:, j:]))
        t2 = t + (t >= j)
    kw = {"sort_t": False} if (type(mesh).__name__ == "MeshTri1" and not mesh.sort_t) else {}
    return type(mesh)(p2, t2, **kw)


def unsorted_triangles(rng, mesh, how):
    """MeshTri1 whose cells keep the local vertex order given (sort_t=False: what loaded meshes, oriented() and
    from_mesh results look like): "permuted" = an independent random permutation per cell, "oriented" = the
    library's own oriented().  Returns None when the constructor did not keep the order."""
    p = np.asarray(mesh.p, dtype=float)
    t = np.asarray(mesh.t).astype(np.int64).copy()
    if how == "oriented":
        m = mesh.oriented()
        return m if (not m.sort_t and (np.diff(np.asarray(m.t), axis=0) < 0).any()) else None
    for c in range(t.shape[1]):
        t[:, c] = t[rng.permutation(3), c]
    if not (np.diff(t, axis=0) < 0).any():
        t[:2, 0] = t[:2, 0][::-1]
    m = type(mesh)(p, t, sort_t=False)
    return m if np.array_equal(np.asarray(m.t), t) else None


def variant(ctx, rng, mesh):
    """Hook of every first-order family: identity unless the case runs inside one of the variant families.
    Returns (mesh, suffix for the description)."""
    out = ""
    if G.order_of(mesh) != 1:
        return mesh, out
    if VARIANT["unsorted"] and type(mesh).__name__ == "MeshTri1":
        m = unsorted_triangles(rng, mesh, VARIANT["unsorted"])
        if m is None:
            ctx.drop("unsorted-variant-not-applicable")      # e.g. oriented() of a mesh whose sorted cells are all CCW
        else:
            mesh = m
            out += "-unsorted-" + VARIANT["unsorted"]
            ctx.reached("parent-with-unsorted-cells:" + VARIANT["unsorted"])
    if VARIANT["affine"]:
        e, q = VARIANT["affine"]
        p = np.asarray(mesh.p, dtype=float) * 2.0 ** e
        if q is not None:
            p = p + rng.choice([-1.0, 1.0], size=(p.shape[0], 1)) * 2.0 ** q
        kw = {"sort_t": False} if (type(mesh).__name__ == "MeshTri1" and not mesh.sort_t) else {}
        mesh = type(mesh)(p, np.asarray(mesh.t).astype(np.int64), **kw)
        out += "-scaled-2^%d" % e + ("" if q is None else "-shifted-2^%d" % q)
        ctx.reached("parent-scaled-2^%d" % e if q is None else "parent-shifted-2^>=20")
    if VARIANT["unused"]:
        mesh = add_unused_vertex(rng, mesh, VARIANT["unused"])
        out += "-unused-vertex-" + VARIANT["unused"]
        ctx.reached("parent-given-an-unused-vertex")
    return mesh, out


# ------------------------------------------------------------------ tiny meshes
def _mk(kind, p, t):
    return G.mesh_class(kind)(np.asarray(p, dtype=float), np.asarray(t, dtype=np.int64))


def tiny_tri(rng, i):
    import skfem
    M = skfem.MeshTri1
    if i == 0:
        return M.init_refdom(), "refdom-1"
    if i == 1:
        return M(), "unit-square-2"
    if i == 2:
        return M.init_symmetric(), "symmetric-4"
    if i == 3:
        return M.init_sqsymmetric(), "sqsymmetric-8"
    if i == 4:
        return M.init_lshaped(), "lshaped-6"
    if i == 5:
        return M().refined(1), "unit-square-refined-8"
    if i == 6:   # strip of anisotropic cells: longest edges form a chain, the closure runs along it
        return M.init_tensor(np.array([0., 1., 2., 3., 4.]), np.array([0., 0.375])), "strip-8"
    if i == 7:   # fan around an interior vertex, irregular radii
        px = np.array([1, .5, -.25, -1, -.75, .25, .75]) * 1.0
        py = np.array([0, .75, 1, .25, -.5, -1, -.5]) * 1.0
        p = np.vstack([np.concatenate([[0.], px]), np.concatenate([[0.], py])])
        t = np.array([[0, 1 + k, 1 + (k + 1) % 7] for k in range(7)]).T
        return M(p, t), "fan-7"
    if i == 8:   # graded strip: cell sizes 2^-k
        x = np.concatenate([[0.], np.cumsum(2.0 ** -np.arange(4))])
        return M.init_tensor(x, np.array([0., 1.])), "graded-strip-8"
    if i == 9:   # zigzag strip: every triangle has TWO equal longest edges, shared with its neighbours
        p = np.array([[0.5 * j for j in range(8)], [float(j % 2) for j in range(8)]])
        t = np.array([[j, j + 1, j + 2] for j in range(6)]).T
        return M(p, t), "zigzag-ties-6"
    # seeded random Delaunay with <= 8 cells
    for _ in range(50):
        p, t, desc = G.tri_mesh(rng, n=int(rng.integers(4, 8)), style=str(rng.choice(["random", "anisotropic", "jitter"])),
                                renum=False, holes=False, build=False)
        if 2 <= t.shape[1] <= 8:
            return M(p, t), "delaunay-%d" % t.shape[1]
    return M(), "unit-square-2"


def tiny_tet(rng, i):
    import skfem
    M = skfem.MeshTet1
    if i == 0:
        return M.init_refdom(), "refdom-1"
    if i == 1:
        p = np.array([[0., 0, 0], [1, 0, 0], [0, 1, 0], [0, 0, 1], [1, 1, 1]]).T
        return M(p, np.array([[0, 1, 2, 3], [1, 2, 3, 4]]).T), "two-tets-2"
    if i == 2:
        return M(), "unit-cube-5"
    if i == 3:
        return M.init_tensor(np.array([0., 1.]), np.array([0., .5]), np.array([0., 2.])), "tensor-brick-6"
    if i == 4:   # edge shared by four tetrahedra (ring): bisection of that edge hits all of them
        p = np.array([[0., 0, -1], [0, 0, 1], [1, 0, 0], [0, 1.25, 0], [-1.5, 0, 0], [0, -.75, 0]]).T
        t = np.array([[0, 1, 2, 3], [0, 1, 3, 4], [0, 1, 4, 5], [0, 1, 5, 2]]).T
        return M(p, t), "ring-4"
    if i == 5:
        return M.init_tensor(np.array([0., 1.]), np.array([0., 1.]), np.array([0., 1.])), "tensor-cube-6"
    if i == 6:   # three well-shaped cells (quality 0.05-0.14) found by random search: bisecting cell 1 needs 26 > 8*3 cells
        p = np.array([[0.1875, 0.3125, 0.375, 0.5, 0.6875],
                      [0.5625, 0.5, 0.9375, 0.8125, 0.25],
                      [0.8125, 0.8125, 0.6875, 0.9375, 0.]])
        t = np.array([[1, 2, 4, 0], [1, 3, 2, 0], [1, 3, 2, 4]]).T
        return M(p, t), "delaunay-deep-closure-3"
    # seeded random Delaunay meshes with <= 8 cells (5-7 points of a 2^-4 .. 2^-6 lattice, quality floor 2^-9)
    from scipy.spatial import Delaunay
    for _ in range(200):
        P = np.unique(G.dyadic(rng, (3, int(rng.integers(5, 8))), bits=int(rng.integers(4, 7))), axis=1)
        if P.shape[1] < 5:
            continue
        try:
            t = Delaunay(P.T).simplices.T.astype(np.int64)
        except Exception:
            continue
        t = G.quality_filter(P, t, 2.0 ** -9)
        if not 2 <= t.shape[1] <= 8:
            continue
        P2, t = G.clean(P, t)
        return M(P2, t), "delaunay-%d" % t.shape[1]
    return M(), "unit-cube-5"
    if i == 3:
        return M.init_tensor(np.array([0., 1.]), np.array([0., .5]), np.array([0., 2.])), "tensor-brick-6"
    if i == 4:   # edge shared by four tetrahedra (ring): bisection of that edge hits all of them
        p = np.array([[0., 0, -1], [0, 0, 1], [1, 0, 0], [0, 1.25, 0], [-1.5, 0, 0], [0, -.75, 0]]).T
        t = np.array([[0, 1, 2, 3], [0, 1, 3, 4], [0, 1, 4, 5], [0, 1, 5, 2]]).T
        return M(p, t), "ring-4"
    if i == 5:
        return M.init_tensor(np.array([0., 1.]), np.array([0., 1.]), np.array([0., 1.])), "tensor-cube-6"
    for _ in range(80):
        p, t, desc = G.tet_mesh(rng, style="random", renum=False, holes=False, build=False)
        if 2 <= t.shape[1] <= 8:
            return M(p, t), "delaunay-%d" % t.shape[1]
    from scipy.spatial import Delaunay
    for _ in range(80):
        P = np.unique(G.dyadic(rng, (3, int(rng.integers(5, 7))), bits=5), axis=1)
        if P.shape[1] < 5:
            continue
        try:
            t = Delaunay(P.T).simplices.T.astype(np.int64)
        except Exception:
            continue
        t = G.quality_filter(P, t, 2.0 ** -9)
        P2, t = G.clean(P, t)
        if 2 <= t.shape[1] <= 8:
            return M(P2, t), "delaunay-%d" % t.shape[1]
    return M(), "unit-cube-5"


def tiny_line(rng, i):
    import skfem
    M = skfem.MeshLine1
    ML = skfem.MeshLine          # constructor that builds consecutive cells from a point list
    if i == 0:
        return M(), "unit-1"
    if i == 1:
        return ML(np.linspace(0, 1, 5)), "uniform-4"
    if i == 2:
        return ML(np.array([0., .5, 1., 2., 4., 4.125, 6., 8., 8.5])), "graded-8"
    if i == 3:   # reversed cells, unsorted vertices
        p = np.array([[1., 0., .25, .75, 2.]])
        t = np.array([[1, 2], [3, 2], [3, 0], [4, 0]]).T
        return M(p, t), "reversed-unsorted-4"
    if i == 4:   # two components
        p = np.array([[0., 1., 2., 3., 4., 5.]])
        t = np.array([[0, 1], [1, 2], [3, 4], [4, 5]]).T
        return M(p, t), "two-components-4"
    for _ in range(50):
        mc = G.line_mesh(rng, n=int(rng.integers(2, 8)))
        if mc.mesh.t.shape[1] <= 8:
            return mc.mesh, "gen-%s-%d" % (mc.desc["style"], mc.mesh.t.shape[1])
    return ML(np.linspace(0, 1, 5)), "uniform-4"


TINY = {"tri": (tiny_tri, 10), "tet": (tiny_tet, 7), "line": (tiny_line, 5)}
NRANDOM_TINY = {"tri": 3, "tet": 4, "line": 4}      # totals 13 / 11 / 9: coprime to the 16 shards


def renumbered(rng, mesh, kind):
    p, t, _ = G.renumber(rng, np.asarray(mesh.p), np.asarray(mesh.t).astype(np.int64), kind)
    return type(mesh)(p, t)


def exhaustive_case(kind):
    fn, ndirected = TINY[kind]

    def run(ctx, k):
        rng = ctx.rng()
        nvariants = ndirected + NRANDOM_TINY[kind]     # + seeded random tiny meshes
        i = k % nvariants
        mesh, name = fn(rng, i)
        if k % 2 == 1:
            mesh = renumbered(rng, mesh, kind)
            name += "-renumbered"
        mesh, suffix = variant(ctx, rng, mesh)
        name += suffix
        if k % 3 != 2:
            mesh = with_tags(rng, mesh)
            name += "-tagged"
        nt = mesh.t.shape[1]
        if nt > 8:
            raise Skip("tiny mesh has more than 8 cells")
        budget = {"n": ctx.scale(260 if kind != "tet" else 130, 2600 if kind != "tet" else 1200)}
        ctx.notes.setdefault("exhaustive_enumeration",
                             "every one of the 2^n subsets of cells (n <= 8) is used as the marked set of the base "
                             "mesh (level 1, never capped); every subset of every child with <= 8 cells is then "
                             "enumerated too (level 2) until the per-case cap, the remainder being counted under "
                             "dropped['exhaustive-level2-capped']")
        level2 = []
        for s in range(2 ** nt):
            marked = np.array([c for c in range(nt) if (s >> c) & 1], dtype=np.int64)
            desc = {"family": "exh-" + kind, "mesh": name, "ncells": nt, "marked": marked.tolist(), "level": 1}
            child = one_step(ctx, mesh, marked, desc, rng, step=0, order_check=(s % 7 == 3))
            ctx.reached("exhaustive-level1-subsets")
            budget["n"] -= 1
            if marked.size == 0:
                # the empty marked set in the containers a caller may hand over
                for form, fname in (([], "empty-list"), (np.zeros(0, dtype=np.int32), "empty-int32"),
                                    (np.zeros(0, dtype=np.int64)[::2], "empty-view"), ((), "empty-tuple"),
                                    (range(0), "empty-range"), (np.zeros((0, 1), dtype=np.int64), "empty-column-2d"),
                                    (np.zeros(0, dtype=np.uint8), "empty-uint8"),
                                    (np.nonzero(np.zeros(nt, dtype=bool))[0], "empty-nonzero-of-mask")):
                    one_step(ctx, mesh, marked, dict(desc, form=fname), rng, step=0, form=form)
                ctx.reached("empty-marked-set-in-every-container")
            if child is not None and marked.size and child.t.shape[1] <= 8:
                level2.append((marked.tolist(), child))
        ctx.reached("exhaustive-meshes-fully-enumerated")
        ctx.sample({"mesh": name, "class": type(mesh).__name__, "ncells": nt, "subsets_enumerated": 2 ** nt,
                    "children_with_<=8_cells": len(level2)}, per_family=2)
        for m1, child in level2:
            n2 = child.t.shape[1]
            if budget["n"] < 2 ** n2:
                ctx.drop("exhaustive-level2-capped")
                continue
            for s in range(1, 2 ** n2):
                marked = np.array([c for c in range(n2) if (s >> c) & 1], dtype=np.int64)
                desc = {"family": "exh-" + kind, "mesh": name, "first_marked": m1, "ncells": n2,
                        "marked": marked.tolist(), "level": 2}
                one_step(ctx, child, marked, desc, rng, step=1)
                ctx.reached("exhaustive-level2-subsets")
                budget["n"] -= 1
    return run


def tet_buffer_overflow(e, mesh):
    """Predicate of the recorded finding "the work arrays MeshTet1._adaptive allocates up front (8 nt cells,
    9 nv points, 8 nv split edges) are full".  All of: (1) NumPy's refusal to store into a too short slice,
    raised in MeshTet1._adaptive itself; (2) read from that frame: the pending cells / points really do not
    fit; (3) the cells produced so far are a correct (still non-conforming) subdivision of the parent: none
    degenerate, each inside one parent cell, measures adding up exactly -- so a runaway caused by a wrong
    split is NOT classified here.  Returns (True, facts) or (False, reason)."""
    import re
    if not isinstance(e, ValueError):
        return False, "not a ValueError"
    if not re.search(r"could not broadcast input array from shape \(\d+,\d+\) into shape \(\d+,\d+\)", str(e)):
        return False, "other message"
    tb, frame = e.__traceback__, None
    while tb is not None:
        code = tb.tb_frame.f_code
        if code.co_filename.endswith("mesh_tet_1.py") and code.co_name == "_adaptive":
            frame = tb.tb_frame
        last = tb
        tb = tb.tb_next
    if frame is None or last.tb_frame is not frame:
        return False, "not raised in MeshTet1._adaptive"
    L = frame.f_locals
    try:
        p, t, nt, nv, nm, ns = L["p"], L["t"], int(L["nt"]), int(L["nv"]), int(L["nm"]), int(L["ns"])
        nn = int(L["nn"]) if "nn" in L else 0
        full = (nt + nm > t.shape[1]) or (nv + nn > p.shape[1]) or (ns + nn > L["split_edge"].shape[1])
    except Exception as err:      # renamed locals: cannot establish the predicate
        return False, "frame not readable: %r" % (err,)
    if not full:
        return False, "buffers not full"
    nvp = nverts(mesh)
    cells = np.array(t[:, :nt])
    if nt + nm > t.shape[1] and all(k in L for k in ("t1", "t2", "t3", "tnew")):
        # raised while storing the second halves: the first halves already replaced the marked cells
        cells = np.hstack((cells, np.vstack((L["t2"], L["t1"], L["t3"], L["tnew"]))))
    if cells.min() < 0 or cells.max() >= nv:
        return False, "partial subdivision refers to points that do not exist"
    orc = R.StepOracle(np.asarray(mesh.p)[:, :nvp], np.asarray(mesh.t)[:4], np.array(p[:, :nv]), cells)
    if orc.degenerate_children().size:
        return False, "partial subdivision has degenerate cells"
    if (orc.locate() < 0).any():
        return False, "partial subdivision leaves the parent cells"
    if orc.measure_defects().size:
        return False, "partial subdivision does not add up to the parents"
    return True, {"cells_so_far": nt, "pending_cells": nm, "cell_capacity": int(t.shape[1]),
                  "points_so_far": nv, "point_capacity": int(p.shape[1]), "parent_cells": int(mesh.t.shape[1])}


def tet_noise_regime(mesh):
    """MeshTet1._adaptive_sort_mesh breaks ties between equally long edges by adding ABSOLUTE noise 1e-10 * U[0, 1)
    to every coordinate.  Returns "rounded-away" when the noise is (nearly) invisible in the coordinates
    (ulp(max |x|) >= 2^-36, i.e. |x| >= 2^16; it vanishes completely from |x| >= 2^20: exact ties stay ties and edge
    (0, 1) is bisected whether or not it is the longest), "dominant" when it is not small against the edges
    (shortest edge <= 2^14 * 1e-10 = 1.6e-6: 'longest' becomes a matter of chance), else None."""
    if type(mesh).__name__ not in ("MeshTet1", "MeshTet2"):
        return None
    P = np.asarray(mesh.p)[:, :nverts(mesh)]
    t = np.asarray(mesh.t)[:4]
    if float(np.spacing(np.abs(P).max())) >= 2.0 ** -36:
        return "rounded-away"
    hmin = min(float(np.sqrt(((P[:, t[i]] - P[:, t[j]]) ** 2).sum(axis=0)).min())
               for i in range(4) for j in range(i + 1, 4))
    if hmin <= 2.0 ** 14 * 1e-10:
        return "dominant"
    return None


def tet_tie_break_failure(e, mesh):
    """Predicate of the mechanism "the absolute 1e-10 tie-break noise of MeshTet1._adaptive_sort_mesh does not do
    its job on this parent".  All of: (1) the parent is in one of the two regimes of tet_noise_regime; (2) the call
    ended in the library's own `assert len(np.unique(p[:, :nv].T, axis=0)) == nv` inside MeshTet1._adaptive (an edge
    was split a second time: the bisected edges were not the longest ones) or in the harness' ClosureRunaway.
    Returns (mech, facts) or (None, reason)."""
    regime = tet_noise_regime(mesh)
    if regime is None:
        return None, "parent at regular scale"
    facts = {"regime": regime, "max_abs_coordinate": float(np.abs(np.asarray(mesh.p)).max()),
             "rounds": OBS["tet_rounds"], "parent_cells": int(mesh.t.shape[1])}
    if isinstance(e, ClosureRunaway):
        return "tet-adaptive-tie-break-noise-is-absolute-1e-10:closure-runaway", dict(facts, runaway=str(e))
    if not isinstance(e, AssertionError):
        return None, "another exception"
    import traceback
    last = traceback.extract_tb(e.__traceback__)[-1]
    if not (last.filename.endswith("mesh_tet_1.py") and last.name == "_adaptive" and "np.unique(p[:, :nv]" in (last.line or "")):
        return None, "another assertion"
    return "tet-adaptive-tie-break-noise-is-absolute-1e-10:duplicate-point-assertion", facts


def one_step(ctx, mesh, marked, desc, rng, step=0, order_check=False, form=None, light=False):
    """Refine adaptively with `marked` (sorted unique int64 array) and judge the step."""
    par = Snap(mesh)
    arg = marked if form is None else form
    try:
        child, records = call_refined(mesh, arg)
    except (AssertionError, ClosureRunaway) as e:
        mech, facts = tet_tie_break_failure(e, mesh)
        if mech is None:
            if isinstance(e, ClosureRunaway):
                ctx.check("valid-mesh", False, mech="tet-adaptive-closure-runaway:regular-scale", case=desc,
                          error=str(e), marked=marked, p=lambda: np.asarray(mesh.p)[:, :40],
                          t=lambda: np.asarray(mesh.t)[:, :40])
                return None
            raise
        if mech in REPORT_ONLY:
            ctx.tolerated("valid-mesh")
            ctx.reached("report-only:" + mech)
            ctx.notes.setdefault("report_only:" + mech, {"case": repr(desc)[:600], "facts": facts, "marked": marked.tolist()[:32]})
            return None
        ctx.check("valid-mesh", False, mech=mech, case=desc, facts=facts, marked=marked,
                  p=lambda: np.asarray(mesh.p)[:, :40], t=lambda: np.asarray(mesh.t)[:, :40])
        return None
    except ValueError as e:
        is_overflow, facts = tet_buffer_overflow(e, mesh)
        if not is_overflow:
            raise
        ctx.check("valid-mesh", False, mech="tet-adaptive-preallocated-buffers-overflow", case=desc,
                  error=str(e), facts=facts, nverts=int(mesh.p.shape[1]), marked=marked,
                  p=lambda: np.asarray(mesh.p)[:, :40], t=lambda: np.asarray(mesh.t)[:, :40])
        ctx.reached("tet-adaptive-raised-on-full-buffers")
        return None
    orc = check_step(ctx, par, child, np.asarray(marked, dtype=np.int64), records, desc, step=step, light=light)
    if order_check and marked.size >= 1:
        check_order_independence(ctx, mesh, marked, child, rng, desc)
    if order_check and marked.size >= 1 and mesh.t.shape[1] <= 200 and type(mesh).__name__ != "MeshLine1":
        # histories branch: the same parent object (facet tables in use since the snapshot) is refined again,
        # uniformly, after the adaptive call; judged against the snapshot taken before both calls
        child_u, rec_u = call_refined(mesh, 1)
        check_step(ctx, par, child_u, None, rec_u, dict(desc, branch="uniform-after-adaptive-on-same-parent"),
                   step=step, light=True)
        ctx.reached("parent-reused-after-adaptive")
    return child if orc is not None else None


def uniform_step(ctx, mesh, desc, step, light=False):
    par = Snap(mesh)
    child, records = call_refined(mesh, 1)
    orc = check_step(ctx, par, child, None, records, desc, step=step, light=light)
    ctx.reached("uniform-step-in-history")
    return child if orc is not None else None


# --------------------------------------------------------------- random meshes
def random_mesh(rng, kind, ctx, big=False):
    if kind == "line":
        mc = G.line_mesh(rng, n=int(rng.integers(3, ctx.scale(14, 40))))
    elif kind == "tri":
        mc = G.tri_mesh(rng, n=int(rng.integers(8, ctx.scale(30, 120) if not big else ctx.scale(60, 300))))
    else:
        mc = G.tet_mesh(rng)
    return mc


def pick_marked(rng, nt, how=None):
    how = how or str(rng.choice(["one", "few", "half", "all-but-one", "all", "empty", "pair"],
                                p=[.2, .3, .2, .08, .08, .04, .1]))
    if how == "one" or nt == 1:
        m = rng.choice(nt, size=1)
    elif how == "pair":
        m = rng.choice(nt, size=min(2, nt), replace=False)
    elif how == "few":
        m = rng.choice(nt, size=max(1, int(rng.integers(1, max(2, nt // 4 + 1)))), replace=False)
    elif how == "half":
        m = np.nonzero(rng.random(nt) < 0.5)[0]
    elif how == "all-but-one":
        m = np.delete(np.arange(nt), rng.integers(nt))
    elif how == "all":
        m = np.arange(nt)
    else:
        m = np.zeros(0, dtype=np.int64)
    return np.unique(np.asarray(m, dtype=np.int64))


def needle_tet(rng):
    """A handful of thin tetrahedra (a small random Delaunay mesh stretched by powers of two, 1 : 2^4 : 2^8 or so):
    one marked cell makes the conformity closure cascade through many more edges than the mesh has vertices."""
    import skfem
    from scipy.spatial import Delaunay
    for _ in range(100):
        P = np.unique(G.dyadic(rng, (3, int(rng.integers(5, 9))), bits=int(rng.integers(4, 7))), axis=1)
        if P.shape[1] < 5:
            continue
        try:
            t = Delaunay(P.T).simplices.T.astype(np.int64)
        except Exception:
            continue
        S = 2.0 ** np.array([-int(rng.integers(4, 8)), -int(rng.integers(0, 3)), int(rng.integers(1, 4))])
        P2 = P * S[:, None]
        dets = np.abs(G.simplex_dets(P2, t))
        t = t[:, dets > 0]
        if t.shape[1] < 2:
            continue
        P2, t = G.clean(P2, t)
        return skfem.MeshTet1(P2, t), {"gen": "tet", "style": "needle", "stretch": [float(x) for x in S], "ncells": int(t.shape[1])}
    return None, None


def random_case(kind):
    def run(ctx, k):
        rng = ctx.rng()
        mc = random_mesh(rng, kind, ctx)
        mesh = mc.mesh
        if kind == "tet" and k % 4 == 3:
            nm, nd = needle_tet(rng)
            if nm is not None:
                mesh, mc.desc = nm, nd
                ctx.reached("needle-tetrahedra")
        if k % 4 == 1:
            # dyadic scaling / integer translation (exact mode still applies): absolute thresholds and the
            # 1e-10 noise of the tetrahedral edge sorting meet cells of size 2^-8 h and offsets of 2^5
            e = int(rng.choice([-8, -3, 4]))
            shift = rng.integers(-32, 33, size=(mesh.p.shape[0], 1)).astype(float) if e < 0 else 0.0
            mesh = type(mesh)(np.asarray(mesh.p) * 2.0 ** e + shift, np.asarray(mesh.t).astype(np.int64))
            mc.desc = dict(mc.desc, scaled_by=f"2^{e}", shifted=bool(e < 0))
        mesh, suffix = variant(ctx, rng, mesh)
        if suffix:
            mc.desc = dict(mc.desc, variant=suffix)
        mesh = with_tags(rng, mesh, sub=(k % 5 != 4), bnd=(k % 3 != 2))
        nt = mesh.t.shape[1]
        marked = pick_marked(rng, nt)
        form, fname = marked_variant(rng, marked, nt=nt)
        desc = {"family": "rand-" + kind, "gen": mc.desc, "ncells": nt, "marked": marked, "form": fname}
        child = one_step(ctx, mesh, marked, desc, rng, step=0, order_check=True, form=form)
        ctx.sample({"class": type(mesh).__name__, "gen": mc.desc, "marked": marked, "form": fname,
                    "cells_after": None if child is None else int(child.t.shape[1])}, per_family=1)
        # second adaptive step on the result (the child of an adaptive step is the typical input)
        if child is not None and child.t.shape[1] <= ctx.scale(400, 3000):
            m2 = pick_marked(rng, child.t.shape[1])
            desc2 = dict(desc, second_marked=m2, ncells=int(child.t.shape[1]))
            one_step(ctx, child, m2, desc2, rng, step=1)
    return run


# -------------------------------------------------------------------- histories
def cells_containing(mesh, x):
    """Cells whose closure contains point x (own barycentric test in floats, 1e-9)."""
    P, t = np.asarray(mesh.p), np.asarray(mesh.t)
    d = P.shape[0]
    V0 = P[:, t[0]]
    A = np.moveaxis(np.stack([P[:, t[j + 1]] - V0 for j in range(d)], axis=-1), 1, 0)
    lam = np.linalg.solve(A, (x[:, None] - V0).T[:, :, None])[:, :, 0]
    lmin = np.minimum(lam.min(axis=1), 1 - lam.sum(axis=1))
    return np.nonzero(lmin >= -1e-9)[0]


def measures(mesh):
    P, t = np.asarray(mesh.p), np.asarray(mesh.t)
    return np.abs(G.simplex_dets(P[:, :nverts(mesh)], t[:P.shape[0] + 1]))


def history_case(kind, order=1):
    def run(ctx, k):
        from skfem.utils import adaptive_theta
        rng = ctx.rng()
        if kind == "line":
            mc = G.line_mesh(rng, n=int(rng.integers(2, 8)))
        elif kind == "tri":
            mc = G.tri_mesh(rng, n=int(rng.integers(5, 14)), holes=bool(rng.random() < 0.2))
        else:
            mc = G.tet_mesh(rng, style=str(rng.choice(["default", "tensor", "random"])), holes=False)
        mesh = mc.mesh
        if kind == "tet" and (mesh.t.shape[1] > 40 or k % 2 == 0):
            # long histories need a small start: one of the tiny meshes
            mesh, name = tiny_tet(rng, int(rng.integers(0, 11)))
            mc.desc = {"tiny": name}
        if order == 2:
            mesh = G.mesh_class(kind, 2).from_mesh(mesh)
        else:
            mesh, suffix = variant(ctx, rng, mesh)
            if suffix:
                mc.desc = dict(mc.desc, variant=suffix)
        mesh = with_tags(rng, mesh)
        cap = ctx.scale({"line": 1000, "tri": 2000, "tet": 1200}[kind], {"line": 4000, "tri": 6000, "tet": 3000}[kind])
        if order == 2:
            cap = cap // 2
        nsteps = int(rng.integers(8, 13))
        # a point singularity at a vertex / dyadic point of the domain
        v0 = np.asarray(mesh.p)[:, int(np.asarray(mesh.t)[0, rng.integers(mesh.t.shape[1])])].copy()
        trace = []
        kinds_seen = set()
        done = 0
        for step in range(nsteps):
            nt = mesh.t.shape[1]
            dim = mesh.p.shape[0]
            choice = str(rng.choice(["uniform", "random", "point", "theta", "subdomain", "one", "all"],
                                    p=[.12, .2, .25, .13, .07, .2, .03]))
            if choice == "uniform" and nt * 2 ** dim > cap:
                choice = "point"
            if choice == "all" and nt * (2 ** dim + 2) > cap:
                choice = "one"
            desc = {"family": f"hist-{kind}{order}", "gen": mc.desc, "trace": list(trace), "ncells": nt,
                    "choice": choice}
            own_tag = None
            if choice == "uniform":
                child = uniform_step(ctx, mesh, desc, step, light=True)
                kinds_seen.add("u")
                trace.append("U")
            else:
                if choice == "random":
                    marked = np.nonzero(rng.random(nt) < rng.choice([0.03, 0.1, 0.3]))[0]
                    if not marked.size:
                        marked = rng.choice(nt, size=1)
                elif choice == "point":
                    marked = cells_containing(mesh, v0)
                    if not marked.size:
                        marked = rng.choice(nt, size=1)
                elif choice == "theta":
                    # indicator: measure / distance to the singular point (hostile: ties between congruent cells)
                    cen = np.asarray(mesh.p)[:, np.asarray(mesh.t)[:dim + 1]].mean(axis=1)
                    est = measures(mesh) / (1e-3 + np.linalg.norm(cen - v0[:, None], axis=0)) ** 2
                    theta = float(rng.choice([0.25, 0.5, 0.75, 0.9]))
                    marked = check_theta(ctx, adaptive_theta, est, theta, None)
                    if marked is None or not marked.size:
                        marked = rng.choice(nt, size=1)
                elif choice == "subdomain" and mesh.subdomains:
                    name = sorted(mesh.subdomains)[int(rng.integers(len(mesh.subdomains)))]
                    own_tag = mesh.subdomains[name]
                    marked = np.unique(np.asarray(own_tag).ravel())
                    if marked.size and (marked.min() < 0 or marked.max() >= nt):
                        marked, own_tag = marked[(marked >= 0) & (marked < nt)], None
                    if not marked.size or marked.size * 3 > cap:
                        marked, own_tag = rng.choice(nt, size=1), None
                elif choice == "all":
                    marked = np.arange(nt)
                else:
                    marked = rng.choice(nt, size=1)
                marked = np.unique(np.asarray(marked, dtype=np.int64))
                if nt + 6 * marked.size > cap and marked.size > 1:
                    marked, own_tag = marked[: max(1, (cap - nt) // 6)], None
                desc["marked"] = marked
                form, fname = marked_variant(rng, marked, nt=nt)
                if choice == "subdomain" and own_tag is not None and rng.random() < 0.5:
                    # the mesh's own tag array object is the marked set (remapped by the same call)
                    form, fname = own_tag, "own-subdomain-array-object"
                    ctx.reached("marked-is-own-subdomain-array")
                desc["form"] = fname
                child = one_step(ctx, mesh, marked, desc, rng, step=step, form=form, light=True,
                                 order_check=(step == nsteps // 2))
                kinds_seen.add("a")
                trace.append("A%d" % marked.size)
            if child is None:
                ctx.drop("history-aborted-after-failed-step")
                break
            done += 1
            mesh = child
            # tags the library dropped (with its warning) are replaced by fresh ones so that later steps
            # exercise tag propagation again
            if mesh.boundaries is None and rng.random() < 0.7:
                mesh = with_tags(rng, mesh, sub=False, bnd=True)
            if mesh.subdomains is None:
                mesh = with_tags(rng, mesh, sub=True, bnd=False)
            if mesh.t.shape[1] > cap:
                break
        if done >= 8:
            ctx.reached("history-steps>=8")
        if done >= 12:
            ctx.reached("history-steps=12")
        if kinds_seen == {"a", "u"}:
            ctx.reached("history-mixed-adaptive-uniform")
        ctx.sample({"class": type(mesh).__name__, "gen": mc.desc, "trace": trace, "final_cells": int(mesh.t.shape[1])},
                   per_family=1)
    return run


def deep_case(ctx, k):
    """25-40 consecutive adaptive steps towards ONE point: every step marks all cells whose closure contains the
    point ("vertex" / "edge-midpoint") or the single cell at the point in a fixed direction ("one-cell": the
    same geometric corner re-marked every step).  Cells of size 2^-30 h and smaller sit next to cells of size h;
    coordinates stay dyadic with < 52 significant bits, so every step is judged exactly.  Stops at the cell budget."""
    rng = ctx.rng()
    kind = ("tri", "tet", "line")[k % 3]
    mode = ("vertex", "one-cell", "edge-midpoint")[(k // 3) % 3]
    fn, ndirected = TINY[kind]
    mesh, name = fn(rng, int(rng.integers(1, ndirected + NRANDOM_TINY[kind])))
    mesh, suffix = variant(ctx, rng, mesh)
    if k % 2:
        mesh = with_tags(rng, mesh, bnd=False)
    P, t = np.asarray(mesh.p), np.asarray(mesh.t)
    c0 = int(rng.integers(t.shape[1]))
    v0 = P[:, t[0, c0]].copy()
    if mode == "edge-midpoint" and kind != "line":
        v0 = 0.5 * (P[:, t[0, c0]] + P[:, t[1, c0]])
    u = P[:, t[:, c0]].mean(axis=1) - v0                      # direction into cell c0
    depth = ctx.scale(30, 40)
    cap = ctx.scale({"line": 400, "tri": 900, "tet": 700}[kind], {"line": 800, "tri": 3000, "tet": 2500}[kind])
    trace, done, hmin0 = [], 0, float(R.edge_hmax(P, t[:P.shape[0] + 1]).min())
    for step in range(depth):
        nt = mesh.t.shape[1]
        cand = cells_containing(mesh, v0)
        if not cand.size:
            ctx.drop("deep-history-point-lost")
            break
        if mode == "one-cell":
            cen = np.asarray(mesh.p)[:, np.asarray(mesh.t)[:, cand]].mean(axis=1) - v0[:, None]
            cand = cand[[int(np.argmax((cen * u[:, None]).sum(axis=0) / np.linalg.norm(cen, axis=0)))]]
        marked = np.unique(cand.astype(np.int64))
        if nt + 8 * marked.size > cap:
            break
        Pn = np.asarray(mesh.p)
        if R.min_bits(Pn, Pn) is None:
            # the next midpoints would not be exact doubles any more: cells of a few thousand ulp are the business
            # of the tolerance family, not of this one
            ctx.drop("deep-history-stopped-at-the-exactness-limit")
            break
        desc = {"family": "deep", "mesh": name + suffix, "mode": mode, "point": v0.tolist(), "step": step,
                "ncells": nt, "marked": marked}
        child = one_step(ctx, mesh, marked, desc, rng, step=step, light=True, order_check=(step == depth // 2))
        if child is None:
            ctx.drop("history-aborted-after-failed-step")
            break
        if OBS["tet_rounds"] > ctx.notes.get("max_tet_rounds_deep", 0):
            ctx.notes["max_tet_rounds_deep"] = OBS["tet_rounds"]
        mesh = child
        if mesh.subdomains is None and k % 2:
            mesh = with_tags(rng, mesh, bnd=False)
        done += 1
        trace.append(int(marked.size))
    hmin = float(R.edge_hmax(np.asarray(mesh.p), np.asarray(mesh.t)[:P.shape[0] + 1]).min())
    ratio = hmin0 / hmin
    for thr in (10, 20, 30):
        if ratio >= 2.0 ** thr:
            ctx.reached(f"deep-history-smallest-cell<=2^-{thr}h:{kind}")
    for thr in (16, 25, 40):
        if done >= thr:
            ctx.reached(f"deep-history-steps>={thr}")
    ctx.sample({"class": type(mesh).__name__, "mesh": name, "mode": mode, "steps": done,
                "final_cells": int(mesh.t.shape[1]), "log2_size_ratio": float(np.log2(ratio))}, per_family=2)


# ---------------------------------------------------------------- second order
def second_order_case(ctx, k):
    rng = ctx.rng()
    kind = "tri" if k % 2 == 0 else "tet"
    if k % 6 < 2:
        mesh, name = TINY[kind][0](rng, int(rng.integers(0, TINY[kind][1])))
        desc0 = {"tiny": name}
    else:
        mc = G.tri_mesh(rng, n=int(rng.integers(6, 20))) if kind == "tri" else G.tet_mesh(rng)
        mesh, desc0 = mc.mesh, mc.desc
    m2 = G.mesh_class(kind, 2).from_mesh(mesh)
    m2 = with_tags(rng, m2, sub=(k % 4 != 3), bnd=(k % 3 != 2))
    nt = m2.t.shape[1]
    marked = pick_marked(rng, nt)
    desc = {"family": "second-order", "gen": desc0, "ncells": nt, "marked": marked}
    child = one_step(ctx, m2, marked, desc, rng, step=0, order_check=(k % 3 == 0))
    if child is not None and child.t.shape[1] < ctx.scale(300, 1500):
        one_step(ctx, child, pick_marked(rng, child.t.shape[1]), dict(desc, second=True), rng, step=1)
    ctx.sample({"class": type(m2).__name__, "gen": desc0, "marked": marked}, per_family=1)


# -------------------------------------------------------------- tolerance mode
def tolerance_case(ctx, k):
    """Non-dyadic coordinates (Pythagorean rotation, scaling by 1/3, irrational shift) and the simplicial
    meshes shipped under docs/examples/meshes: the oracle runs in float64 with the stated tolerance."""
    import glob
    import os
    import skfem
    from ..engine import REPO
    rng = ctx.rng()
    if k % 4 == 3:
        files = sorted(glob.glob(os.path.join(REPO, G.DOCS_MESHES, "*")))
        if not files:       # RV_REPO points at a bare copy of the package (self-test)
            raise Skip("no docs meshes under RV_REPO")
        f = files[(k // 4) % len(files)]
        try:
            m = skfem.io.json.from_file(f) if f.endswith(".json") else skfem.Mesh.load(f)
        except Exception:
            raise Skip("docs mesh unreadable")
        if type(m).__name__ not in ("MeshTri1", "MeshTet1", "MeshLine1") or m.t.shape[1] > ctx.scale(1500, 6000):
            raise Skip("docs mesh of another class or too large")
        mesh, desc0 = m, {"docs": os.path.basename(f)}
        ctx.reached("docs-mesh-refined")
    else:
        kind = ["tri", "tet", "line"][k % 3]
        mc = random_mesh(rng, kind, ctx)
        p, t = np.asarray(mc.mesh.p).copy(), np.asarray(mc.mesh.t).astype(np.int64)
        Rm, shift = G.rigid_motion(rng, p.shape[0])
        p = (Rm @ p) / 3.0 + shift * np.sqrt(2.0)
        mesh = type(mc.mesh)(p, t)
        desc0 = dict(mc.desc, transform="pythagorean-rotation/3+sqrt2-shift")
        mesh, suffix = variant(ctx, rng, mesh)
        if suffix:
            desc0["variant"] = suffix
        mesh = with_tags(rng, mesh)
    for step in range(ctx.scale(2, 3)):
        nt = mesh.t.shape[1]
        if nt > ctx.scale(2500, 8000):
            break
        marked = pick_marked(rng, nt, how=str(rng.choice(["one", "few", "half", "pair"])))
        desc = {"family": "tolerance", "gen": desc0, "ncells": nt, "marked": marked, "step": step}
        child = one_step(ctx, mesh, marked, desc, rng, step=step, light=True)
        if child is None:
            break
        mesh = child
    ctx.sample({"class": type(mesh).__name__, "gen": desc0, "final_cells": int(mesh.t.shape[1])}, per_family=1)


# ------------------------------------------------------------- adaptive_theta
def check_theta(ctx, fn, est, theta, mx):
    """adaptive_theta against its definition: the maximum strategy {i : est_i > theta * max}."""
    est = np.asarray(est, dtype=float)
    got = fn(est, theta=theta) if mx is None else fn(est, theta=theta, max=mx)
    ref_max = max(est.tolist()) if mx is None else mx
    expected = [i for i, e in enumerate(est.tolist()) if theta * ref_max < e]
    g = np.asarray(got)
    ok = (g.ndim == 1 and np.issubdtype(g.dtype, np.integer) and g.tolist() == expected)
    ctx.check("adaptive-theta-definition", ok, mech="adaptive_theta-differs-from-maximum-strategy",
              est=est[:32], theta=theta, max=mx, got=g[:32], expected=expected[:32])
    return g.astype(np.int64) if ok else None


def check_theta_form(ctx, fn, est64, form, fname, theta, mx):
    """adaptive_theta on the estimator in another container / dtype / shape.  The definition is decided in exact
    rational arithmetic on the values the form really holds; entries within a few ulp (of the form's dtype) of the
    threshold theta * max may fall on either side (the library may multiply in float32); everything else is
    demanded exactly.  Returns the marked indices or None."""
    from fractions import Fraction
    vals = np.asarray(form)
    try:
        got = fn(form, theta=theta) if mx is None else fn(form, theta=theta, max=mx)
    except TypeError as e:
        if isinstance(form, (list, tuple)) and mx is not None and "not supported between" in str(e):
            # a Python sequence is compared with the Python float theta * max: the helper is written for arrays
            # (with max=None NumPy does the comparison and sequences work); counted, not judged
            ctx.tolerated("adaptive-theta-definition")
            ctx.reached("theta-sequence-with-explicit-max-raises-TypeError")
            return None
        raise
    flat = vals.reshape(-1) if (vals.ndim == 2 and vals.shape[1] == 1) else vals
    fr = [Fraction(v) for v in flat.tolist()]
    ref_max = max(fr) if mx is None else Fraction(mx)
    thr = Fraction(theta) * ref_max
    ulp = Fraction(1, 2 ** 50) if vals.dtype.kind in "iub" or vals.dtype.itemsize >= 8 else \
        Fraction(4 * float(np.finfo(vals.dtype).eps)).limit_denominator(2 ** 60)
    band = abs(thr) * ulp
    must = {i for i, e in enumerate(fr) if e > thr + band}
    may = {i for i, e in enumerate(fr) if e > thr - band}
    g = np.asarray(got)
    ok = g.ndim == 1 and np.issubdtype(g.dtype, np.integer)
    gl = g.tolist() if ok else None
    ok = ok and gl == sorted(set(gl)) and must <= set(gl) <= may
    ctx.check("adaptive-theta-definition", ok, mech="adaptive_theta-differs-from-maximum-strategy:" + fname,
              form=fname, est=est64[:32], theta=theta, max=mx, got=g.ravel()[:32], must=sorted(must)[:32],
              undecided=sorted(may - must)[:8], shape=getattr(g, "shape", None), dtype=str(getattr(g, "dtype", None)))
    ctx.reached("theta-input-form:" + fname)
    return g.astype(np.int64) if ok else None


def theta_forms_case(ctx, k):
    """The estimator in the forms callers hold it in: Python list / tuple, integer and float32 arrays, a one-column
    2-D array, a read-only view, the output of Functional.elemental; theta given as int; max=0.  Non-negative,
    finite estimators only.  The result drives a refinement."""
    from skfem.utils import adaptive_theta
    import skfem
    rng = ctx.rng()
    kind = ("tri", "tet", "line")[k % 3]
    fn_tiny, ndirected = TINY[kind]
    mesh, name = fn_tiny(rng, int(rng.integers(1, ndirected + NRANDOM_TINY[kind])))
    if k % 2:
        mesh, _ = call_refined(mesh, 1)
    mesh = with_tags(rng, mesh)
    nt = int(mesh.t.shape[1])
    style = (k // 3) % 4
    if style == 0:
        est = rng.random(nt)
    elif style == 1:
        est = rng.integers(0, 5, size=nt).astype(float)                  # ties and zeros
    elif style == 2:
        est = measures(mesh) * (1 + rng.integers(0, 3, size=nt))
    else:
        # a real elementwise functional: h^2 * integral of (x_0 - c)^2 over the cell
        from skfem import Basis, Functional
        elem = {"tri": skfem.ElementTriP1, "tet": skfem.ElementTetP1, "line": skfem.ElementLineP1}[kind]()
        c = float(np.asarray(mesh.p)[0].mean())

        @Functional
        def eta(w):
            return w.h ** 2 * (w.x[0] - c) ** 2
        est = eta.elemental(Basis(mesh, elem))
        ctx.reached("theta-estimator-from-Functional.elemental")
        ctx.check("adaptive-theta-definition", np.asarray(est).shape in ((nt,), (nt, 1)),
                  mech="elemental-estimator-shape", shape=np.asarray(est).shape, ncells=nt)
    est64 = np.asarray(est, dtype=float).reshape(-1)
    if not np.isfinite(est64).all() or (est64 < 0).any() or est64.max() == 0:
        raise Skip("estimator outside the judged inputs")
    ro = est64.copy()
    ro.setflags(write=False)
    top = float(est64.max())
    ints = np.round(est64 / top * 1000).astype(np.int64)
    forms = [(est, "as-produced") if style == 3 else (est64[::-1][::-1], "float64-view"),
             (est64.tolist(), "list"), (tuple(est64.tolist()), "tuple"),
             (est64.astype(np.float32), "float32"), (est64.reshape(-1, 1), "column-2d"), (ro, "read-only"),
             (ints, "int64"), (ints.astype(np.int32).tolist(), "list-of-int"), (ints.astype(np.uint16), "uint16")]
    marked = None
    for form, fname in forms:
        for theta, mx in ((0.5, None), (float(rng.random()), None), (1, None), (0, None),
                          (0.5, 0), (0.5, 0.0), (float(rng.choice([0.25, 0.75])), float(np.asarray(form).max()) / 2)):
            got = check_theta_form(ctx, adaptive_theta, est64, form, fname, theta, mx)
            if got is not None and theta == 0.5 and mx is None and fname in ("list", "float32", "column-2d", "int64"):
                marked = (got, fname)
                # the helper's output, untouched, drives the refinement
                raw = adaptive_theta(form, theta=0.5)
                par = Snap(mesh)
                child, rec = call_refined(mesh, raw)
                check_step(ctx, par, child, np.unique(got), rec,
                           {"family": "theta-forms", "mesh": name, "ncells": nt, "form": fname, "marked": got}, step=0)
                ctx.reached("theta-output-refined:" + fname)
    ctx.sample({"class": type(mesh).__name__, "mesh": name, "style": style, "ncells": nt,
                "marked": None if marked is None else marked[0]}, per_family=1)


def theta_case(ctx, k):
    from skfem.utils import adaptive_theta
    import skfem
    rng = ctx.rng()
    n = int(rng.integers(1, 40))
    style = k % 6
    if style == 0:
        est = rng.random(n)
    elif style == 1:
        est = np.ones(n) * float(rng.choice([1.0, 0.5, 3.0]))          # all equal
    elif style == 2:
        est = rng.integers(0, 4, size=n).astype(float)                   # many ties, zeros
    elif style == 3:
        est = 2.0 ** -rng.integers(0, 60, size=n).astype(float)          # huge dynamic range
    elif style == 4:
        est = np.zeros(n)
    else:
        est = rng.random(n)
        est[rng.integers(n)] = est.max() / 0.5                           # one entry exactly at theta*max for .5
    for theta in (0.0, 0.25, 0.5, 1.0, float(rng.random())):
        check_theta(ctx, adaptive_theta, est, theta, None)
        check_theta(ctx, adaptive_theta, est, theta, float(rng.choice([est.max(), 0.5 * est.max() + 0.1, 2.0])))
    # the output of the helper drives a refinement of a mesh with n cells
    m = skfem.MeshLine(np.linspace(0, 1, n + 1)) if (k % 2 and n >= 2) else None
    if m is None:
        mc = G.tri_mesh(rng, n=int(rng.integers(6, 20)))
        m = mc.mesh
        est = measures(m) * (1 + rng.integers(0, 3, size=m.t.shape[1]))
    m, _ = variant(ctx, rng, m)
    marked = check_theta(ctx, adaptive_theta, est, 0.5, None)
    if marked is not None:
        # adaptive_theta returns int32 indices: pass them on untouched
        got = adaptive_theta(est, theta=0.5)
        par = Snap(m)
        child, rec = call_refined(m, got)
        check_step(ctx, par, child, np.unique(marked), rec, {"family": "theta", "ncells": int(m.t.shape[1]),
                                                             "marked": marked}, step=0)
        ctx.reached("theta-output-refined")


# ------------------------------------------------------------ marked containers
def container_case(ctx, k):
    """Every container / dtype a caller may hand over as the marked set, on every class, deterministically:
    k -> (class, form).  The last form is the mesh's OWN subdomain array object (the tag the same call remaps)."""
    rng = ctx.rng()
    kind = ("line", "tri", "tet")[k % 3]
    which = (k // 3) % (NFORMS + 1)
    rep = k // (3 * (NFORMS + 1))
    if rep % 2 == 0:
        fn, ndirected = TINY[kind]
        mesh, name = fn(rng, int(rng.integers(1, ndirected + NRANDOM_TINY[kind])))
        desc0 = {"tiny": name}
    else:
        mc = random_mesh(rng, kind, ctx)
        mesh, desc0 = mc.mesh, mc.desc
    mesh = with_tags(rng, mesh)
    nt = int(mesh.t.shape[1])
    if which == NFORMS:
        form = mesh.subdomains[("S", "T")[rep % 2]]
        marked = np.unique(np.asarray(form)).astype(np.int64)
        fname = "own-subdomain-array-object"
    else:
        if which == 14:      # an arithmetic progression, so that a range can express it
            a = int(rng.integers(0, nt))
            marked = np.arange(a, nt, int(rng.integers(1, 4)), dtype=np.int64)[:int(rng.integers(1, 6))]
        else:
            marked = pick_marked(rng, min(nt, 256), how=str(rng.choice(["one", "pair", "few", "half", "all-but-one"])))
        form, fname = marked_variant(rng, marked, which=which, nt=nt)
    desc = {"family": "containers", "gen": desc0, "ncells": nt, "marked": marked, "form": fname}
    one_step(ctx, mesh, marked, desc, rng, step=0, order_check=True, form=form)
    ctx.reached("marked-container:" + fname)
    ctx.sample({"class": type(mesh).__name__, "form": fname, "type": type(form).__name__,
                "marked": marked}, per_family=2)


# -------------------------------------------------- unused vertices, every family
def _variant_uniform(kind):
    """Uniform steps (twice: the child inherits the unused vertex) and one adaptive step after them."""
    def run(ctx, k):
        rng = ctx.rng()
        fn, ndirected = TINY[kind]
        mesh, name = fn(rng, (1 + k) % (ndirected + NRANDOM_TINY[kind]))
        mesh, suffix = variant(ctx, rng, mesh)
        mesh = with_tags(rng, mesh)
        desc = {"family": "variant-uniform", "mesh": name + suffix, "ncells": int(mesh.t.shape[1])}
        for step in range(2):
            mesh = uniform_step(ctx, mesh, dict(desc, step=step), step)
            if mesh is None or mesh.t.shape[1] > 600:
                return
        one_step(ctx, mesh, pick_marked(rng, mesh.t.shape[1], how="few"), dict(desc, step=2), rng, step=2)
    return run


# (family function, case index of that family as a function of the repetition j)
UNUSED_RUNS = [
    (exhaustive_case("line"), lambda j: 3 + j), (exhaustive_case("tri"), lambda j: 4 + j),
    (exhaustive_case("tet"), lambda j: 4 + j),
    (random_case("line"), lambda j: j), (random_case("tri"), lambda j: j), (random_case("tet"), lambda j: j),
    (history_case("line"), lambda j: j), (history_case("tri"), lambda j: j), (history_case("tet"), lambda j: j),
    (tolerance_case, lambda j: 4 * j), (tolerance_case, lambda j: 4 * j + 1), (tolerance_case, lambda j: 4 * j + 2),
    (theta_case, lambda j: 2 * j), (theta_case, lambda j: 2 * j + 1),
    (_variant_uniform("line"), lambda j: j), (_variant_uniform("tri"), lambda j: j), (_variant_uniform("tet"), lambda j: j),
]


def unused_vertex_case(ctx, k):
    """Every workload above once more on a parent with a point that no cell uses (what Mesh.load of a mixed
    file, remove_elements or m1 @ m2 leave behind), trailing and interior; judged by the same clauses (the child
    legitimately inherits that point)."""
    VARIANT["unused"] = ("trailing", "interior")[k % 2]
    fn, index = UNUSED_RUNS[(k // 2) % len(UNUSED_RUNS)]
    try:
        fn(ctx, index(k // (2 * len(UNUSED_RUNS))))
    finally:
        VARIANT["unused"] = None


# (family function, case index as a function of the repetition j); tetrahedra first: their edge sorting has
# the absolute noise, needle tetrahedra are random_case("tet") with k % 4 == 3
SCALE_RUNS = [(exhaustive_case("tet"), lambda j: 2 + j), (random_case("tet"), lambda j: 4 * j + 3),
              (history_case("tet"), lambda j: 2 * j), (history_case("tet"), lambda j: 2 * j + 1),
              (random_case("tet"), lambda j: 4 * j), (exhaustive_case("tri"), lambda j: 9 + j),
              (history_case("tri"), lambda j: j), (random_case("tri"), lambda j: 4 * j + 2),
              (exhaustive_case("line"), lambda j: 2 + j), (history_case("line"), lambda j: j)]
AFFINE = [(-30, None), (0, "far"), (-6, "far")]


def scales_case(ctx, k):
    """Coordinate magnitudes: cells of size 2^-30 (edges ~1e-9) and cells translated by +-2^20 .. +-2^24 on every
    axis, still dyadic with few significant bits, so the oracle stays exact.  Same clauses; 8-12 step histories."""
    e, q = AFFINE[k % len(AFFINE)]
    if q == "far":
        q = 20 + (k // len(AFFINE)) % 5
    fn, index = SCALE_RUNS[(k // len(AFFINE)) % len(SCALE_RUNS)]
    VARIANT["affine"] = (e, q)
    try:
        fn(ctx, index(k // (len(AFFINE) * len(SCALE_RUNS))))
    finally:
        VARIANT["affine"] = None


# all tiny triangle meshes first (exhaustive subsets + two-step histories), then the other workloads
NTINY_TRI = TINY["tri"][1] + NRANDOM_TINY["tri"]
UNSORTED_RUNS = [(random_case("tri"), lambda j: j), (history_case("tri"), lambda j: j), (tolerance_case, lambda j: 4 * j),
                 (theta_case, lambda j: 2 * j), (_variant_uniform("tri"), lambda j: j)]


def unsorted_tri_case(ctx, k):
    """MeshTri1 parents built with sort_t=False (cells in arbitrary local order, clockwise ones included) and the
    results of oriented(): never sorted again by the class, so every table the refinement derives from t sees
    the order given.  Same clauses."""
    how = ("permuted", "oriented")[k % 5 == 4]
    VARIANT["unsorted"] = how
    try:
        if k < NTINY_TRI or (k - NTINY_TRI) % (len(UNSORTED_RUNS) + 1) == len(UNSORTED_RUNS):
            j = k if k < NTINY_TRI else NTINY_TRI + (k - NTINY_TRI) // (len(UNSORTED_RUNS) + 1)
            exhaustive_case("tri")(ctx, j)
        else:
            r, j = (k - NTINY_TRI) % (len(UNSORTED_RUNS) + 1), (k - NTINY_TRI) // (len(UNSORTED_RUNS) + 1)
            fn, index = UNSORTED_RUNS[r]
            fn(ctx, index(j))
    finally:
        VARIANT["unsorted"] = None


FAMILIES = [
    Family("exh-tri", exhaustive_case("tri"), quick=13, thorough=195, exhaustive=True,
           budget={"quick": 40, "thorough": 500}),
    Family("exh-tet", exhaustive_case("tet"), quick=11, thorough=121, exhaustive=True,
           budget={"quick": 40, "thorough": 500}),
    Family("exh-line", exhaustive_case("line"), quick=8, thorough=96, exhaustive=True,
           budget={"quick": 20, "thorough": 300}),
    Family("rand-tri", random_case("tri"), quick=60, thorough=2400),
    Family("rand-tet", random_case("tet"), quick=24, thorough=960),
    Family("rand-line", random_case("line"), quick=30, thorough=960),
    Family("hist-tri", history_case("tri"), quick=16, thorough=640),
    Family("hist-tet", history_case("tet"), quick=8, thorough=320),
    Family("hist-line", history_case("line"), quick=10, thorough=320),
    Family("hist-tri2", history_case("tri", 2), quick=3, thorough=96),
    Family("hist-tet2", history_case("tet", 2), quick=2, thorough=64),
    Family("second-order", second_order_case, quick=16, thorough=640),
    Family("tolerance", tolerance_case, quick=16, thorough=640),
    Family("theta", theta_case, quick=12, thorough=360),
    Family("theta-forms", theta_forms_case, quick=12, thorough=240),
    Family("containers", container_case, quick=3 * (NFORMS + 1), thorough=3 * (NFORMS + 1) * 20),
    Family("unused-vertex", unused_vertex_case, quick=2 * len(UNUSED_RUNS), thorough=2 * len(UNUSED_RUNS) * 16),
    Family("deep", deep_case, quick=9, thorough=144, budget={"quick": 40, "thorough": 500}),
    Family("scales", scales_case, quick=len(AFFINE) * len(SCALE_RUNS), thorough=len(AFFINE) * len(SCALE_RUNS) * 16,
           budget={"quick": 45, "thorough": 500}),
    Family("unsorted-tri", unsorted_tri_case, quick=NTINY_TRI + 2 * len(UNSORTED_RUNS), thorough=480,
           exhaustive=True, budget={"quick": 40, "thorough": 500}),
]


def _timed(fam):
    import os
    import time
    if os.environ.get("C13_PROFILE") != "1":
        return fam
    fn = fam.fn

    def wrapped(ctx, k):
        t0 = time.time()
        try:
            return fn(ctx, k)
        finally:
            ctx.reached("cpu-ms:" + fam.name, int(1000 * (time.time() - t0)))
    fam.fn = wrapped
    return fam


FAMILIES = [_timed(f) for f in FAMILIES]
