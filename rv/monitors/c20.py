"""C20 Autodiff gives the true Jacobian; integrand helpers equal their definitions.

Part A (NonlinearForm).  Every case builds one integrand as a random sum of terms of the grammar in
rv/gen/c20_integrands.py.  Each term exists three times, written independently: the JAX integrand (user
style: JaxDiscreteField arithmetic + skfem.autodiff.helpers), the same residual density in plain
NumPy/einsum, and its hand-derived Gateaux derivative.  Oracles for `J, rhs = NonlinearForm.assemble(basis, x)`:
  * rhs == -F(x), F assembled by an ordinary NumPy `LinearForm` of the reference residual density;
  * J == d F / d x: dense 4th-order central differences of F (N <= 150, rtol 1e-6 of max|J|);
  * J == `BilinearForm` of the hand-linearised density (rtol 1e-10);
  * integrands linear in the unknown: J is the ordinarily assembled matrix A at every x and rhs == b - A x;
  * x=None is x=0; `elemental()` carries the same numbers;
  * the constructor / call spelling rotates with the case index (NonlinearForm(f), hessian=False, @NonlinearForm,
    @NonlinearForm(hessian=...), NonlinearForm(form_object), x positional / float32 / int64 / strided / read-only: the
    linearisation point is rounded so that every spelling carries exactly the reference values);
  * quick tier: the same form object is called once more at the second point (elemental()) against -F(x2) and the
    hand-linearised matrix at x2 (a memo of the interpolated point or of the linearisation returns the first answer);
  * keyword parameters (float, DOF array, pre-interpolated DiscreteField, 2-D array, tuples on composite bases) on
    scalar / vector / composite / facet layouts; energies on H^2 elements, facet bases and vector x scalar layouts;
  * CompositeBasis (b0 * b1) as the basis: all oracles on it, and equality with the ElementComposite result under
    np.concatenate(split_indices());
  * magnitudes: in the grammar families (nl-scalar, nl-vector, nl-composite, nl-hess, nl-compositebasis, nl-energy,
    nl-facet, nl-linear) the whole integrand (JAX side and both references) is multiplied by a factor
    that rotates with the case index over 1, 2^-60, 2^20, 1, 2^-40 (the same problem in other physical units); all
    tolerances are relative to the magnitude of the reference, so every oracle demands at 1e-18 what it demands at 1.
    Family nl-magnitude adds the exact homogeneity J(c F) = c J(F), rhs(c F) = c rhs(F) against a second form of
    the unscaled integrand (residual, energy and linear integrands; c a power of two) and meshes in other length
    units (coordinates times 2^-20 / 2^-30) against -F and the hand-linearised matrix.
Part B (helpers).  Every public function of skfem.helpers and skfem.autodiff.helpers on random 2x2 / 3x3
tensors (0-3 trailing axes, contiguous and strided) against numpy.linalg / elementary NumPy definitions, JAX
variant == NumPy variant for every shared name, and the field helpers (grad, div, curl, sym_grad, d, dd, ...)
on synthetic DiscreteFields and on interpolated polynomial fields with known derivatives.  Family
helpers-fresh-process runs `import skfem.autodiff.helpers` -> every JAX helper on float64 data -> first
assemble()/elemental() of the process -> every JAX helper again in a NEW interpreter (sys.executable -B, PYTHONPATH =
$RV_REPO + harness) and judges the answers here: definitions, NumPy variant, float64 result type, and the first
Jacobian / right-hand side of the process against the hand-linearised ordinary forms.

Oracle pitfalls met while building this (the library is right, a naive oracle is not):
  * `jnp.exp(u)` on a JaxDiscreteField is a TypeError of JAX, not of the library: integrands apply jnp
    functions to `u.value` or to the result of an arithmetic expression (`a * u` is already an array).
  * `ndarray * JaxDiscreteField` (raw NumPy attribute of a test function on the left, e.g. `v.div * p`) makes
    NumPy call `__array__` on a tracer -> TracerArrayConversionError; users write the field first.  Not a
    statement of C20; the grammar writes `p * v.div`.
  * JaxDiscreteField has no `__radd__`/`__neg__`: `1 + u`, `-u` raise TypeError (docs write `u + 1`).
  * FD step: a DOF perturbation h changes gradients by h |grad phi| ~ h / (cell altitude) and hessians by
    h / altitude^2; the step is therefore scaled by the largest basis-function attribute, otherwise the FD
    truncation error of sqrt/log terms on small cells exceeds 1e-6.
  * the log-determinant energy needs det(I + grad u) > 0: linearisation points are rescaled so that
    max|grad u| <= 0.3 (flag `small`); reciprocal terms need u >= 1 *at the quadrature points* (flag `positive`):
    DOFs of hierarchical / bubble bases are not nodal values, so the point is checked after interpolation.
  * homogeneous integrands of degree >= 2 have J(0) = 0 exactly; max|J_fd| is then rounding noise (1e-22) and is
    no scale: the FD comparison carries the rounding floor 1e-11 max|F| / h as absolute term.
  * `COOData.tolocal()[c, j, i]` is (test i, trial j) for every form of the library (BilinearForm too).
  * magnitudes: a factor that is a power of two scales every floating-point operation of both sides exactly, so a
    case at 2^-60 is the bit-for-bit scaled image of the case at 1 (observed: J(c F) == c J(F) bitwise); a factor
    like 1e-15 would not be, and an ABSOLUTE tolerance anywhere would be wrong at these magnitudes.
  * meshes of extent 1e-6 .. 1e-9: a linearisation point with O(1) DOFs has gradients of 1e9 there; the closed-form
    derivative of e.g. the minimal-surface term then cancels to a factor |grad u|^2 (in 1-D completely) and is no
    reference any more, and a finite-difference step that resolves such cells drowns in rounding.  nl-magnitude
    therefore linearises the geometrically similar problem (DOFs times the length factor: same gradients as on the
    unscaled mesh) and uses -F and the hand-linearised matrix only; on composite layouts additionally block by block,
    each block relative to its own largest reference entry (blocks differ by powers of the length unit).
  * with the 3x3 determinant defect present, every reference for a 3-D integrand that uses `det` disagrees; such
    witnesses are classified by recomputing the reference with a model of the defect (det - 2 A01 A12 A20) and
    demanding agreement with *that* to 1e-9 / 1e-6 - anything else stays an unclassified violation.
"""
from __future__ import annotations

import inspect

import numpy as np

from ..engine import Family, Skip
from ..gen import elements as EL
from ..gen import meshes as G
from ..gen import c20_integrands as TG
from ..gen.c20_integrands import NF, nfs

PID = "C20"
RULE = ("Part A: random small meshes of every cell kind (renumbered, locally permuted, second-order/curved, cell "
        "subsets, boundary and interior facet bases) x scalar / vector / composite (H1xH1, vector x scalar, "
        "H(div) x P0, H(curl) x H1, three components) / H^2 elements x a random sum of 1-3 terms of a grammar of "
        "smooth integrands (u^2, u^3, exp, sin, 1/u, minimal surface, quasilinear, p-Laplace, convection, "
        "St.Venant, det(I+grad u), log-det energy, outer/triple products, field-with-field arithmetic, kwargs) with "
        "random coefficients x linearisation points (None, 0, unit random, large random); residual-form and "
        "energy-form (hessian=True) spellings.  Distinct key = (element layout, term names, mesh class); a case "
        "is non-trivial iff the Jacobians at two linearisation points differ (really nonlinear), linear-clause "
        "cases iff A != 0.  Part B: every public helper of both modules x n in {2,3} x trailing shapes "
        "(), (k,), (nel,nq), (a,b,c) x memory layouts x data types (complex128, float32, int64, field objects); key = "
        "(module, helper, n, #trailing axes).  Magnitudes: integrand factor 1 / 2^-60 / 2^20 / 2^-40 rotating with the "
        "case index in every Part-A family, exact homogeneity and meshes scaled by 2^-20 / 2^-30 in nl-magnitude "
        "(key = (factor, layout, terms, form kind)).  Process state: the JAX helpers before and after the first "
        "assembly of a new interpreter (key = (phase, helper, n, #trailing axes))")
ASSUMPTIONS = [
    "ordinary LinearForm/BilinearForm assembly, Basis.interpolate and quadrature are trusted here (they are the "
    "subject of C01/C02); both sides of every comparison use the same basis object and quadrature",
    "the finite-difference oracle sees errors above 1e-6 of max|J|; smaller ones are left to the hand-linearised "
    "oracle (1e-10)",
    "MortarFacetBasis is not exercised (CompositeBasis as in docs/examples/ex51.py is: family nl-compositebasis)",
    "helpers-fresh-process: the new interpreter is sys.executable -B with PYTHONPATH = $RV_REPO, the harness and its "
    ".deps and the environment of the check minus JAX_ENABLE_X64; it imports the harness modules (which do not import "
    "JAX - verified per run, otherwise the case is dropped and the run is INCONCLUSIVE) and then skfem.autodiff.helpers",
    "magnitudes are powers of two (2^-60, 2^-40, 2^20; meshes times 2^-20, 2^-30): other factors are covered only in "
    "so far as the library treats them like these",
]
TRACK = ["skfem.autodiff:NonlinearForm._assemble", "skfem.autodiff:NonlinearForm.assemble",
         "skfem.autodiff:NonlinearForm.elemental",
         "skfem.autodiff:JaxDiscreteField.__rsub__", "skfem.autodiff:JaxDiscreteField.__rtruediv__",
         "skfem.autodiff:JaxDiscreteField.__truediv__", "skfem.autodiff:JaxDiscreteField.__pow__",
         "skfem.autodiff.helpers:det", "skfem.autodiff.helpers:mul", "skfem.autodiff.helpers:prod",
         "skfem.autodiff.helpers:div", "skfem.autodiff.helpers:sym_grad", "skfem.autodiff.helpers:eye",
         "skfem.helpers:det", "skfem.helpers:inv", "skfem.helpers:cross", "skfem.helpers:curl",
         "skfem.helpers:div", "skfem.helpers:identity", "skfem.helpers:inner", "skfem.helpers:mul"]
REQUIRED_MONITORS = ["compositebasis-equals-composite-element", "rhs-is-minus-residual", "jacobian-vs-finite-differences", "jacobian-vs-hand-linearised",
                     "linear-reduces-to-ordinary-assembly", "x-none-is-zero", "elemental-equals-assemble",
                     "output-structure", "helper-np-definition", "helper-jax-definition", "helper-jax-equals-np",
                     "helper-field-definition", "helper-tables-cover-exports", "jax-float64",
                     "jacobian-scales-with-integrand"]
REQUIRED_REACH = ["hessian-path", "composite-x-tuple", "kwargs-normalised", "facet-basis", "second-order-mesh",
                  "cell-subset", "jax-det-3x3", "jax-det-2x2", "jax-mul-matmat", "jax-mul-matvec",
                  "jax-prod-3", "np-inv-3x3", "np-inv-2x2", "np-curl-3d", "np-curl-2d-scalar", "np-curl-2d-vector",
                  "np-curl-attr", "np-div-attr", "np-div-trace", "np-div-1d", "point:none", "point:zero",
                  "point:unit", "point:large", "complex-valued-form",
                  "nonlinear-form-object-reused", "second-point-same-form-object"]
REQUIRED_REACH += ["construction:" + c for c in ("plain", "hessian-false", "decorator", "decorator-hessian-false", "form-object",
                                                 "dtype-keyword", "hessian-true", "decorator-hessian-true",
                                                 "form-object-hessian-true")]
REQUIRED_REACH += ["kwargs:pre-interpolated-field", "kwargs:2d-array", "kwargs:dof-array", "kwargs:layout:scalar",
                   "kwargs:layout:vector", "kwargs:layout:scalar+scalar", "kwargs:layout:vector+scalar", "kwargs:layout:facet"]
REQUIRED_REACH += ["energy:" + v for v in ("scalar", "vector", "scalar+scalar", "vector+scalar", "hess", "facet")]
REQUIRED_REACH += ["compositebasis"] + ["helper-dtype:" + v for v in ("complex128", "float32", "int64", "field")]
REQUIRED_REACH += ["x:" + c for c in ("keyword", "positional", "float32", "int64", "strided", "readonly")]
# integrand / mesh magnitudes (every reference oracle at 2^-60, 2^-40, 2^20; exact homogeneity; meshes of 1e-6 .. 1e-9 extent)
REQUIRED_REACH += ["magnitude:" + m for m in ("2^-60", "2^-40", "2^20", "mesh*2^-30")]
REQUIRED_REACH += ["linear-at-magnitude:" + m for m in ("2^-60", "2^-40", "2^20")]
REQUIRED_REACH += ["scaling:" + m for m in ("2^-60", "2^-40", "2^20", "residual", "energy", "linear")]
REQUIRED_REACH += ["blockwise-on-scaled-mesh"]
# JAX helpers and the first assembly in a new interpreter
REQUIRED_REACH += ["fresh-process:helpers:before-assembly", "fresh-process:helpers:after-assembly",
                   "fresh-process:first-assembly"]

NMAX = 150          # dense finite differences only up to this many unknowns
RT_RHS = 1e-11      # relative to the assembled absolute residual density
RT_HAND = 1e-10     # relative to max|J_ref|
RT_FD = 1e-6        # relative to max|J_fd|
RT_LIN = 1e-12
RT_SCALING = 1e-13  # J(c F) against c J(F), c a power of two: relative to max|c J(F)|
RT_BLOCK = 1e-9     # one (test component, trial component) block on a scaled mesh, relative to max|that block of J_ref|

# Magnitudes of the integrand (the same problem in other physical units: a permeability of 1e-15 m^2, lengths in
# micrometres, stiffnesses in Pa).  Powers of two, so that c * (reference density) is the exactly scaled reference and
# J(c F) = c J(F) holds to the last bit in exact-rounding arithmetic; about 1e-18, 1e-12 and 1e6.
MAGNITUDES = {"2^-60": 2.0 ** -60, "2^-40": 2.0 ** -40, "2^20": 2.0 ** 20}
MAG_ROT = (None, "2^-60", "2^20", None, "2^-40")


def magnitude(ctx, k, reach="magnitude:"):
    """(factor or None, label): systematic rotation with the case index (phase shifted every period so that it does
    not stay locked to the other rotations of period 2, 3, 4, 6)."""
    name = MAG_ROT[(k + k // len(MAG_ROT)) % len(MAG_ROT)]
    if name is None:
        return None, "1"
    ctx.reached(reach + name)
    return MAGNITUDES[name], name


# ===================================================================== element layouts
def _v(name):
    return EL.vector(EL.by_name(name))


def _comp(*recs):
    return EL.composite(*recs)


def layouts():
    """layout name -> {mesh kind: [element records]} (fresh element objects via rec.make())."""
    B = EL.by_name
    L = {}
    L["scalar"] = {
        "line": [B("ElementLineP1"), B("ElementLineP2"), B("ElementLinePp(3)"), B("ElementLineMini")],
        "tri": [B("ElementTriP1"), B("ElementTriP2"), B("ElementTriP1B"), B("ElementTriCR"), B("ElementTriP3"),
                B("ElementTriP1DG"), EL.dg(B("ElementTriP2"))],
        "quad": [B("ElementQuad1"), B("ElementQuad2"), B("ElementQuadS2"), B("ElementQuadP(3)")],
        "tet": [B("ElementTetP1"), B("ElementTetP2"), B("ElementTetMini"), B("ElementTetCR")],
        "hex": [B("ElementHex1"), B("ElementHexS2"), B("ElementHex2")],
        "wedge": [B("ElementWedge1")],
    }
    L["vector"] = {
        "tri": [_v("ElementTriP1"), _v("ElementTriP2"), _v("ElementTriCR")],
        "quad": [_v("ElementQuad1"), _v("ElementQuad2")],
        "tet": [_v("ElementTetP1"), _v("ElementTetP2")],
        "hex": [_v("ElementHex1")],
        "wedge": [_v("ElementWedge1")],
    }
    L["vector+scalar"] = {
        "tri": [_comp(_v("ElementTriP2"), B("ElementTriP1")), _comp(_v("ElementTriP1B"), B("ElementTriP1"))],
        "quad": [_comp(_v("ElementQuad2"), B("ElementQuad1"))],
        "tet": [_comp(_v("ElementTetMini"), B("ElementTetP1")), _comp(_v("ElementTetP2"), B("ElementTetP1"))],
        "hex": [_comp(_v("ElementHex1"), B("ElementHex0"))],
    }
    L["scalar+scalar"] = {
        "line": [_comp(B("ElementLineP2"), B("ElementLineP1"))],
        "tri": [_comp(B("ElementTriP2"), B("ElementTriP1")), _comp(B("ElementTriP1B"), B("ElementTriP1")),
                _comp(B("ElementTriP1"), B("ElementTriP0"))],
        "quad": [_comp(B("ElementQuad2"), B("ElementQuad1"))],
        "tet": [_comp(B("ElementTetP2"), B("ElementTetP1"))],
        "hex": [_comp(B("ElementHex1"), B("ElementHex0"))],
    }
    L["scalar+scalar+scalar"] = {
        "line": [_comp(B("ElementLineP1"), B("ElementLineP2"), B("ElementLineP0"))],
        "tri": [_comp(B("ElementTriP1"), B("ElementTriP2"), B("ElementTriP0"))],
        "tet": [_comp(B("ElementTetP1"), B("ElementTetP1"), B("ElementTetP0"))],
    }
    L["hdiv+p0"] = {
        "tri": [_comp(B("ElementTriRT1"), B("ElementTriP0")), _comp(B("ElementTriBDM1"), B("ElementTriP0")),
                _comp(B("ElementTriRT2"), B("ElementTriP1DG"))],
        "quad": [_comp(B("ElementQuadRT1"), B("ElementQuad0"))],
        "tet": [_comp(B("ElementTetRT1"), B("ElementTetP0"))],
        "hex": [_comp(B("ElementHexRT1"), B("ElementHex0"))],
    }
    L["hcurl+scalar"] = {
        "tri": [_comp(B("ElementTriN1"), B("ElementTriP1")), _comp(B("ElementTriN2"), B("ElementTriP2"))],
        "quad": [_comp(B("ElementQuadN1"), B("ElementQuad1"))],
        "tet": [_comp(B("ElementTetN1"), B("ElementTetP1"))],
    }
    L["hess"] = {
        "tri": [B("ElementTriMorley"), B("ElementTriHermite"), B("ElementTriArgyris")],
        "quad": [B("ElementQuadBFS")],
    }
    return L


_LAY = None


def lay():
    global _LAY
    if _LAY is None:
        _LAY = layouts()
    return _LAY


# ===================================================================== meshes
def small_mesh(ctx, rng, kind, maxcells, tensor=False, affine=False):
    """A mesh of the shared zoo cut down to <= maxcells cells (random subset of its cells)."""
    for _ in range(6):
        if kind == "tri":
            mc = G.tri_mesh(rng, n=int(rng.integers(5, 14)),
                            style=str(rng.choice(["jitter", "random", "tensor", "lshaped", "symmetric", "sqsymmetric"])))
        elif kind == "quad":
            mc = G.quad_mesh(rng, style="tensor" if tensor else (str(rng.choice(["tensor", "sheared"])) if affine else None),
                             n=(int(rng.integers(1, 4)), int(rng.integers(2, 4))))
        elif kind == "hex":
            mc = G.hex_mesh(rng, style="tensor" if tensor else None)
        else:
            mc = G.first_order(rng, kind)
        nt = mc.mesh.t.shape[1]
        if nt > maxcells:
            keep = np.sort(rng.choice(nt, size=maxcells, replace=False))
            p, t = G.clean(np.asarray(mc.mesh.p), np.asarray(mc.mesh.t)[:, keep])
            try:
                m = type(mc.mesh)(p, t)
            except Exception:
                continue
            mc = G.MeshCase(m, mc.kind, 1, dict(mc.desc, cut_to=int(maxcells)), affine_cells=mc.affine_cells,
                            straight=mc.straight, planar_faces=mc.planar_faces)
        return mc
    raise Skip("no-small-mesh")


def make_basis(ctx, rng, kind, rec, maxcells, facet=None, order2=False, subset=False, intorder=None, mesh_scale=None):
    import skfem
    needs_affine = rec.mesh_req in ("affine", "axis-parallel")
    mc = small_mesh(ctx, rng, kind, maxcells, tensor=rec.mesh_req == "axis-parallel", affine=needs_affine)
    if needs_affine and not mc.affine_cells:
        raise Skip("element-needs-affine-mesh")
    if order2 and kind in ("tri", "quad", "tet") and not needs_affine:
        mc = G.second_order(rng, mc)
        ctx.reached("second-order-mesh")
    mesh = mc.mesh
    if mesh_scale is not None:
        # the same (first-order) mesh in other length units: coordinates are dyadic rationals and the scale is a power
        # of two, so the scaled coordinates are exact
        mesh = type(mesh)(np.asarray(mesh.p) * mesh_scale, np.asarray(mesh.t))
        mc = G.MeshCase(mesh, mc.kind, 1, dict(mc.desc, scaled_by=float(mesh_scale)), affine_cells=mc.affine_cells,
                        straight=mc.straight, planar_faces=mc.planar_faces)
    kw = {}
    if intorder is None and kind == "tet" and "Mini" in rec.name:
        intorder = 4   # default order 2*maxdeg is beyond the tetrahedral tables for the bubble (degree 4)
    if intorder is not None:
        kw["intorder"] = intorder
    while True:
        nt = mesh.t.shape[1]
        if facet == "boundary":
            basis = skfem.FacetBasis(mesh, rec.make(), **kw)
        elif facet == "interior":
            side = int(rng.integers(2))
            if np.any(np.asarray(mesh.f2t)[1] != -1):
                basis = skfem.InteriorFacetBasis(mesh, rec.make(), side=side, **kw)
            else:                                   # a cut-down mesh without interior facets: its boundary instead
                basis = skfem.FacetBasis(mesh, rec.make(), **kw)
        elif subset and nt >= 3:
            els = np.sort(rng.choice(nt, size=max(2, nt // 2), replace=False)).astype(np.int32)
            basis = skfem.CellBasis(mesh, rec.make(), elements=els, **kw)
            ctx.reached("cell-subset")
        else:
            basis = skfem.CellBasis(mesh, rec.make(), **kw)
        if basis.N <= NMAX or nt <= 2 or mc.order != 1:
            break
        keep = np.arange(max(2, nt // 2))
        p, t = G.clean(np.asarray(mesh.p), np.asarray(mesh.t)[:, keep])
        mesh = type(mesh)(p, t)
    if facet:
        ctx.reached("facet-basis")
    return mc, mesh, basis


# ===================================================================== the forms
def as_tuple(f):
    return f if isinstance(f, tuple) else (f,)


def ncomp(basis):
    return len(basis.basis[0])


def attr_max(basis):
    """Largest absolute value of any attribute of any basis function (scales the FD step)."""
    m = 1.0
    for bf in basis.basis:
        for c in bf:
            for a in c.astuple:
                if a is not None and np.size(a):
                    m = max(m, float(np.abs(a).max()))
    return m


RES_SPELLINGS = ("plain", "hessian-false", "decorator", "decorator-hessian-false", "form-object", "dtype-keyword")
EN_SPELLINGS = ("hessian-true", "decorator-hessian-true", "form-object-hessian-true")
X_SPELLINGS = ("keyword", "positional", "float32", "int64", "strided", "readonly")


def build_form(fn, energy, sp):
    """NonlinearForm of `fn` in one of the spellings the constructor offers (all of them denote the same form)."""
    import skfem
    from skfem.autodiff import NonlinearForm
    if energy:
        name = EN_SPELLINGS[sp % len(EN_SPELLINGS)]
        if name == "hessian-true":
            nl = NonlinearForm(fn, hessian=True)
        elif name == "decorator-hessian-true":
            @NonlinearForm(hessian=True)
            def nl(*a):
                return fn(*a)
        else:
            nl = NonlinearForm(NonlinearForm(fn), hessian=True)
        return name, nl
    name = RES_SPELLINGS[sp % len(RES_SPELLINGS)]
    if name == "plain":
        nl = NonlinearForm(fn)
    elif name == "hessian-false":
        nl = NonlinearForm(fn, hessian=False)
    elif name == "decorator":
        @NonlinearForm
        def nl(*a):
            return fn(*a)
    elif name == "decorator-hessian-false":
        @NonlinearForm(hessian=False)
        def nl(*a):
            return fn(*a)
    elif name == "form-object":
        nl = NonlinearForm(NonlinearForm(fn))
    else:
        nl = NonlinearForm(fn, dtype=np.float64, nthreads=0)
    return name, nl


def int_point_ok(prob):
    """Rounding the linearisation point to integers is admissible unless a term restricts its domain."""
    return not any(t.positive or t.small for t in prob.terms)


def spell_x(x, sp):
    """(object passed as x, name).  Every spelling carries exactly the float64 values of `x`: float32 / int64 are used
    only where the values are representable (run_problem rounds the point first)."""
    how = X_SPELLINGS[sp % len(X_SPELLINGS)]
    if x is None:
        return None, how
    x = np.asarray(x, dtype=np.float64)
    if how == "float32":
        x32 = x.astype(np.float32)
        return (x32, how) if np.array_equal(x32.astype(np.float64), x) else (x, "keyword")
    if how == "int64":
        xi = np.rint(x).astype(np.int64)
        return (xi, how) if np.array_equal(xi.astype(np.float64), x) else (x, "keyword")
    if how == "strided":
        big = np.full(2 * x.size + 1, np.nan)
        big[1::2] = x
        return big[1::2], how
    if how == "readonly":
        xr = x.copy()
        xr.setflags(write=False)
        return xr, how
    return x, how


def representable(x, sp, prob, which):
    """Round the linearisation point so that the x-spelling `sp` can carry it exactly (float32 / integers)."""
    how = X_SPELLINGS[sp % len(X_SPELLINGS)]
    if x is None:
        return x
    if how == "float32":
        return x.astype(np.float32).astype(np.float64)
    if how == "int64" and int_point_ok(prob):
        return np.rint(2 * x if which == "unit" else x)
    return x


class Problem:
    """One integrand (sum of terms with coefficients) on one basis: the form under judgement + references."""

    def __init__(self, basis, terms, Ps, kwargs, energy=False, spelling=None, factor=None):
        import skfem
        self.basis, self.terms, self.Ps, self.kw, self.energy = basis, terms, Ps, kwargs, energy
        # `factor` (None or a power of two) multiplies the whole integrand - the JAX one and both references alike:
        # the same problem in other physical units.  Every oracle of judge() is relative to the magnitude of its
        # reference, so a case judged at 2^-60 demands exactly what the case at 1 demands.
        self.factor = factor
        odd = bool((spelling or 0) % 2)
        self.n = n = ncomp(basis)
        self.dim = (basis.mesh if hasattr(basis, "mesh") else basis.bases[0].mesh).dim()
        tp = list(zip(terms, Ps))

        def scaled(out):
            if factor is None:
                return out
            return factor * out if odd else out * factor      # (a Python float on either side of a JAX array)

        if energy:
            def jxform(*a):
                out = 0.
                for t, P in tp:
                    out = out + t.jx(a[:n], a[-1], P)
                return scaled(out)
        else:
            def jxform(*a):
                out = 0.
                for t, P in tp:
                    out = out + t.jx(a[:n], a[n:2 * n], a[-1], P)
                return scaled(out)
        # the construction spelling rotates with the case index (spelling=None: the plain one)
        self.construction, self.nl = build_form(jxform, energy, 0 if spelling is None else spelling)
        self.xspelling = 0 if spelling is None else (spelling + spelling // len(X_SPELLINGS)) % len(X_SPELLINGS)
        self._tp = tp
        self._skfem = skfem

    def call(self, x, elemental=False, shift=0, ctx=None):
        """The call under judgement, `x` (float64 reference values or None) passed in the x-spelling of this
        problem (rotated by `shift`)."""
        xs, how = spell_x(x, self.xspelling + shift)
        if ctx is not None:
            ctx.reached("construction:" + self.construction)
            if x is not None:
                ctx.reached("x:" + how)
        fn = self.nl.elemental if elemental else self.nl.assemble
        if x is None and how == "positional":
            return fn(self.basis, None, **self.kw)
        if how == "positional":
            return fn(self.basis, xs, **self.kw)
        return fn(self.basis, x=xs, **self.kw)

    def fields(self, x):
        return nfs(as_tuple(self.basis.interpolate(x)))

    def residual(self, x, which="res", absolute=False):
        """F(x) by ordinary LinearForm assembly of the NumPy reference density."""
        U = self.fields(x)
        tp = self._tp
        c = 1.0 if self.factor is None else self.factor

        def lf(*a):
            V, w = nfs(a[:-1]), a[-1]
            out = 0.
            for t, P in tp:
                fn = getattr(t, which, None) or t.res
                out = out + fn(U, V, w, P)
            out = c * out
            return np.abs(out) if absolute else out
        return self._skfem.LinearForm(lf).assemble(self.basis, **self.kw)

    def jac_hand(self, x):
        return self.bilinear(x).assemble(self.basis, **self.kw)

    def bilinear(self, x):
        U = self.fields(x)
        tp = self._tp
        n = self.n
        c = 1.0 if self.factor is None else self.factor

        def bf(*a):
            D, V, w = nfs(a[:n]), nfs(a[n:2 * n]), a[-1]
            out = 0.
            for t, P in tp:
                out = out + t.jac(U, D, V, w, P)
            return c * out
        return self._skfem.BilinearForm(bf)

    def jac_fd(self, x, which="res"):
        """Dense 4th-order central differences of the reference residual."""
        N = self.basis.N
        h = 2e-3 / attr_max(self.basis)
        J = np.zeros((N, N))
        fmax = 0.0
        for j in range(N):
            e = np.zeros(N)
            e[j] = h
            f = [self.residual(x + c * e, which) for c in (2, 1, -1, -2)]
            fmax = max(fmax, max(float(np.abs(v).max()) for v in f))
            J[:, j] = (-f[0] + 8 * f[1] - 8 * f[2] + f[3]) / (12 * h)
        # rounding floor of the difference quotient: eps * |F| / h.  Needed where the true Jacobian vanishes
        # (homogeneous integrands of degree >= 2 linearised at 0): there max|J_fd| is pure rounding noise
        # (1e-22) and must not serve as the scale.
        return J, 1e-11 * fmax / h

    def names(self):
        return "+".join(t.name for t in self.terms)


def lin_point(ctx, rng, prob, which):
    """Linearisation point of class `which` honouring the terms' domain flags."""
    basis = prob.basis
    N = basis.N
    r = rng.uniform(-1, 1, size=N)
    positive = any(t.positive for t in prob.terms)
    small = any(t.small for t in prob.terms)
    amp = min(t.amp for t in prob.terms)
    if positive:
        # reciprocal terms need u >= 1 *at the quadrature points*.  Pitfall: for hierarchical / bubble / DG bases
        # the DOFs are not nodal values, so "all DOFs in [1.3, 1.9]" does not bound u (ElementQuadP(3): u crossed
        # zero, 1/u^2 ~ 1e4, the finite-difference oracle was off by 2 % while autodiff == hand-linearised).
        which = which if which in ("unit", "large") else "unit"
        x = 1.6 + 0.3 * r if which == "unit" else 5.0 + 3.0 * r
        if min(float(np.min(np.asarray(f))) for f in as_tuple(basis.interpolate(x))) < 1.0:
            one = basis.project(lambda X: 1.0 + 0.0 * X[0])
            x = (1.6 if which == "unit" else 6.0) * one + 0.02 * r * np.abs(one).max()
            if min(float(np.min(np.asarray(f))) for f in as_tuple(basis.interpolate(x))) < 1.0:
                raise Skip("no-positive-linearisation-point")
    elif which == "none":
        x = None
    elif which == "zero":
        x = np.zeros(N)
    elif which == "unit":
        x = r
    else:
        x = amp * r
    if small and x is not None and np.abs(x).max() > 0:
        g = 0.0
        for f in as_tuple(basis.interpolate(x)):
            if getattr(f, "grad", None) is not None:
                g = max(g, float(np.abs(f.grad).max()))
        if g > 0.3:
            x = x * (0.3 / g)
    ctx.reached("point:" + which)
    return which, x


def uses_det3(prob):
    return prob.dim == 3 and any(t.det3 for t in prob.terms)


def judge(ctx, prob, x, which, tag, fd=True, hand=True, shift=0):
    """All oracles for one assemble() call.  Returns the dense Jacobian (or None)."""
    basis = prob.basis
    N = basis.N
    try:
        J, rhs = prob.call(x, shift=shift, ctx=ctx)
    except TypeError as e:
        if "hessian-false" not in prob.construction:
            raise
        # hessian=False is the residual form.  The mechanism is named only if the very same call succeeds when the
        # keyword is left out (then the integrand was called as an energy); any other TypeError propagates.
        from skfem.autodiff import NonlinearForm
        try:
            NonlinearForm(prob.nl.form).assemble(basis, x=x, **prob.kw)
        except TypeError:
            raise e
        ctx.check("output-structure", False, mech="hessian-false-keyword-selects-the-energy-path", error=repr(e)[:200],
                  terms=prob.names(), **tag)
        return None
    prob.last = (J, rhs)
    x0 = np.zeros(N) if x is None else x
    names = prob.names()
    import scipy.sparse as sp
    ok = (sp.issparse(J) and J.shape == (N, N) and isinstance(rhs, np.ndarray) and rhs.shape == (N,)
          and J.dtype == np.float64 and rhs.dtype == np.float64)
    ctx.check("output-structure", ok, mech="output-structure", J=repr(J)[:120], rhs_shape=np.shape(rhs), N=int(N), **tag)
    if not ok:
        return None
    Jd = J.toarray()
    F = prob.residual(x0)
    Fabs = prob.residual(x0, absolute=True)
    sF = float(Fabs.max()) if Fabs.size else 0.0
    det3 = uses_det3(prob)
    state = {}

    def defect_residual_matches():
        if "a13" not in state:
            state["a13"] = False
            if det3:
                Fd = prob.residual(x0, which="res_defect")
                state["a13"] = bool(np.abs(rhs + Fd).max() <= 1e-9 * sF) and bool(np.abs(Fd - F).max() > 1e-9 * sF)
        return state["a13"]

    ctx.close("rhs-is-minus-residual", rhs, -F, rtol=RT_RHS, scale=sF,
              mech=lambda: "jax-det-3x3-doubled-minus" if defect_residual_matches() else "rhs:" + names,
              terms=names, point=which, **tag)
    Jh = None
    if hand and all(t.jac is not None for t in prob.terms):
        Jh = prob.jac_hand(x0).toarray()
        sJ = float(np.abs(Jh).max())
        ctx.close("jacobian-vs-hand-linearised", Jd, Jh, rtol=RT_HAND, scale=sJ,
                  mech=lambda: "jax-det-3x3-doubled-minus" if defect_residual_matches() else "jac-hand:" + names,
                  terms=names, point=which, worst=lambda: worst_entry(Jd, Jh), **tag)
    if fd and N <= NMAX:
        Jf, fd_atol = prob.jac_fd(x0)
        sJ = float(np.abs(Jf).max())

        def fd_mech():
            if defect_residual_matches():
                Jdf, at = prob.jac_fd(x0, which="res_defect")
                if np.abs(Jd - Jdf).max() <= RT_FD * np.abs(Jdf).max() + at:
                    return "jax-det-3x3-doubled-minus"
            return "jac-fd:" + names
        # tolerance RT_FD * max|J_fd| + rounding floor, written as one scale so that the recorded relative error is
        # meaningful where J vanishes
        ctx.close("jacobian-vs-finite-differences", Jd, Jf, rtol=RT_FD, scale=sJ + fd_atol / RT_FD, mech=fd_mech,
                  terms=names, point=which, worst=lambda: worst_entry(Jd, Jf), **tag)
        if Jh is not None:
            # the two references must agree with each other, otherwise the harness is wrong, not the library
            if not np.abs(Jh - Jf).max() <= RT_FD * sJ + fd_atol:
                ctx.drop("oracles-disagree:" + names)
    return Jd


def worst_entry(A, B):
    d = np.abs(A - B)
    i, j = np.unravel_index(int(np.argmax(d)), d.shape)
    return {"i": int(i), "j": int(j), "got": float(A[i, j]), "ref": float(B[i, j])}


def pick_terms(rng, poolname, layout, dim, kmax=3, need_nonlinear=True, only_linear=False, energy=False, rot=None):
    pool = [t for t in TG.pool(poolname) if t.layout == layout and dim in t.dims and t.energy == energy]
    if only_linear:
        pool = [t for t in pool if t.linear]
    if not pool:
        raise Skip("no-term-for-layout")
    nl = [t for t in pool if not t.linear]
    k = int(rng.integers(1, kmax + 1))
    chosen = []
    if need_nonlinear and nl and not only_linear:
        # the leading nonlinear term rotates with the case index so that every term of the grammar is met
        chosen.append(nl[(rot if rot is not None else int(rng.integers(len(nl)))) % len(nl)])
    tries = 0
    while len(chosen) < min(k, len(pool)) and tries < 50:
        tries += 1
        t = pool[int(rng.integers(len(pool)))]
        # a term that passes its own `h` / `n` keyword (a NumPy field) cannot share a problem with a term written for the
        # default JAX fields of the same name (harness grammar, not the library)
        if t not in chosen and not any(_conflict(t, c) for c in chosen):
            chosen.append(t)
    return chosen


_SHADOW = {"kwargs-shadow-h": ("field-with-field",), "kwargs-facet-shadow-n": ("radiation", "field-with-field")}


def _conflict(a, b):
    return b.name in _SHADOW.get(a.name, ()) or a.name in _SHADOW.get(b.name, ())


def kwargs_for(rng, basis, terms):
    kw = {}
    if any(t.name == "kwargs" for t in terms):
        kw["t"] = float(np.round(rng.uniform(.5, 2), 3))
        kw["k"] = rng.uniform(-1, 1, size=basis.N)
    for t in terms:
        if t.kw is not None:
            for name, val in t.kw(rng, basis).items():
                kw.setdefault(name, val)      # two terms sharing a name share the value
    return kw


def kwargs_reach(ctx, basis, kw, layout):
    from skfem.element import DiscreteField
    if not kw:
        return
    ctx.reached("kwargs-normalised")
    for v in kw.values():
        if isinstance(v, DiscreteField) or (isinstance(v, tuple) and all(isinstance(z, DiscreteField) for z in v)):
            ctx.reached("kwargs:pre-interpolated-field")
        elif isinstance(v, np.ndarray) and v.ndim == 2:
            ctx.reached("kwargs:2d-array")
        elif isinstance(v, np.ndarray) and v.ndim == 1:
            ctx.reached("kwargs:dof-array")
    ctx.reached("kwargs:layout:" + layout)


POINTS = ("none", "zero", "unit", "large")


def run_problem(ctx, rng, k, prob, tag):
    """Judge one problem.  Quick tier: one linearisation point (class rotates with k) judged by every oracle,
    non-triviality from the reference Jacobian at a second point.  Thorough tier: both points judged."""
    first = POINTS[k % 4]
    second = "unit" if first != "unit" else "large"
    which, x = lin_point(ctx, rng, prob, first)
    x = representable(x, prob.xspelling, prob, which)
    tag = dict(tag, construction=prob.construction)
    J1 = judge(ctx, prob, x, which, tag, fd=True)
    which2, x2 = lin_point(ctx, rng, prob, second)
    x2 = representable(x2, prob.xspelling + 3, prob, which2)
    if ctx.thorough:
        J2 = judge(ctx, prob, x2, which2, tag, fd=(k % 3 == 0), shift=3)
        if J2 is not None:
            ctx.reached("second-point-same-form-object")      # the same form object, judged in full at the second point
    else:
        J2 = prob.jac_hand(x2).toarray()
        if J1 is not None and second_call_in_quick(prob, k):
            second_point(ctx, prob, x2, which2, J2, tag)
    if J1 is not None and J2 is not None:
        nonlinear = float(np.abs(J1 - J2).max()) > 1e-9 * max(float(np.abs(J1).max()), 1e-300)
        if nonlinear:
            ctx.nontrivial(tag["layout"], prob.names(), tag["mesh"])
        else:
            ctx.drop("jacobian-did-not-change-between-points")
    ctx.sample(dict(tag, terms=prob.names(), coefficients=prob.Ps, points=[which, which2], N=int(prob.basis.N),
                    Nbfun=int(prob.basis.Nbfun), maxJ=None if J1 is None else float(np.abs(J1).max())))


def second_call_in_quick(prob, k):
    """The autodiff assembly dominates the cost of a case (Nbfun traces + Nbfun^2 JAX evaluations; twice that on the
    energy path): the quick tier repeats it at the second point for all small local sizes and for every third case of
    medium size."""
    nb = prob.basis.Nbfun
    return nb <= 6 or (k % 3 == 0 and nb <= 9 and not prob.energy)


def second_point(ctx, prob, x2, which2, J2h, tag):
    """Quick tier: the *same form object* once more, at the second linearisation point, through elemental().  A memo
    of the interpolated point or of the linearisation kept per form object / per basis returns the first answer."""
    basis = prob.basis
    names = prob.names()
    Jc, rc = prob.call(x2, elemental=True, shift=3, ctx=ctx)
    from skfem.assembly.form.coo_data import COOData
    ok = isinstance(Jc, COOData) and isinstance(rc, COOData)
    ctx.check("output-structure", ok, mech="elemental-output-structure", types=[type(Jc).__name__, type(rc).__name__], **tag)
    if not ok:
        return
    F2 = prob.residual(x2)
    sF = float(prob.residual(x2, absolute=True).max())
    ctx.close("rhs-is-minus-residual", rc.todefault(), -F2, rtol=RT_RHS, scale=sF, mech="second-point:rhs:" + names,
              terms=names, point=which2, **tag)
    if all(t.jac is not None for t in prob.terms):
        ctx.close("jacobian-vs-hand-linearised", Jc.todefault().toarray(), J2h, rtol=RT_HAND, scale=float(np.abs(J2h).max()),
                  mech="second-point:jac-hand:" + names, terms=names, point=which2,
                  worst=lambda: worst_entry(Jc.todefault().toarray(), J2h), **tag)
    ctx.reached("second-point-same-form-object")


_NB = {}


def nbfun(rec):
    """Local size of the element (measured on the default mesh of its cell kind, cached)."""
    import skfem
    if rec.name not in _NB:
        _NB[rec.name] = int(skfem.CellBasis(G.mesh_class(rec.kind)(), rec.make(), intorder=2).Nbfun)
    return _NB[rec.name]


def choose(ctx, k, layout_list, cap, kinds_ok=None, pred=None):
    """Deterministic rotation over (layout, cell kind, element) restricted to local sizes <= cap."""
    L = lay()
    order = ("tri", "tet", "quad", "hex", "line", "wedge")
    per_layout = []
    for layout in layout_list:
        lst = []
        for kind in L[layout]:
            if kinds_ok and kind not in kinds_ok:
                continue
            for i, rec in enumerate(L[layout][kind]):
                if nbfun(rec) <= cap and (pred is None or pred(rec)):
                    lst.append((i, order.index(kind), layout, kind, rec))
        lst.sort(key=lambda c: c[:2])
        per_layout.append([c[2:] for c in lst])
    # round-robin over the layouts, inside a layout first over the cell kinds, then over the elements
    combos = []
    i = 0
    while any(i < len(l) for l in per_layout):
        combos += [l[i] for l in per_layout if i < len(l)]
        i += 1
    return combos[k % len(combos)]


# ===================================================================== Part A families
def fam_residual(layout_group, poolname):
    """Residual-form problems for the layouts in `layout_group`."""
    def fn(ctx, k):
        rng = ctx.rng()
        layout, kind, rec = choose(ctx, k, layout_group, ctx.scale(19, 31))
        nb_guess = {"line": 6, "tri": 10, "quad": 8, "tet": 6, "hex": 3, "wedge": 4}[kind]
        maxcells = ctx.scale(nb_guess, 3 * nb_guess)
        mc, mesh, basis = make_basis(ctx, rng, kind, rec, maxcells, order2=(k % 5 == 4), subset=(k % 7 == 3),
                                     intorder=(None if k % 3 else int(rng.integers(2, 5))))
        dim = mesh.dim()
        terms = pick_terms(rng, poolname, layout, dim, rot=k // len(layout_group))
        Ps = [t.coef(rng) for t in terms]
        kw = kwargs_for(rng, basis, terms)
        kwargs_reach(ctx, basis, kw, layout)
        factor, mag = magnitude(ctx, k)
        prob = Problem(basis, terms, Ps, kw, spelling=k, factor=factor)
        if prob.n > 1:
            ctx.reached("composite-x-tuple")
        tag = {"layout": layout, "elem": rec.name, "mesh": type(mesh).__name__, "desc": mc.desc,
               "basis": type(basis).__name__, "factor": mag}
        run_problem(ctx, rng, k, prob, tag)
    return fn


ENERGY_LAYOUTS = ["scalar", "vector", "scalar+scalar", "vector+scalar", "hess"]


def fam_energy(ctx, k):
    rng = ctx.rng()
    layout, kind, rec = choose(ctx, k, ENERGY_LAYOUTS, ctx.scale(12, 30))
    nb_guess = {"line": 6, "tri": 8, "quad": 6, "tet": 5, "hex": 2, "wedge": 3}[kind]
    mc, mesh, basis = make_basis(ctx, rng, kind, rec, ctx.scale(nb_guess, 3 * nb_guess), order2=(k % 6 == 5))
    terms = pick_terms(rng, "energy", layout, mesh.dim(), kmax=ctx.scale(1, 2), energy=True, rot=k // len(ENERGY_LAYOUTS))
    factor, mag = magnitude(ctx, k)
    prob = Problem(basis, terms, [t.coef(rng) for t in terms], {}, energy=True, spelling=k, factor=factor)
    ctx.reached("hessian-path")
    ctx.reached("energy:" + layout)
    if prob.n > 1:
        ctx.reached("composite-x-tuple")
    tag = {"layout": "energy:" + layout, "elem": rec.name, "mesh": type(mesh).__name__, "desc": mc.desc,
           "basis": type(basis).__name__, "factor": mag}
    run_problem(ctx, rng, k, prob, tag)


def fam_facet(ctx, k):
    rng = ctx.rng()
    layout, kind, rec = choose(ctx, k, ["scalar", "vector"], ctx.scale(12, 30), kinds_ok=("tri", "quad", "tet", "hex"),
                               pred=lambda r: r.facet_basis and "DG" not in r.name)
    facet = "interior" if k % 3 == 2 else "boundary"
    mc, mesh, basis = make_basis(ctx, rng, kind, rec, ctx.scale(6, 16), facet=facet)
    if basis.nelems == 0:
        raise Skip("no-facets")
    energy = (k % 4 == 3)                  # boundary / interface energies (hessian=True) on facet bases
    terms = pick_terms(rng, "facet-energy" if energy else "facet", layout, mesh.dim(), kmax=1, rot=k // 2, energy=energy)
    Ps = [t.coef(rng) for t in terms]
    kw = kwargs_for(rng, basis, terms)
    kwargs_reach(ctx, basis, kw, "facet")
    factor, mag = magnitude(ctx, k)
    prob = Problem(basis, terms, Ps, kw, energy=energy, spelling=k, factor=factor)
    if energy:
        ctx.reached("hessian-path")
        ctx.reached("energy:facet")
    tag = {"layout": "facet:" + layout, "elem": rec.name, "mesh": type(mesh).__name__, "desc": mc.desc,
           "basis": type(basis).__name__, "factor": mag}
    run_problem(ctx, rng, k, prob, tag)


def fam_compositebasis(ctx, k):
    """CompositeBasis (b0 * b1 of component bases sharing cells and quadrature) as the basis of a NonlinearForm:
    every oracle of judge() on the CompositeBasis itself (ordinary Linear/BilinearForm assembly accepts it too), and
    the result equals the one on the basis of the ElementComposite up to the documented DOF order
    (np.concatenate(split_indices()))."""
    import skfem
    rng = ctx.rng()
    layout, kind, rec = choose(ctx, k, ["scalar+scalar", "vector+scalar", "scalar+scalar+scalar"], ctx.scale(11, 24))
    nb_guess = {"line": 6, "tri": 6, "quad": 4, "tet": 4, "hex": 2, "wedge": 3}[kind]
    mc, mesh, eb = make_basis(ctx, rng, kind, rec, ctx.scale(nb_guess, 3 * nb_guess), order2=(k % 4 == 3))
    sb = eb.split_bases()                       # with_element: same cells, same quadrature
    if k % 2 == 0 and len(sb) == 2:
        cb, spelled = sb[0] * sb[1], "b0 * b1"
    else:
        from skfem.assembly.basis.composite_basis import CompositeBasis
        cb, spelled = CompositeBasis(*sb), "CompositeBasis(*bases)"
    terms = [t for t in pick_terms(rng, "composite", layout, mesh.dim(), kmax=ctx.scale(1, 3), rot=k // 3) if not t.positive]
    if not terms:
        raise Skip("only-positive-terms")
    Ps = [t.coef(rng) for t in terms]
    kw = kwargs_for(rng, cb, terms)
    kwargs_reach(ctx, cb, kw, "compositebasis")
    factor, mag = magnitude(ctx, k)
    prob = Problem(cb, terms, Ps, kw, spelling=k, factor=factor)
    tag = {"layout": "compositebasis:" + layout, "elem": rec.name, "mesh": type(mesh).__name__, "desc": mc.desc,
           "basis": spelled, "construction": prob.construction, "factor": mag}
    N = cb.N
    ctx.check("output-structure", N == eb.N and cb.Nbfun == eb.Nbfun, mech="compositebasis-size", N=int(N), want=int(eb.N), **tag)
    which, x = lin_point(ctx, rng, prob, ("unit", "large")[k % 2])
    x = representable(x, prob.xspelling, prob, which)
    Jd = judge(ctx, prob, x, which, tag, fd=True)
    if Jd is None:
        return
    # the same form object on the basis of the composite element
    perm = np.concatenate(eb.split_indices())
    xe = np.zeros(N)
    xe[perm] = x
    kwe = {}
    for name, v in kw.items():
        if type(v) is np.ndarray and v.ndim == 1:
            kwe[name] = np.zeros(N)
            kwe[name][perm] = v
        else:
            kwe[name] = v
    Je, re_ = prob.nl.assemble(eb, x=xe, **kwe)
    Je = Je.toarray()
    rcb = prob.last[1]
    ctx.close("compositebasis-equals-composite-element", Jd, Je[np.ix_(perm, perm)], rtol=1e-11,
              scale=float(np.abs(Je).max()) + 1e-300, mech="compositebasis-vs-elementcomposite:jacobian", terms=prob.names(), **tag)
    sF = float(prob.residual(x, absolute=True).max()) + 1e-300
    ctx.close("compositebasis-equals-composite-element", rcb, re_[perm], rtol=1e-11, scale=sF,
              mech="compositebasis-vs-elementcomposite:rhs", terms=prob.names(), **tag)
    ctx.reached("compositebasis")
    x2 = lin_point(ctx, rng, prob, "zero")[1]
    J0 = prob.jac_hand(x2).toarray()
    if float(np.abs(Jd - J0).max()) > 1e-9 * max(float(np.abs(Jd).max()), 1e-300):
        ctx.nontrivial("compositebasis", layout, prob.names(), type(mesh).__name__)
    ctx.sample(dict(tag, terms=prob.names(), N=int(N)), per_family=1)


LINEAR_LAYOUTS = ["scalar", "vector", "vector+scalar", "hdiv+p0", "hcurl+scalar", "hess"]


def fam_linear(ctx, k):
    """Integrands linear in the unknown: J is the ordinary matrix at every x, rhs = b - A x."""
    import skfem
    rng = ctx.rng()
    layout, kind, rec = choose(ctx, k, LINEAR_LAYOUTS, ctx.scale(12, 30))
    nb_guess = {"line": 6, "tri": 8, "quad": 6, "tet": 5, "hex": 2, "wedge": 3}[kind]
    mc, mesh, basis = make_basis(ctx, rng, kind, rec, ctx.scale(nb_guess, 3 * nb_guess), order2=(k % 6 == 5))
    poolname = "hess" if layout == "hess" else ("composite" if "+" in layout else layout)
    terms = pick_terms(rng, poolname, layout, mesh.dim(), kmax=3, only_linear=True)
    factor, mag = magnitude(ctx, k, reach="linear-at-magnitude:")
    prob = Problem(basis, terms, [t.coef(rng) for t in terms], {}, spelling=k, factor=factor)
    names = prob.names()
    tag = {"layout": "linear:" + layout, "elem": rec.name, "mesh": type(mesh).__name__, "desc": mc.desc,
           "construction": prob.construction, "factor": mag}
    N = basis.N
    A = prob.jac_hand(np.zeros(N))          # ordinary BilinearForm assembly (independent of the point)
    b = -prob.residual(np.zeros(N))         # ordinary LinearForm assembly of the load
    sA = float(np.abs(A).max())
    Aabs = abs(A)
    for ip, which in enumerate(("none", "unit", "large") if ctx.thorough else (("none", "unit")[k % 2], "large")):
        which, x = lin_point(ctx, rng, prob, which)
        x = representable(x, prob.xspelling + ip, prob, which)
        x0 = np.zeros(N) if x is None else x
        J, rhs = prob.call(x, shift=ip, ctx=ctx)
        ctx.close("linear-reduces-to-ordinary-assembly", J.toarray(), A.toarray(), rtol=RT_LIN, scale=sA,
                  mech="linear-matrix:" + names, terms=names, point=which, **tag)
        sb = float((Aabs @ np.abs(x0)).max() + np.abs(b).max())
        ctx.close("linear-reduces-to-ordinary-assembly", rhs, b - A @ x0, rtol=1e-11, scale=sb,
                  mech="linear-rhs:" + names, terms=names, point=which, **tag)
    if sA > 0:
        ctx.nontrivial("linear:" + layout, names, type(mesh).__name__)
    ctx.sample(dict(tag, terms=names, N=int(N), maxA=sA), per_family=2)


MAGNITUDE_LAYOUTS = ["scalar", "vector", "scalar+scalar", "vector+scalar"]
MESH_SCALES = (("mesh*2^-30", 2.0 ** -30), ("mesh*2^-20", 2.0 ** -20))


def scaling_mech(got, ref, what):
    """Mechanism of a failed J(c F) == c J(F) comparison: narrow name where the differing entries were dropped."""
    got, ref = np.asarray(got), np.asarray(ref)
    bad = np.abs(got - ref) > RT_SCALING * float(np.abs(ref).max())
    if bad.any() and not got[bad].any():
        return "scaled-integrand:" + what + ":entries-of-small-magnitude-are-zero"
    return "scaled-integrand:" + what + ":differs"


def fam_magnitude(ctx, k):
    """The same problem in other units.  Five modes rotate with the case index:
      0, 1  residual form times 2^-60 / 2^20;  3  energy form (hessian=True) times 2^-40;
      4     integrand linear in the unknown times 2^-60 / 2^20: the matrix is c * (ordinarily assembled matrix);
      2     the mesh in other length units (coordinates times 2^-30 / 2^-20), a single term of the grammar, the
            linearisation point of the geometrically similar problem (DOFs times the same factor).
    Modes 0, 1, 3, 4: every oracle of judge() at that magnitude (all tolerances are relative to the magnitude of the
    reference) and the exact homogeneity J(c F) = c J(F), rhs(c F) = c rhs(F) against a second NonlinearForm of the
    unscaled integrand (c is a power of two: both sides carry the same rounding errors, scaled).  Mode 2: -F and the
    hand-linearised matrix (finite differences are useless there: a DOF step that resolves 1e-9 wide cells drowns in
    rounding)."""
    rng = ctx.rng()
    mode, rnd = k % 5, k // 5
    energy = mode == 3
    linear = mode == 4
    if mode == 2:
        label, mesh_scale = MESH_SCALES[rnd % 2]
        factor = None
    else:
        label = {0: "2^-60", 1: "2^20", 3: "2^-40", 4: ("2^-60", "2^20")[rnd % 2]}[mode]
        factor, mesh_scale = MAGNITUDES[label], None
    group = ["scalar", "vector", "vector+scalar"] if linear else MAGNITUDE_LAYOUTS
    layout, kind, rec = choose(ctx, rnd + mode, group, ctx.scale(8, 20))
    nb_guess = {"line": 5, "tri": 6, "quad": 4, "tet": 4, "hex": 2, "wedge": 2}[kind]
    mc, mesh, basis = make_basis(ctx, rng, kind, rec, ctx.scale(nb_guess, 3 * nb_guess), mesh_scale=mesh_scale)
    poolname = "energy" if energy else ("composite" if "+" in layout else layout)
    terms = pick_terms(rng, poolname, layout, mesh.dim(), kmax=1 if mode == 2 else 2, only_linear=linear, energy=energy,
                       rot=rnd)
    Ps = [t.coef(rng) for t in terms]
    kw = kwargs_for(rng, basis, terms)
    prob = Problem(basis, terms, Ps, kw, energy=energy, spelling=k, factor=factor)
    names = prob.names()
    tag = {"layout": "magnitude:" + layout, "elem": rec.name, "mesh": type(mesh).__name__, "desc": mc.desc,
           "basis": type(basis).__name__, "magnitude": label, "construction": prob.construction}
    which, x = lin_point(ctx, rng, prob, ("unit", "large")[rnd % 2])
    x = representable(x, prob.xspelling, prob, which)
    if mesh_scale is not None:
        if not any(t.positive for t in terms):
            x = x * mesh_scale              # u(s X) = s U(X): same gradients as on the unscaled mesh
        Jd = judge(ctx, prob, x, which, tag, fd=False)
        if Jd is not None:
            ctx.reached("magnitude:" + label)
            if float(np.abs(Jd).max()) > 0:
                ctx.nontrivial("magnitude", label, layout, names)
            if prob.n > 1 and all(t.jac is not None for t in terms):
                # On a mesh of tiny extent the blocks of a coupled system differ by powers of the length unit
                # (diffusion ~ h^(d-2), gradient coupling ~ h^(d-1), reaction ~ h^d): judged against max|J| the small
                # blocks would be invisible.  Every (test component, trial component) block is the integral of its own
                # density, so its natural scale is its own largest entry.  (Blocks that vanish in the reference are
                # left to the global comparison above.)
                Jh = prob.jac_hand(x).toarray()
                idx = [np.asarray(i) for i in basis.split_indices()]
                for a, ia in enumerate(idx):
                    for b, ib in enumerate(idx):
                        ref, got = Jh[np.ix_(ia, ib)], Jd[np.ix_(ia, ib)]
                        sb = float(np.abs(ref).max()) if ref.size else 0.0
                        if sb == 0.0:
                            continue
                        ctx.close("jacobian-vs-hand-linearised", got, ref, rtol=RT_BLOCK, scale=sb,
                                  mech=lambda got=got: ("jac-hand-blockwise:block-of-small-magnitude-is-zero" if not got.any()
                                                        else "jac-hand-blockwise:" + names),
                                  terms=names, point=which, block=[a, b], block_max=sb, matrix_max=float(np.abs(Jh).max()),
                                  **tag)
                        ctx.reached("blockwise-on-scaled-mesh")
        ctx.sample(dict(tag, terms=names, N=int(basis.N), maxJ=None if Jd is None else float(np.abs(Jd).max())), per_family=2)
        return
    # (finite differences at these magnitudes run in every other Part-A family; here only in the thorough tier)
    Jd = judge(ctx, prob, x, which, tag, fd=ctx.thorough and rnd % 3 == 0)
    if Jd is None:
        return
    rc = prob.last[1]
    # the unscaled integrand: a second form object, same construction spelling, same call
    ref = Problem(basis, terms, Ps, kw, energy=energy, spelling=k, factor=None)
    J1, r1 = ref.call(x)
    J1 = np.asarray(J1.toarray())
    sJ = factor * float(np.abs(J1).max())
    ctx.close("jacobian-scales-with-integrand", Jd, factor * J1, rtol=RT_SCALING, scale=sJ,
              mech=lambda: scaling_mech(Jd, factor * J1, "jacobian"), terms=names, point=which,
              worst=lambda: worst_entry(Jd, factor * J1), **tag)
    x0 = np.zeros(basis.N) if x is None else x
    sF = factor * float(ref.residual(x0, absolute=True).max())
    ctx.close("jacobian-scales-with-integrand", rc, factor * r1, rtol=RT_SCALING, scale=sF,
              mech=lambda: scaling_mech(rc, factor * r1, "rhs"), terms=names, point=which, **tag)
    ctx.reached("scaling:" + ("energy" if energy else "linear" if linear else "residual"))
    ctx.reached("scaling:" + label)
    if linear:
        A = ref.jac_hand(np.zeros(basis.N)).toarray()       # ordinary BilinearForm assembly of the unscaled density
        sA = float(np.abs(A).max())
        ctx.close("linear-reduces-to-ordinary-assembly", Jd, factor * A, rtol=RT_LIN, scale=factor * sA,
                  mech="linear-matrix-at-magnitude:" + names, terms=names, point=which, **tag)
    if sJ > 0:
        ctx.nontrivial("magnitude", label, layout, names, "energy" if energy else "linear" if linear else "residual")
    ctx.sample(dict(tag, terms=names, coefficients=Ps, N=int(basis.N), maxJ=float(np.abs(Jd).max())), per_family=2)


def fam_directed(ctx, k):
    """x=None is x=0; elemental() carries the same numbers as assemble(); float64 is on."""
    import skfem
    import jax.numpy as jnp
    from skfem.autodiff import helpers as JHm
    rng = ctx.rng()
    layout, kind, rec = choose(ctx, 5 * k + 1, ["scalar", "vector", "scalar+scalar", "vector+scalar"], ctx.scale(12, 24))
    mc, mesh, basis = make_basis(ctx, rng, kind, rec, ctx.scale(5, 12))
    poolname = "composite" if "+" in layout else layout
    terms = [t for t in pick_terms(rng, poolname, layout, mesh.dim()) if not t.positive]
    if not terms:
        raise Skip("only-positive-terms")
    kw = kwargs_for(rng, basis, terms)
    prob = Problem(basis, terms, [t.coef(rng) for t in terms], kw)
    names = prob.names()
    tag = {"layout": layout, "elem": rec.name, "mesh": type(mesh).__name__}
    N = basis.N
    J0, r0 = prob.nl.assemble(basis, **kw)
    Jz, rz = prob.nl.assemble(basis, x=np.zeros(N), **kw)
    ctx.check("x-none-is-zero", np.array_equal(J0.toarray(), Jz.toarray()) and np.array_equal(r0, rz),
              mech="x-none-differs-from-zero", terms=names, **tag)
    ctx.reached("point:none")
    ctx.reached("point:zero")
    x = rng.uniform(-1, 1, size=N)
    J, r = prob.nl.assemble(basis, x=x, **kw)
    Jc, rc = prob.nl.elemental(basis, x=x, **kw)
    from skfem.assembly.form.coo_data import COOData
    ok = isinstance(Jc, COOData) and isinstance(rc, COOData)
    if ok:
        Je, re_ = Jc.todefault(), rc.todefault()
        ok = (np.abs(Je.toarray() - J.toarray()).max() <= 1e-13 * max(np.abs(J.toarray()).max(), 1e-300)
              and np.abs(re_ - r).max() <= 1e-13 * max(np.abs(r).max(), 1e-300))
        # local blocks: same layout and numbers as the elemental matrices of the ordinary BilinearForm of the
        # hand-linearised density.  Pitfall: COOData.tolocal()[c, j, i] is (test i, trial j) for *every* form of
        # the library, so reassembling with [c, i, j] is an oracle error, not a finding.
        loc = Jc.tolocal()
        ok = ok and loc.shape == (basis.nelems, basis.Nbfun, basis.Nbfun)
        if ok:
            R = np.zeros((N, N))
            ed = np.asarray(basis.element_dofs)
            for i in range(basis.Nbfun):
                for j in range(basis.Nbfun):
                    np.add.at(R, (ed[i], ed[j]), loc[:, j, i])
            ok = np.abs(R - J.toarray()).max() <= 1e-12 * max(np.abs(R).max(), 1e-300)
        # (the hand-linearised reference is contaminated by the 3x3 determinant defect, judged elsewhere)
        if ok and all(t.jac is not None for t in terms) and not uses_det3(prob):
            ref = prob.bilinear(x).elemental(basis, **kw).tolocal()
            ok = ref.shape == loc.shape and np.abs(ref - loc).max() <= RT_HAND * max(np.abs(ref).max(), 1e-300)
    ctx.check("elemental-equals-assemble", ok, mech="elemental-differs", terms=names, **tag)
    a = rng.standard_normal((2, 3, 4))
    out = JHm.dot(a, a)
    ctx.check("jax-float64", out.dtype == jnp.float64 and J.dtype == np.float64, mech="jax-not-float64",
              dtype=str(out.dtype))
    if float(np.abs(J.toarray() - Jz.toarray()).max()) > 0:
        ctx.nontrivial("directed", layout, names)


def fam_complex(ctx, k):
    """Complex-valued forms (NonlinearForm(dtype=complex128)) with complex coefficients at a real linearisation
    point (the statement's "any differentiable nonlinear integrand"; lossy media, complex shifts): matrix and
    negative residual against the hand-linearised complex BilinearForm / LinearForm; the part linear in the
    unknown against ordinary complex assembly."""
    import skfem
    from skfem.autodiff import NonlinearForm
    from skfem.autodiff.helpers import dot as jdot, grad as jgrad
    from skfem.helpers import dot as ndot, grad as ngrad
    rng = ctx.rng()
    kind = ("tri", "quad", "line", "tet")[k % 4]
    ename = {"tri": ("ElementTriP1", "ElementTriP2"), "quad": ("ElementQuad1", "ElementQuad2"),
             "line": ("ElementLineP1", "ElementLineP2"), "tet": ("ElementTetP1", "ElementTetP1")}[kind][(k // 4) % 2]
    rec = EL.by_name(ename)
    mc, mesh, basis = make_basis(ctx, rng, kind, rec, ctx.scale(5, 12))
    cplx = lambda: complex(rng.integers(-8, 9) / 4, rng.integers(1, 9) / 4 * rng.choice([-1, 1]))
    a, b, c, dd = cplx(), cplx(), cplx(), cplx()
    pw = int(rng.integers(2, 4))
    linear_only = (k % 3 == 2)
    if linear_only:
        c = 0.0

    def F(u, v, w):
        return a * jdot(jgrad(u), jgrad(v)) + b * u * v + c * u ** pw * v - dd * v

    def dF(u, v, w):
        return a * ndot(ngrad(u), ngrad(v)) + b * u * v + c * pw * w["prev"] ** (pw - 1) * u * v

    def R(v, w):
        return a * ndot(ngrad(w["prev"]), ngrad(v)) + b * w["prev"] * v + c * w["prev"] ** pw * v - dd * v

    N = basis.N
    x = rng.uniform(-1, 1, size=N)
    tag = {"layout": "complex-scalar", "elem": ename, "mesh": type(mesh).__name__, "power": pw,
           "coefficients": [str(a), str(b), str(c), str(dd)]}
    import warnings
    with warnings.catch_warnings():
        warnings.simplefilter("ignore")
        J, rhs = NonlinearForm(F, dtype=np.complex128).assemble(basis, x=x)
    A = skfem.BilinearForm(dF, dtype=np.complex128).assemble(basis, prev=basis.interpolate(x)).toarray()
    r = skfem.LinearForm(R, dtype=np.complex128).assemble(basis, prev=basis.interpolate(x))
    Jd = np.asarray(J.toarray())
    sA = float(np.abs(A).max())
    ctx.check("jacobian-vs-hand-linearised", np.iscomplexobj(Jd) and float(np.abs(Jd - A).max()) <= 1e-10 * sA,
              mech="complex-form:jacobian-loses-complex-part" if not np.iscomplexobj(Jd) or
              float(np.abs(Jd.real - A.real).max()) <= 1e-10 * sA else "complex-form:jacobian",
              worst=float(np.abs(Jd - A).max()), scale=sA, dtype=str(Jd.dtype), **tag)
    ctx.check("rhs-is-minus-residual", np.iscomplexobj(rhs) and float(np.abs(rhs + r).max()) <= 1e-10 * (float(np.abs(r).max()) + 1e-300),
              mech="complex-form:residual", worst=float(np.abs(rhs + r).max()), **tag)
    if linear_only:
        A0 = skfem.BilinearForm(lambda u, v, w: a * ndot(ngrad(u), ngrad(v)) + b * u * v, dtype=np.complex128).assemble(basis).toarray()
        ctx.close("linear-reduces-to-ordinary-assembly", Jd, A0, rtol=1e-10, scale=sA, mech="complex-form:linear-matrix", **tag)
    ctx.reached("complex-valued-form")
    if float(np.abs(A.imag).max()) > 0:
        ctx.nontrivial("complex", ename, type(mesh).__name__, pw, linear_only)
    ctx.sample(dict(tag, N=int(N)), per_family=1)


def fam_reuse(ctx, k):
    """One NonlinearForm object assembled on several bases in turn (a mesh, its translated/scaled/mirrored copies of
    equal shape, cell and facet bases): the default fields w.x, w.h, w.n belong to the basis of the call.  Matrix and
    right-hand side against hand-linearised ordinary forms assembled on that basis."""
    import skfem
    from skfem.autodiff import NonlinearForm
    from skfem.autodiff.helpers import dot as jdot, grad as jgrad
    import jax.numpy as jnp
    from skfem.helpers import dot as ndot, grad as ngrad
    rng = ctx.rng()
    kind = ("tri", "quad", "line", "tet")[k % 4]
    ename = {"tri": "ElementTriP2", "quad": "ElementQuad1", "line": "ElementLineP2", "tet": "ElementTetP1"}[kind]
    rec = EL.by_name(ename)
    mc = small_mesh(ctx, rng, kind, ctx.scale(5, 10))
    m0 = mc.mesh
    d = m0.dim()
    facet = (k // 4) % 2 == 1 and kind != "line"
    a, b, c = (float(rng.integers(1, 9)) / 4 for _ in range(3))

    if facet:
        def F(u, v, w):
            return a * w.n[0] * u ** 2 * v + b * (1.0 + w.x[0]) * u * v - c * w.h * v

        def dF(u, v, w):
            return 2 * a * w.n[0] * w["prev"] * u * v + b * (1.0 + w.x[0]) * u * v

        def R(v, w):
            return a * w.n[0] * w["prev"] ** 2 * v + b * (1.0 + w.x[0]) * w["prev"] * v - c * w.h * v
    else:
        def F(u, v, w):
            return a * (1.0 + w.x[0]) * u ** 2 * v + b * w.h * jdot(jgrad(u), jgrad(v)) - c * jnp.sin(w.x[d - 1]) * v

        def dF(u, v, w):
            return 2 * a * (1.0 + w.x[0]) * w["prev"] * u * v + b * w.h * ndot(ngrad(u), ngrad(v))

        def R(v, w):
            return (a * (1.0 + w.x[0]) * w["prev"] ** 2 * v + b * w.h * ndot(ngrad(w["prev"]), ngrad(v))
                    - c * np.sin(w.x[d - 1]) * v)

    copies = [("original", m0),
              ("translated", m0.translated(tuple(float(v) for v in rng.integers(1, 5, size=d) / 2))),
              ("scaled", m0.scaled(tuple(float(v) for v in rng.choice([0.5, 2.0, 3.0], size=d)))),
              ("original-again", m0)]
    if d > 1:
        n = [0.0] * d
        n[0] = 1.0
        copies.insert(2, ("mirrored", m0.mirrored(tuple(n), tuple([0.25] * d))))
    form = NonlinearForm(F)
    order = [0] + [int(i) for i in rng.permutation(np.arange(1, len(copies)))]
    x = rng.uniform(-1, 1, size=skfem.CellBasis(m0, rec.make()).N)
    for pos in order:
        label, m = copies[pos]
        basis = skfem.FacetBasis(m, rec.make()) if facet else skfem.CellBasis(m, rec.make())
        J, rhs = form.assemble(basis, x=x)
        prev = basis.interpolate(x)
        A = skfem.BilinearForm(dF).assemble(basis, prev=prev).toarray()
        r = skfem.LinearForm(R).assemble(basis, prev=prev)
        tag = {"layout": "reuse:" + ("facet" if facet else "cell"), "elem": ename, "mesh": type(m).__name__, "copy": label,
               "sequence": [copies[i][0] for i in order]}
        sA = float(np.abs(A).max()) + 1e-300
        ctx.close("jacobian-vs-hand-linearised", np.asarray(J.toarray()), A, rtol=RT_HAND, scale=sA,
                  mech="form-object-reused-on-another-basis:jacobian", **tag)
        ctx.close("rhs-is-minus-residual", rhs, -r, rtol=1e-10, scale=float(np.abs(r).max()) + 1e-300,
                  mech="form-object-reused-on-another-basis:residual", **tag)
    ctx.reached("nonlinear-form-object-reused")
    ctx.nontrivial("reuse", kind, facet, tuple(order))
    ctx.sample({"elem": ename, "kind": kind, "facet": facet, "sequence": [copies[i][0] for i in order]}, per_family=1)


# ===================================================================== Part B: helpers
from .c20_helpers import (fam_helpers_np, fam_helpers_jax, fam_helpers_fields, fam_helper_exports, fam_edge,  # noqa: E402
                          fam_helper_dtypes, fam_fresh_process)

SCALAR_GROUP = ["scalar"]
VECTOR_GROUP = ["vector"]
COMPOSITE_GROUP = ["vector+scalar", "scalar+scalar", "hdiv+p0", "hcurl+scalar", "scalar+scalar+scalar"]

FAMILIES = [
    Family("nl-scalar", fam_residual(SCALAR_GROUP, "scalar"), quick=14, thorough=240, budget={"quick": 40, "thorough": 500}),
    Family("nl-vector", fam_residual(VECTOR_GROUP, "vector"), quick=9, thorough=144, budget={"quick": 40, "thorough": 500}),
    # quick=11: the third visit of vector+scalar (k=10) is led by its keyword-parameter term whatever the seed draws
    # (reach point kwargs:layout:vector+scalar; with 10 cases seeds 3, 5, 7 never met it)
    Family("nl-composite", fam_residual(COMPOSITE_GROUP, "composite"), quick=11, thorough=160,
           budget={"quick": 45, "thorough": 500}),
    Family("nl-hess", fam_residual(["hess"], "hess"), quick=2, thorough=32, budget={"quick": 20, "thorough": 400}),
    Family("nl-compositebasis", fam_compositebasis, quick=3, thorough=48, budget={"quick": 20, "thorough": 400}),
    Family("nl-energy", fam_energy, quick=7, thorough=140, budget={"quick": 30, "thorough": 500}),
    Family("nl-facet", fam_facet, quick=6, thorough=96, budget={"quick": 20, "thorough": 400}),
    Family("nl-linear", fam_linear, quick=8, thorough=128, budget={"quick": 20, "thorough": 400}),
    Family("nl-magnitude", fam_magnitude, quick=5, thorough=120, budget={"quick": 25, "thorough": 400}),
    Family("nl-reuse", fam_reuse, quick=8, thorough=160, budget={"quick": 30, "thorough": 400}),
    Family("nl-complex", fam_complex, quick=8, thorough=160, budget={"quick": 30, "thorough": 400}),
    Family("nl-directed", fam_directed, quick=4, thorough=64, budget={"quick": 15, "thorough": 300}),
    Family("helpers-np", fam_helpers_np, quick=16, thorough=960, budget={"quick": 15, "thorough": 200}),
    Family("helpers-jax", fam_helpers_jax, quick=16, thorough=960, budget={"quick": 25, "thorough": 300}),
    Family("helpers-fields", fam_helpers_fields, quick=12, thorough=384, budget={"quick": 15, "thorough": 200}),
    Family("helpers-dtypes", fam_helper_dtypes, quick=4, thorough=256, budget={"quick": 15, "thorough": 200}),
    Family("helper-exports", fam_helper_exports, quick=1, thorough=1),
    Family("helpers-edge", fam_edge, quick=4, thorough=16, budget={"quick": 15, "thorough": 60}),
    Family("helpers-fresh-process", fam_fresh_process, quick=1, thorough=12, budget={"quick": 60, "thorough": 300}),
]
