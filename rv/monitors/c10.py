"""C10 Reference maps, Jacobians, facet maps and normals are mutually consistent.

Oracles: (a) algebraic identities between the delivered maps (invF∘F, F∘invF, invDF·DF, detDF),
(b) the harness' own geometry (first-order vertex maps, own P2/Q2 Lagrange maps for second order)
for F and DF, (c) geometric truths for facets (image on the right local facet of each neighbour,
measure, unit/orthogonal/outward normals, divergence theorem), (d) affine ≡ isoparametric on
straight simplices for every method and point layout.
"""
from __future__ import annotations

import itertools

import numpy as np

from ..engine import Family, Skip
from ..gen import meshes as G
from ..refmodel import geometry as GEO
from ..refmodel import lagrange as LAG
from .. import exact

PID = "C10"
RULE = ("random meshes of all classes (first order: all six cell kinds incl. distorted multilinear, mirrored; second "
        "order: straight and curved tri/quad/tet/hex) x mapping methods x point layouts (shared / per-cell) x cell and "
        "facet subset spellings (None, permuted, repeated, int32/int64); distinct key = (mapping class, mesh class, "
        "method group, layout, subset kind, geometry class); non-trivial iff the mesh has >= 2 cells of unequal shape")
TRACK = ["skfem.mapping.mapping_affine:MappingAffine.F", "skfem.mapping.mapping_affine:MappingAffine.invF",
         "skfem.mapping.mapping_affine:MappingAffine.G", "skfem.mapping.mapping_affine:MappingAffine.normals",
         "skfem.mapping.mapping_isoparametric:MappingIsoparametric.Fmap",
         "skfem.mapping.mapping_isoparametric:MappingIsoparametric._J",
         "skfem.mapping.mapping_isoparametric:MappingIsoparametric.invF",
         "skfem.mapping.mapping_isoparametric:MappingIsoparametric.invDF",
         "skfem.mapping.mapping_isoparametric:MappingIsoparametric.bndmap",
         "skfem.mapping.mapping_isoparametric:MappingIsoparametric.bndJ",
         "skfem.mapping.mapping_isoparametric:MappingIsoparametric.normals",
         "skfem.mapping.mapping_isoparametric:MappingIsoparametric.detDG"]
REQUIRED_MONITORS = ["F-matches-own-geometry", "DF-matches-own-geometry", "invF-F-identity", "F-invF-identity",
                     "invDF-times-DF", "detDF-is-det", "F-hits-mesh-nodes", "G-on-neighbour-facet", "facet-measure",
                     "normal-unit", "normal-orthogonal", "normal-outward", "divergence-theorem-cell",
                     "divergence-theorem-mesh", "affine-equals-isoparametric", "subset-spellings-agree",
                     "facetbasis-normals-dx", "unit-scaling-law"]
REQUIRED_REACH = ["per-cell-layout", "tind-none", "tind-permuted", "tind-repeated", "curved-mesh", "mirrored-mesh",
                  "interior-facets", "newton-inverse-nontrivial", "affine-flag-flipped", "many-points-per-cell", "same-points-other-subset",
                  "mesh-in-small-units", "mesh-in-large-units", "unit-scaling-laws", "empty-subset", "closed-cell-points", "oriented-facet-set", "per-facet-points",
                  "mapping-built-for-a-cell-subset"]


class OwnGeom:
    def __init__(self, mc):
        self.mc = mc
        self.kind = mc.kind
        self.mesh = mc.mesh
        self.iso = LAG.IsoGeometry(mc.mesh, mc.kind) if mc.order == 2 else None
        self.p = np.asarray(mc.mesh.p)
        self.t = np.asarray(mc.mesh.t)

    def F(self, X, cells):
        if self.iso is not None:
            return self.iso.F(X, cells)
        return GEO.map_points(self.kind, self.p, self.t, X, cells)

    def DF(self, X, cells):
        if self.iso is not None:
            return self.iso.DF(X, cells)
        return GEO.jacobian(self.kind, self.p, self.t, X, cells)


def make_case(ctx, rng, kind, k):
    mc = G.first_order(rng, kind)
    if mc.mesh.t.shape[1] > ctx.scale(40, 150):
        mc = G.first_order(ctx.rng("smaller"), kind)
        if mc.mesh.t.shape[1] > ctx.scale(80, 300):
            raise Skip("mesh-too-large")
    geom = "affine" if mc.affine_cells else "multilinear"
    if k % 5 == 4 and kind != "line":
        p = np.array(mc.mesh.p)
        p[0] = -p[0]
        mc = G.MeshCase(type(mc.mesh)(p, np.array(mc.mesh.t)), kind, 1, dict(mc.desc, mirrored=True),
                        affine_cells=mc.affine_cells, planar_faces=mc.planar_faces)
        geom += "-mirrored"
        ctx.reached("mirrored-mesh")
    if kind in ("tri", "quad", "tet", "hex") and k % 3 == 1:
        mc = G.second_order(rng, mc)
        geom = ("curved" if not mc.straight else "straight") + "-order2"
        if not mc.straight:
            ctx.reached("curved-mesh")
    return mc, geom


def tind_spellings(rng, nt, ctx):
    out = [("none", None, np.arange(nt))]
    perm = rng.permutation(nt)[:max(1, min(nt, 5))]
    out.append(("permuted-int32", perm.astype(np.int32), perm))
    rep = rng.integers(0, nt, size=min(nt + 1, 6))
    out.append(("repeated-int64", rep.astype(np.int64), rep))
    return out


def cell_maps(ctx, k, kind):
    rng = ctx.rng()
    mc, geom = make_case(ctx, rng, kind, k)
    mesh = mc.mesh
    mapping = mesh.mapping()
    own = OwnGeom(mc)
    d = GEO.REFDIM[kind]
    nt = mesh.t.shape[1]
    mname = type(mapping).__name__
    cname = type(mesh).__name__
    unequal = nt >= 2
    for sname, tind, cells in tind_spellings(rng, nt, ctx):
        ctx.reached("tind-" + sname.split("-")[0])
        for percell in (False, True):
            npts = 4
            if percell:
                X = np.stack([GEO.random_ref_points(rng, kind, npts) for _ in cells], axis=1)
                ctx.reached("per-cell-layout")
            else:
                X = GEO.random_ref_points(rng, kind, npts)
            tag = dict(mesh=cname, mapping=mname, geom=geom, tind=sname, percell=percell, desc=mc.desc)
            key = f"{mname}:{kind}"
            x = mapping.F(X, tind)
            xo = own.F(X, cells)
            h = float(np.abs(xo).max()) + 1e-300
            ctx.close("F-matches-own-geometry", x, xo, rtol=1e-12, scale=h, mech="F:" + key, **tag)
            DF = mapping.DF(X, tind)
            DFo = own.DF(X, cells)
            ctx.close("DF-matches-own-geometry", DF, DFo, rtol=1e-11, scale=float(np.abs(DFo).max()),
                      mech="DF:" + key, **tag)
            invDF = mapping.invDF(X, tind)
            I = np.einsum("ijcq,jkcq->ikcq", invDF, DF)
            eye = np.broadcast_to(np.eye(d)[:, :, None, None], I.shape)
            ctx.close("invDF-times-DF", I, eye, rtol=1e-9, scale=1.0, mech="invDF:" + key, **tag)
            det = mapping.detDF(X, tind)
            ctx.close("detDF-is-det", det, GEO.det(DFo), rtol=1e-10, scale=float(np.abs(GEO.det(DFo)).max()),
                      mech="detDF:" + key, **tag)
            # inverse map: per-cell physical points back to the reference points they came from
            Xb = mapping.invF(x, tind)
            Xfull = X if percell else np.broadcast_to(X[:, None, :], x.shape)
            ctx.close("invF-F-identity", Xb, Xfull, rtol=1e-9, scale=1.0, mech="invF:" + key, **tag)
            x2 = mapping.F(Xb, tind)
            ctx.close("F-invF-identity", x2, x, rtol=1e-10, scale=h, mech="F-invF:" + key, **tag)
            if mname == "MappingIsoparametric" and not mc.affine_cells:
                ctx.reached("newton-inverse-nontrivial")
            if unequal:
                ctx.nontrivial(mname, cname, "cell-maps", "percell" if percell else "shared", sname, geom)
    # the empty subset, a single cell with a single point, and points of the closed reference cell (vertices, facet
    # barycentres, centroid: where the clipped Newton inverse starts from or ends at)
    empty = np.array([], dtype=np.int32)
    X3 = GEO.random_ref_points(rng, kind, 3)
    tage = dict(mesh=cname, mapping=mname, geom=geom)
    try:
        shapes = {}
        for meth in ("F", "DF", "invDF", "detDF"):
            shapes[meth] = np.asarray(getattr(mapping, meth)(X3, empty)).shape
        x0 = mapping.F(X3, empty)
        shapes["invF"] = np.asarray(mapping.invF(x0, empty)).shape
        ok = all(0 in sh for sh in shapes.values())
        ctx.check("subset-spellings-agree", ok, mech=f"empty-subset-shape:{mname}", shapes=str(shapes), **tage)
    except Exception as e:
        ctx.check("subset-spellings-agree", False, mech=f"empty-subset-raises:{mname}", error=repr(e)[:200], **tage)
    if kind not in ("line", "wedge"):
        import skfem
        from .c02 import P1ELEM
        try:
            fbe = skfem.FacetBasis(mesh, getattr(skfem, P1ELEM[kind])(), facets=empty)
            ctx.check("subset-spellings-agree", fbe.dx.shape[0] == 0, mech=f"empty-facet-basis-shape:{mname}", shape=fbe.dx.shape, **tage)
        except Exception as e:
            ctx.check("subset-spellings-agree", False, mech=f"empty-facet-basis-raises:{mname}", error=repr(e)[:200], **tage)
    ctx.reached("empty-subset")
    c1 = np.array([int(rng.integers(nt))], dtype=np.int64)
    RV = GEO.ref_vertices(kind)
    Xc = np.hstack([RV, RV.mean(axis=1, keepdims=True)] +
                   [RV[:, [i, j]].mean(axis=1, keepdims=True) for i in range(RV.shape[1]) for j in range(i + 1, RV.shape[1])][:6])
    for Xq in (Xc, GEO.random_ref_points(rng, kind, 1)):
        xq = mapping.F(Xq, c1)
        ctx.close("F-matches-own-geometry", xq, own.F(Xq, c1), rtol=1e-12, scale=float(np.abs(own.F(Xq, c1)).max()) + 1e-300,
                  mech=f"F-closed-cell-points:{mname}:{kind}", **tage)
        try:
            Xb = mapping.invF(xq, c1)
            ctx.close("invF-F-identity", Xb, np.broadcast_to(Xq[:, None, :], xq.shape), rtol=1e-8, scale=1.0,
                      mech=f"invF-closed-cell-points:{mname}:{kind}", npts=int(Xq.shape[1]), **tage)
        except Exception as e:
            if "converge" not in str(e):
                raise
            ctx.check("invF-F-identity", False, mech=f"newton-inverse-does-not-converge-at-closed-cell-points:{mname}", error=str(e), **tage)
    ctx.reached("closed-cell-points")
    # the same reference points with two different cell subsets of equal length, one after the other on the same
    # mapping object (what two bases on different subdomains of one mesh do)
    if nt >= 4:
        Xs = GEO.random_ref_points(rng, kind, 3)
        pa = rng.permutation(nt)
        ta, tb = pa[:2].astype(np.int32), pa[2:4].astype(np.int32)
        for tsel in (ta, tb, ta[::-1].copy()):
            for meth, ref in (("DF", own.DF(Xs, tsel)), ("detDF", GEO.det(own.DF(Xs, tsel))), ("F", own.F(Xs, tsel))):
                got = getattr(mapping, meth)(Xs, tsel)
                ctx.close("subset-spellings-agree", got, ref, rtol=1e-10, scale=float(np.abs(ref).max()) + 1e-300,
                          mech=f"same-points-other-subset:{meth}:{mname}", mesh=cname, geom=geom, tind=tsel.tolist())
        ctx.reached("same-points-other-subset")
    # many points per cell on a small anisotropic copy of the mesh (as a high-order facet rule produces them): the
    # inverse map must still return, and return the points
    if kind in ("quad", "hex") or mc.order == 2:
        from dataclasses import replace
        S = np.array([2.0 ** -6, 2.0 ** -6, 0.5][:d])[:, None]
        ms = replace(mesh, doflocs=np.asarray(mesh.doflocs) * S + 0.75)
        mps = ms.mapping()
        Xm = GEO.random_ref_points(rng, kind, 160)
        cells = np.arange(min(nt, 6))
        xm = mps.F(Xm, cells)
        try:
            Xb = mps.invF(xm, cells)
            ctx.close("invF-F-identity", Xb, np.broadcast_to(Xm[:, None, :], xm.shape), rtol=1e-8, scale=1.0,
                      mech=f"invF-many-points:{mname}:{kind}", mesh=cname, geom=geom, points=160)
        except Exception as e:
            if "converge" not in str(e):
                raise
            ctx.check("invF-F-identity", False, mech="newton-inverse-does-not-converge-with-many-points-per-cell",
                      mesh=cname, geom=geom, points=160, error=str(e))
        ctx.reached("many-points-per-cell")
        # the same mesh in small units (micrometres in metres and below): the inverse is dimensionless and must be as
        # accurate as at unit scale
        for e in (-20, -30):
            mu = replace(mesh, doflocs=np.asarray(mesh.doflocs) * 2.0 ** e)
            mpu = mu.mapping()
            Xs = GEO.random_ref_points(rng, kind, 9)
            cells = np.arange(min(nt, 6))
            xs = mpu.F(Xs, cells)
            try:
                Xb = mpu.invF(xs, cells)
                ctx.close("invF-F-identity", Xb, np.broadcast_to(Xs[:, None, :], xs.shape), rtol=1e-9, scale=1.0,
                          mech=f"invF-small-units:{mname}:{kind}", mesh=cname, geom=geom, unit=f"2^{e}")
            except Exception as ex:
                if "converge" not in str(ex):
                    raise
                ctx.check("invF-F-identity", False, mech="newton-inverse-does-not-converge-in-small-units", mesh=cname,
                          geom=geom, unit=f"2^{e}", error=str(ex))
        ctx.reached("mesh-in-small-units")
    # F sends reference nodes to the mesh's nodes
    Xv = GEO.ref_vertices(kind)
    xv = mapping.F(Xv)
    ref = np.asarray(mesh.p)[:, np.asarray(mesh.t)[:GEO.NVERT[kind]]]  # (dim, nv, nt)
    ctx.close("F-hits-mesh-nodes", xv, np.moveaxis(ref, 1, 2), rtol=1e-13, scale=float(np.abs(ref).max()) + 1e-300,
              mech=f"F-nodes:{mname}:{kind}", mesh=cname, desc=mc.desc)
    if mc.order == 2:
        L = np.asarray(mesh.elem.doflocs, dtype=float).T
        xl = mapping.F(L)
        ed = np.asarray(mesh.dofs.element_dofs)
        ref = np.asarray(mesh.doflocs)[:, ed.T]  # (dim, nt, Nn)
        ctx.close("F-hits-mesh-nodes", xl, ref, rtol=1e-13, scale=float(np.abs(ref).max()) + 1e-300,
                  mech=f"F-nodes2:{mname}:{kind}", mesh=cname, desc=mc.desc)
    ctx.sample({"mesh": cname, "mapping": mname, "geom": geom, "desc": mc.desc, "ncells": nt}, per_family=1)


# ---------------------------------------------------------------------- facets
def facet_param(kind, rd, s, nq=3):
    """Quadrature on local facet s of the reference cell: reference points X (dref, n), weights W for the
    parameter domain, and the tangent vectors dX/dxi (dref, npar) (constant: reference facets are flat)."""
    P = np.asarray(rd.p, dtype=float)
    verts = list(dict.fromkeys(rd.facets[s]))
    V = P[:, verts]
    gx, gw = np.polynomial.legendre.leggauss(nq)
    gx, gw = 0.5 * gx + 0.5, 0.5 * gw
    if len(verts) == 1:
        return V, np.array([1.0]), np.zeros((P.shape[0], 0)), verts
    if len(verts) == 2:
        T = (V[:, 1] - V[:, 0])[:, None]
        return V[:, :1] + T * gx[None, :], gw, T, verts
    if len(verts) == 3:
        a, b = np.meshgrid(gx, gx)
        wa, wb = np.meshgrid(gw, gw)
        a, b, w = a.ravel(), b.ravel(), (wa * wb).ravel()
        xi1, xi2 = a, b * (1 - a)  # Duffy
        w = w * (1 - a)
        T = np.stack([V[:, 1] - V[:, 0], V[:, 2] - V[:, 0]], axis=1)
        return V[:, :1] + T @ np.vstack([xi1, xi2]), w, T, verts
    a, b = np.meshgrid(gx, gx)
    wa, wb = np.meshgrid(gw, gw)
    a, b, w = a.ravel(), b.ravel(), (wa * wb).ravel()
    T = np.stack([V[:, 1] - V[:, 0], V[:, 3] - V[:, 0]], axis=1)
    return V[:, :1] + T @ np.vstack([a, b]), w, T, verts


def own_facet_measure_and_normal(own, kind, rd, cell, slot, nq=6):
    """Measure of local facet `slot` of `cell`, outward area-vector integral and ∫ x·n dS, by own geometry."""
    X, W, T, verts = facet_param(kind, rd, slot, nq)
    d = GEO.REFDIM[kind]
    cells = np.array([cell])
    x = own.F(X, cells)[:, 0]            # (dim, n)
    DF = own.DF(X, cells)[:, :, 0]       # (dim, dref, n)
    if d == 1:
        Pr = np.asarray(rd.p, dtype=float)
        sgn = 1.0 if Pr[0, verts[0]] > 0.5 else -1.0
        n = np.sign(DF[0, 0]) * sgn
        return 1.0, n[None, :] * 1.0, float(x[0, 0] * n[0]), x, n[None, :]
    tang = np.einsum("ikq,kp->ipq", DF, T)  # (dim, npar, n)
    if d == 2:
        av = np.stack([tang[1, 0], -tang[0, 0]])
    else:
        av = np.cross(tang[:, 0].T, tang[:, 1].T).T
    # orient outward: away from the image of the reference centroid direction
    Pr = np.asarray(rd.p, dtype=float)
    nref_out = Pr[:, verts].mean(1) - Pr.mean(1)
    # outward physical normal ~ DF^{-T} n_ref: sign from (DF^T av) . nref_out
    s = np.sign(np.einsum("ikq,iq,k->q", DF, av, nref_out))
    av = av * s[None, :]
    dens = np.linalg.norm(av, axis=0)
    meas = float((dens * W).sum())
    flux = float((np.einsum("iq,iq->q", x, av) * W).sum())
    return meas, av, flux, x, av / dens[None, :]


def on_local_facet(kind, rd, slot, Y, tol):
    """Do reference points Y (dref, n) lie on local facet `slot` of the closed reference cell?"""
    P = np.asarray(rd.p, dtype=float)
    verts = list(dict.fromkeys(rd.facets[slot]))
    V = P[:, verts]
    d = P.shape[0]
    if d == 1:
        return np.abs(Y[0] - V[0, 0]) <= tol
    if d == 2:
        tau = V[:, 1] - V[:, 0]
        nrm = np.array([tau[1], -tau[0]])
    else:
        nrm = np.cross(V[:, 1] - V[:, 0], V[:, 2] - V[:, 0])
    nrm = nrm / np.linalg.norm(nrm)
    dist = np.abs(nrm @ (Y - V[:, :1]))
    inside = (Y >= -tol).all(0) & (Y <= 1 + tol).all(0)
    if kind in ("tri", "tet"):
        inside &= Y.sum(0) <= 1 + tol
    if kind == "wedge":
        inside &= Y[:2].sum(0) <= 1 + tol
    return (dist <= tol) & inside


def facet_maps(ctx, k, kind):
    rng = ctx.rng()
    mc, geom = make_case(ctx, rng, kind, k)
    mesh = mc.mesh
    if kind == "wedge":
        raise Skip("wedge-has-no-boundary-element")
    mapping = mesh.mapping()
    own = OwnGeom(mc)
    rd = mesh.elem.refdom
    brd = rd.brefdom
    d = GEO.REFDIM[kind]
    nf = mesh.facets.shape[1]
    mname, cname = type(mapping).__name__, type(mesh).__name__
    f2t, t2f = np.asarray(mesh.f2t), np.asarray(mesh.t2f)
    interior = np.nonzero(f2t[1] >= 0)[0]
    if interior.size:
        ctx.reached("interior-facets")
    sel = rng.permutation(nf)[:min(nf, 8)]
    spellings = [("none", None, np.arange(nf)), ("permuted-int32", sel.astype(np.int32), sel),
                 ("repeated-int64", np.concatenate([sel[:2], sel[:2]]).astype(np.int64), np.concatenate([sel[:2], sel[:2]]))]
    Xb, Wb = ref_facet_rule(brd, d)
    straight_facets = mc.straight and (kind != "hex" or mc.planar_faces)
    hscale = float(np.abs(np.asarray(mesh.p)).max()) + 1e-300
    # per-facet points (dim-1, nfacets, npts): each facet's own points give what the shared-points call gives for them
    if d > 1:
        fs = sel[:min(sel.size, 4)].astype(np.int32)
        Xpf = np.stack([Xb[:, rng.permutation(Xb.shape[1])[:3]] for _ in fs], axis=1)        # (d-1, nf, 3)
        try:
            xpf, dpf = mapping.G(Xpf, fs), mapping.detDG(Xpf, fs)
            for j_, f_ in enumerate(fs):
                ctx.close("subset-spellings-agree", xpf[:, j_], mapping.G(Xpf[:, j_], np.array([f_]))[:, 0], rtol=1e-13, scale=hscale,
                          mech=f"G-per-facet-points:{mname}", mesh=cname, facet=int(f_))
                ctx.close("subset-spellings-agree", dpf[j_], mapping.detDG(Xpf[:, j_], np.array([f_]))[0], rtol=1e-12,
                          scale=float(np.abs(dpf).max()) + 1e-300, mech=f"detDG-per-facet-points:{mname}", mesh=cname, facet=int(f_))
            ctx.reached("per-facet-points")
        except Exception as e:
            ctx.check("subset-spellings-agree", False, mech=f"G-per-facet-points-raises:{mname}", error=repr(e)[:200], mesh=cname)
    for sname, find, facets in spellings:
        tag = dict(mesh=cname, mapping=mname, geom=geom, find=sname, desc=mc.desc)
        x = mapping.G(Xb, find)            # (dim, nfacets, nq)
        dG = mapping.detDG(Xb, find)
        ctx.check("G-shape", x.shape == (d, len(facets), Xb.shape[1]) and dG.shape == (len(facets), Xb.shape[1]),
                  mech=f"G-shape:{mname}", shape=x.shape, dshape=dG.shape, **tag)
        for j, f in enumerate(facets[:6]):
            for side in (0, 1):
                c = int(f2t[side, f])
                if c < 0:
                    continue
                slot = int(np.nonzero(t2f[:, c] == f)[0][0])
                Y = mapping.invF(x[:, j:j + 1, :], np.array([c]))[:, 0, :]
                ctx.check("G-on-neighbour-facet", bool(on_local_facet(kind, rd, slot, Y, 1e-8).all()),
                          mech=f"G-facet:{mname}:{kind}", facet=int(f), cell=c, slot=slot, Y=lambda: Y, **tag)
                # ... and they are THE pulled-back points: the own cell map sends them back onto the facet points (an
                # inverse that slides along the facet stays on the facet)
                back = own.F(Y, np.array([c]))[:, 0, :]
                ctx.close("F-invF-identity", back, x[:, j, :], rtol=1e-9, scale=hscale, mech=f"facet-points-pulled-back:{mname}:{kind}",
                          facet=int(f), cell=c, side=side, **tag)
                meas, av, flux, xo, no = own_facet_measure_and_normal(own, kind, rd, c, slot, nq=10)
                if side == 0:
                    # the delivered surface factor integrated with the harness' own 10-point Gauss rule on the
                    # reference facet (converged to rounding also for curved facets) against own geometry
                    got = float((np.abs(dG[j]) * Wb).sum())
                    ctx.close("facet-measure", got, meas, rtol=1e-9 if straight_facets else 1e-8,
                              scale=meas, mech=f"facet-measure:{mname}:{kind}", facet=int(f), **tag)
                # normals taken from this cell, evaluated at the pulled-back points
                n = mapping.normals(Y[:, None, :], np.array([c]), np.array([f]), t2f)[:, 0, :]
                ctx.close("normal-unit", np.linalg.norm(n, axis=0), np.ones(n.shape[1]), rtol=1e-12, scale=1.0,
                          mech=f"normal-unit:{mname}", **tag)
                # own normal at the same physical points: recompute own geometry at Y on that cell
                DFo = own.DF(Y, np.array([c]))[:, :, 0]
                P = np.asarray(rd.p, dtype=float)
                verts = list(dict.fromkeys(rd.facets[slot]))
                if d == 1:
                    tang = np.zeros((1, 0, Y.shape[1]))
                elif d == 2:
                    tang = np.einsum("ikq,k->iq", DFo, P[:, verts[1]] - P[:, verts[0]])[:, None, :]
                else:
                    tang = np.stack([np.einsum("ikq,k->iq", DFo, P[:, verts[1]] - P[:, verts[0]]),
                                     np.einsum("ikq,k->iq", DFo, P[:, verts[-1]] - P[:, verts[0]])], axis=1)
                if tang.shape[1]:
                    tn = tang / np.linalg.norm(tang, axis=0, keepdims=True)
                    ctx.close("normal-orthogonal", np.einsum("ipq,iq->pq", tn, n), 0 * tn[0], rtol=1e-9, scale=1.0,
                              mech=f"normal-orth:{mname}:{kind}", facet=int(f), cell=c, **tag)
                # outward: pointing away from the cell (own outward normal at quadrature points of that facet)
                xc = own.F(np.array(GEO.REF_CENTROID[kind])[:, None], np.array([c]))[:, 0, 0]
                xf = own.F(Y, np.array([c]))[:, 0]
                if d == 1:
                    outward = np.sign(xf[0] - xc[0]) * n[0] > 0
                else:
                    # own outward normal from DF^{-T} applied to the reference outward direction
                    nref = P[:, verts].mean(1) - P.mean(1)
                    nout = np.einsum("kiq,k->iq", GEO.inv(DFo[:, :, None, :])[:, :, 0, :], _ref_normal(kind, rd, slot))
                    outward = np.einsum("iq,iq->q", nout, n) > 0
                ctx.check("normal-outward", bool(np.all(outward)), mech=f"normal-outward:{mname}:{kind}",
                          facet=int(f), cell=c, side=side, **tag)
        ctx.nontrivial(mname, cname, "facet-maps", sname, geom)
    # subset spellings agree with the full evaluation
    full = mapping.G(Xb, None)
    part = mapping.G(Xb, sel.astype(np.int64))
    ctx.close("subset-spellings-agree", part, full[:, sel], rtol=1e-14, scale=hscale, mech=f"G-subset:{mname}",
              mesh=cname)
    ctx.close("subset-spellings-agree", mapping.detDG(Xb, sel.astype(np.int32)), mapping.detDG(Xb, None)[sel],
              rtol=1e-13, scale=float(np.abs(mapping.detDG(Xb, None)).max()), mech=f"detDG-subset:{mname}", mesh=cname)
    ctx.sample({"mesh": cname, "mapping": mname, "geom": geom, "desc": mc.desc, "nfacets": int(nf),
                "interior": int(interior.size)}, per_family=1)


def ref_facet_rule(brd, d, nq=10):
    """Own Gauss rule on the reference facet (point, unit segment, unit triangle via Duffy, unit square)."""
    if d == 1:
        return np.zeros((0, 1)), np.ones(1)
    gx, gw = np.polynomial.legendre.leggauss(nq)
    gx, gw = 0.5 * gx + 0.5, 0.5 * gw
    if d == 2:
        return gx[None, :], gw
    a, b = np.meshgrid(gx, gx)
    wa, wb = np.meshgrid(gw, gw)
    a, b, w = a.ravel(), b.ravel(), (wa * wb).ravel()
    if brd.__name__ == "RefTri":
        return np.vstack([a, b * (1 - a)]), w * (1 - a)
    return np.vstack([a, b]), w


def _ref_normal(kind, rd, slot):
    P = np.asarray(rd.p, dtype=float)
    verts = list(dict.fromkeys(rd.facets[slot]))
    V = P[:, verts]
    d = P.shape[0]
    if d == 2:
        tau = V[:, 1] - V[:, 0]
        n = np.array([tau[1], -tau[0]])
    else:
        n = np.cross(V[:, 1] - V[:, 0], V[:, 2] - V[:, 0])
    if n @ (V.mean(1) - P.mean(1)) < 0:
        n = -n
    return n / np.linalg.norm(n)


def divergence(ctx, k, kind):
    """∫_{∂K} x·n dS = d |K| per cell and ∫_{∂Ω} x·n dS = d |Ω| through FacetBasis.normals / dx."""
    import skfem
    rng = ctx.rng()
    mc, geom = make_case(ctx, rng, kind, k)
    if kind == "wedge":
        raise Skip("wedge-has-no-facet-basis")
    mesh = mc.mesh
    d = GEO.REFDIM[kind]
    own = OwnGeom(mc)
    rd = mesh.elem.refdom
    nt = mesh.t.shape[1]
    mapping = mesh.mapping()
    mname, cname = type(mapping).__name__, type(mesh).__name__
    elemname = {"line": "ElementLineP1", "tri": "ElementTriP1", "quad": "ElementQuad1", "tet": "ElementTetP1",
                "hex": "ElementHex1"}[kind]
    elem = getattr(skfem, elemname)
    # cell volumes by own geometry (high-order tensor Gauss / exact for straight cells)
    vol = own_volumes(own, kind, mc)
    t2f = np.asarray(mesh.t2f)
    f2t = np.asarray(mesh.f2t)
    cells = rng.permutation(nt)[:min(nt, 4)]
    # the harness' own 10-point Gauss rule on the reference facet: converged to rounding on curved facets too,
    # so the comparison judges the maps and not the truncation error of a low-order rule
    qkw = {"quadrature": ref_facet_rule(rd.brefdom, d)} if d > 1 else {"intorder": 2}
    for c in cells:
        total = 0.0
        for slot in range(t2f.shape[0]):
            f = int(t2f[slot, c])
            side = 0 if f2t[0, f] == c else 1
            fb = skfem.FacetBasis(mesh, elem(), facets=np.array([f]), side=side, **qkw)
            x = fb.global_coordinates()
            n = np.array(fb.normals)
            # FacetBasis normals are taken from the first neighbour: outward for side 0, inward for side 1
            sgn = 1.0 if side == 0 else -1.0
            total += sgn * float((np.einsum("icq,icq->cq", np.array(x), n) * fb.dx).sum())
        ctx.close("divergence-theorem-cell", total, d * vol[c], rtol=1e-9 if mc.straight else 1e-8, scale=d * abs(vol[c]),
                  mech=f"div-cell:{mname}:{kind}", mesh=cname, geom=geom, cell=int(c), desc=mc.desc)
    fb = skfem.FacetBasis(mesh, elem(), **qkw)
    x, n = np.array(fb.global_coordinates()), np.array(fb.normals)
    total = float((np.einsum("icq,icq->cq", x, n) * fb.dx).sum())
    V = float(np.sum(vol))
    ctx.close("divergence-theorem-mesh", total, d * V, rtol=1e-9 if mc.straight else 1e-7, scale=d * V + float(np.abs(x).max()) * float(fb.dx.sum()),
              mech=f"div-mesh:{mname}:{kind}", mesh=cname, geom=geom, desc=mc.desc)
    # the oriented facet set around a cell subset (facets_around): normals point out of the cells the orientation names,
    # so the flux of x through the set is d times the volume of the subset
    if nt >= 3 and d > 1:
        S = np.sort(rng.choice(nt, size=max(1, nt // 3), replace=False)).astype(np.int32)
        ob = mesh.facets_around(S)
        owners = f2t[np.asarray(ob.ori), np.asarray(ob)]
        ctx.check("normals-outward", bool(np.isin(owners, S).all()), mech="facets-around:orientation-names-a-cell-outside-the-set",
                  mesh=cname, cells=int(S.size))
        fbo = skfem.FacetBasis(mesh, elem(), facets=ob, **qkw)
        xo, no = np.array(fbo.global_coordinates()), np.array(fbo.normals)
        tot = float((np.einsum("icq,icq->cq", xo, no) * fbo.dx).sum())
        VS = float(np.sum(vol[S]))
        ctx.close("divergence-theorem-mesh", tot, d * VS, rtol=1e-9 if mc.straight else 1e-7,
                  scale=d * VS + float(np.abs(xo).max()) * float(fbo.dx.sum()), mech=f"div-oriented-facet-set:{mname}:{kind}",
                  mesh=cname, geom=geom, cells=int(S.size), desc=mc.desc)
        ctx.reached("oriented-facet-set")
    # FacetBasis.normals and dx against own geometry on a few facets
    bf = fb.find
    for j in rng.permutation(len(bf))[:4]:
        f = int(bf[j])
        c = int(f2t[0, f])
        slot = int(np.nonzero(t2f[:, c] == f)[0][0])
        meas, av, flux, xo, no = own_facet_measure_and_normal(own, kind, rd, c, slot, nq=10)
        ctx.close("facetbasis-normals-dx", float(fb.dx[j].sum()), meas, rtol=1e-9, scale=meas,
                  mech=f"fb-dx:{mname}:{kind}", facet=f, mesh=cname, geom=geom)
        ctx.close("facetbasis-normals-dx", float((np.einsum("iq,iq->q", x[:, j], n[:, j]) * fb.dx[j]).sum()), flux,
                  rtol=1e-9, scale=abs(flux) + meas * float(np.abs(x[:, j]).max()),
                  mech=f"fb-flux:{mname}:{kind}", facet=f, mesh=cname, geom=geom)
    ctx.nontrivial(mname, cname, "divergence", geom)


def own_volumes(own, kind, mc):
    d = GEO.REFDIM[kind]
    nt = own.t.shape[1]
    gx, gw = np.polynomial.legendre.leggauss(6)
    gx, gw = 0.5 * gx + 0.5, 0.5 * gw
    if kind in ("line", "quad", "hex"):
        pts = np.array(list(itertools.product(gx, repeat=d))).T
        w = np.array([np.prod(c) for c in itertools.product(gw, repeat=d)])
    elif kind == "tri":
        a, b = np.meshgrid(gx, gx)
        wa, wb = np.meshgrid(gw, gw)
        a, b = a.ravel(), b.ravel()
        pts = np.vstack([a, b * (1 - a)])
        w = (wa * wb).ravel() * (1 - a)
    elif kind == "tet":
        A = np.array(list(itertools.product(gx, repeat=3))).T
        W3 = np.array([np.prod(c) for c in itertools.product(gw, repeat=3)])
        a, b, c = A
        pts = np.vstack([a, b * (1 - a), c * (1 - a) * (1 - b)])
        w = W3 * (1 - a) ** 2 * (1 - b)
    else:
        A = np.array(list(itertools.product(gx, repeat=3))).T
        W3 = np.array([np.prod(c) for c in itertools.product(gw, repeat=3)])
        a, b, c = A
        pts = np.vstack([a, b * (1 - a), c])
        w = W3 * (1 - a)
    det = GEO.det(own.DF(pts, np.arange(nt)))
    return np.abs(det) @ w


# ------------------------------------------------------- affine vs isoparametric
def affine_vs_iso(ctx, k, kind):
    import skfem
    from skfem.mapping import MappingAffine, MappingIsoparametric
    rng = ctx.rng()
    mc = G.first_order(rng, kind)
    mesh = mc.mesh
    if mesh.t.shape[1] > ctx.scale(60, 200):
        raise Skip("mesh-too-large")
    aff = MappingAffine(mesh)
    nt_all = int(mesh.t.shape[1])
    # a mapping built for a subset of the cells (MappingAffine(mesh, tind=S)) is the whole mapping taken at S
    if nt_all >= 3:
        S_ = rng.permutation(nt_all)[:3].astype(np.int32)
        S_[-1] = S_[0]
        affS = MappingAffine(mesh, tind=S_)
        Xs_ = GEO.random_ref_points(rng, kind, 3)
        for meth in ("F", "DF", "invDF", "detDF"):
            ctx.close("subset-spellings-agree", getattr(affS, meth)(Xs_), getattr(aff, meth)(Xs_, S_), rtol=1e-13,
                      scale=float(np.abs(getattr(aff, meth)(Xs_, S_)).max()) + 1e-300, mech=f"mapping-built-for-a-cell-subset:{meth}",
                      mesh=type(mesh).__name__)
        xS = aff.F(Xs_, S_)
        ctx.close("subset-spellings-agree", affS.invF(xS), aff.invF(xS, S_), rtol=1e-12, scale=1.0,
                  mech="mapping-built-for-a-cell-subset:invF", mesh=type(mesh).__name__)
        ctx.reached("mapping-built-for-a-cell-subset")
    iso = MappingIsoparametric(mesh, mesh.elem(), mesh.bndelem)
    # the affine flag flipped with dataclasses.replace gives the other implementation through mesh.mapping()
    from dataclasses import replace
    flipped = replace(mesh, affine=False)
    ctx.check("affine-flag", type(flipped.mapping()).__name__ == "MappingIsoparametric" and
              type(mesh.mapping()).__name__ == "MappingAffine", mech="affine-flag", mesh=type(mesh).__name__)
    ctx.reached("affine-flag-flipped")
    iso2 = flipped.mapping()
    nt = mesh.t.shape[1]
    nf = mesh.facets.shape[1]
    d = GEO.REFDIM[kind]
    h = float(np.abs(np.asarray(mesh.p)).max()) + 1e-300
    for sname, tind, cells in tind_spellings(rng, nt, ctx):
        for percell in (False, True):
            X = (np.stack([GEO.random_ref_points(rng, kind, 3) for _ in cells], axis=1) if percell
                 else GEO.random_ref_points(rng, kind, 3))
            tag = dict(kind=kind, tind=sname, percell=percell, desc=mc.desc)
            for meth in ("F", "DF", "invDF", "detDF"):
                a = getattr(aff, meth)(X, tind)
                for other in (iso, iso2):
                    b = getattr(other, meth)(X, tind)
                    ctx.close("affine-equals-isoparametric", np.broadcast_to(a, np.broadcast_shapes(a.shape, b.shape)),
                              np.broadcast_to(b, np.broadcast_shapes(a.shape, b.shape)), rtol=1e-11,
                              scale=float(np.abs(b).max()), mech=f"aff-iso:{meth}:{kind}", method=meth, **tag)
            x = aff.F(X, tind)
            ctx.close("affine-equals-isoparametric", aff.invF(x, tind), iso.invF(x, tind), rtol=1e-9, scale=1.0,
                      mech=f"aff-iso:invF:{kind}", method="invF", **tag)
            ctx.nontrivial("affine-vs-iso", kind, sname, percell)
    if d > 1:
        from skfem.quadrature import get_quadrature
        Xb, _ = get_quadrature(mesh.elem.refdom.brefdom, 3)
    else:
        Xb = np.zeros((0, 1))
    sel = rng.permutation(nf)[:min(nf, 6)].astype(np.int32)
    if d == 1:
        # no boundary element exists for segments: MappingIsoparametric has no facet map in 1-D (bndelem None)
        ctx.drop("isoparametric-facet-map-undefined-in-1d")
        return
    for find in (None, sel):
        a, b = aff.G(Xb, find), iso.G(Xb, find)
        ctx.close("affine-equals-isoparametric", a, b, rtol=1e-12, scale=h, mech=f"aff-iso:G:{kind}", method="G")
        if d > 1:
            a, b = aff.detDG(Xb, find), iso.detDG(Xb, find)
            ctx.close("affine-equals-isoparametric", np.abs(a), np.abs(b), rtol=1e-11, scale=float(np.abs(b).max()),
                      mech=f"aff-iso:detDG:{kind}", method="detDG")
    # normals for the first neighbours of a few facets
    t2f, f2t = np.asarray(mesh.t2f), np.asarray(mesh.f2t)
    fs = sel
    cs = f2t[0, fs]
    Y = aff.invF(aff.G(Xb, fs), cs)
    a, b = aff.normals(Y, cs, fs, t2f), iso.normals(Y, cs, fs, t2f)
    ctx.close("affine-equals-isoparametric", a, b, rtol=1e-11, scale=1.0, mech=f"aff-iso:normals:{kind}", method="normals")


UNIT_EXPONENTS = (-60, -40, -20, 20, 40, 60)


def unit_laws(ctx, k, kind):
    from dataclasses import replace
    """The statement holds for every mesh, in whatever unit its coordinates are given: nanometres and light-years in metres.
    Scaling all coordinates by a power of two is exact in floating point, so every delivered quantity must follow its
    scaling law to rounding: F, G ~ u, DF ~ u, invDF ~ 1/u, detDF ~ u^d, detDG ~ u^(d-1), normals and invF unchanged
    (unit normals stay unit, the boundary integral of x.n stays d times the volume)."""
    rng = ctx.rng()
    mc, geom = make_case(ctx, rng, kind, k)
    mesh = mc.mesh
    d = GEO.REFDIM[kind]
    nt = mesh.t.shape[1]
    m0 = mesh.mapping()
    mname, cname = type(m0).__name__, type(mesh).__name__
    X = GEO.random_ref_points(rng, kind, 5)
    cells = rng.permutation(nt)[:min(nt, 6)].astype(np.int32)
    base = {"F": m0.F(X, cells), "DF": m0.DF(X, cells), "invDF": m0.invDF(X, cells), "detDF": m0.detDF(X, cells)}
    law = {"F": 1, "DF": 1, "invDF": -1, "detDF": d}
    facets = kind != "wedge"
    if facets:
        brd = mesh.elem.refdom.brefdom
        Xb, Wb = ref_facet_rule(brd, d, nq=3)
        f2t, t2f = np.asarray(mesh.f2t), np.asarray(mesh.t2f)
        fs = rng.permutation(mesh.facets.shape[1])[:min(mesh.facets.shape[1], 6)].astype(np.int32)
        cs = f2t[0, fs].astype(np.int32)
        base["G"] = m0.G(Xb, fs)
        base["detDG"] = m0.detDG(Xb, fs)
        Y0 = m0.invF(base["G"], cs)
        base["normals"] = m0.normals(Y0, cs, fs, t2f)
        law.update({"G": 1, "detDG": d - 1, "normals": 0})
    for e in UNIT_EXPONENTS:
        u = 2.0 ** e
        mu = replace(mesh, doflocs=np.asarray(mesh.doflocs) * u)
        tag = dict(mesh=cname, mapping=mname, geom=geom, unit=f"2^{e}", desc=mc.desc)
        try:
            mp = mu.mapping()
            got = {"F": mp.F(X, cells), "DF": mp.DF(X, cells), "invDF": mp.invDF(X, cells), "detDF": mp.detDF(X, cells)}
            if facets:
                got["G"] = mp.G(Xb, fs)
                got["detDG"] = mp.detDG(Xb, fs)
                Y = mp.invF(got["G"], cs)
                got["normals"] = mp.normals(Y, cs, fs, t2f)
                ctx.close("invF-F-identity", Y, Y0, rtol=1e-8, scale=1.0, mech=f"unit-law:invF:{mname}", **tag)
            Xback = mp.invF(got["F"], cells)
            ctx.close("invF-F-identity", Xback, np.broadcast_to(X[:, None, :], Xback.shape), rtol=1e-8, scale=1.0,
                      mech=f"unit-law:invF:{mname}", **tag)
        except Exception as ex:
            ctx.check("unit-scaling-law", False, mech=f"mapping-raises-in-other-units:{mname}", error=repr(ex)[:200], **tag)
            continue
        for name, b in base.items():
            ref = np.asarray(b) * u ** law[name]
            ctx.close("unit-scaling-law", got[name], ref, rtol=1e-10 if name != "normals" else 1e-9,
                      scale=float(np.abs(ref).max()) + 1e-300, mech=f"unit-law:{name}:{mname}", quantity=name, **tag)
        if facets:
            ctx.close("normal-unit", np.linalg.norm(got["normals"], axis=0), np.ones(got["normals"].shape[1:]), rtol=1e-12,
                      scale=1.0, mech=f"normal-unit:{mname}", **tag)
    ctx.reached("mesh-in-large-units")
    ctx.reached("unit-scaling-laws")
    ctx.nontrivial(cname, mname, geom)


def fam(fn, kind):
    return lambda ctx, k: fn(ctx, k, kind)


FAMILIES = []
for kd, q, th in (("line", 6, 120), ("tri", 12, 400), ("quad", 12, 400), ("tet", 8, 240), ("hex", 8, 200), ("wedge", 4, 60)):
    FAMILIES.append(Family("cell-maps-" + kd, fam(cell_maps, kd), q, th))
for kd, q, th in (("line", 4, 80), ("tri", 10, 320), ("quad", 10, 320), ("tet", 6, 200), ("hex", 6, 160)):
    FAMILIES.append(Family("facet-maps-" + kd, fam(facet_maps, kd), q, th))
    FAMILIES.append(Family("divergence-" + kd, fam(divergence, kd), q, th))
for kd, q, th in (("line", 4, 80), ("tri", 8, 240), ("tet", 6, 160)):
    FAMILIES.append(Family("affine-vs-iso-" + kd, fam(affine_vs_iso, kd), q, th))

for kd, q, th in (("line", 3, 40), ("tri", 6, 120), ("quad", 6, 120), ("tet", 5, 100), ("hex", 5, 80), ("wedge", 2, 30)):
    FAMILIES.append(Family("units-" + kd, fam(unit_laws, kd), q, th))

SUITE = True   # thorough tier also runs the repository suite with this oracle attached (rv/suite_monitors.py)
