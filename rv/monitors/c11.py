"""C11 Derived mesh connectivity is coherent with the cell list.

Oracle: rv.refmodel.topology (dictionary from sorted vertex tuples, plain loops) against
facets/edges/t2f/t2e/f2t/f2e/boundary_*/interior_*/incidence matrices of the real mesh.
"""
from __future__ import annotations

import itertools

import numpy as np

from ..engine import Family, Skip
from ..gen import meshes as G
from ..refmodel import topology as T

PID = "C11"
RULE = ("random meshes of all six cell kinds (Delaunay/jittered/tensor/sheared/distorted/extruded, holes, several "
        "components, renumbered vertices, permuted cells, admissible local vertex orders), second-order classes and "
        "the meshes under docs/examples/meshes; each is checked slot by slot against a dictionary topology built "
        "by plain loops; distinct key = (mesh class, #components, has-hole, numbering transform, style); "
        "non-trivial iff the mesh has both interior and boundary facets")
TRACK = ["skfem.mesh.mesh:Mesh.build_entities", "skfem.mesh.mesh:Mesh.build_inverse",
         "skfem.mesh.mesh:Mesh.boundary_facets", "skfem.mesh.mesh:Mesh.boundary_nodes",
         "skfem.mesh.mesh:Mesh.interior_nodes", "skfem.mesh.mesh_3d:Mesh3D.boundary_edges",
         "skfem.mesh.mesh_3d:Mesh3D.interior_edges", "skfem.mesh.mesh_hex_1:MeshHex1._init_facets"]
REQUIRED_MONITORS = ["facets-unique-and-complete", "t2f-slotwise", "f2t-neighbours", "boundary-facets",
                     "boundary-nodes", "interior-boundary-partition", "incidence-matrices", "t2e-slotwise",
                     "f2e-slotwise", "boundary-edges", "hex-facet-cyclic", "renumbering-invariance",
                     "local-tables-are-true-faces"]


def wedge_start_vertex_mismatch(t, topo):
    """Predicate of the recorded finding: some triangular facet shared by two prisms is listed from a
    different start vertex (the one the padded 4-tuple repeats) by its two cells."""
    for key, cs in topo.facet_cells.items():
        if len(key) == 3 and len(cs) == 2:
            starts = {int(t[0 if s == 3 else 3, c]) for c, s in cs}
            if len(starts) > 1:
                return True
    return False


def check_mesh(ctx, mesh, kind, tag):
    rd = mesh.elem.refdom
    nvl = rd.nnodes
    t = np.asarray(mesh.t)[:nvl]
    topo = T.Topology(t, rd.facets, rd.edges)
    if kind == "wedge" and wedge_start_vertex_mismatch(t, topo):
        # (formerly a recorded finding with a restricted evaluation; the library's tables are start-vertex
        # independent now, so these meshes get the full set of clauses)
        ctx.reached("wedge-shifted-local-order")
    probs = T.validate_local_tables(rd)
    ctx.check("local-tables-are-true-faces", not probs, mech=f"local-table:{rd.__name__}", problems=probs)

    facets = np.asarray(mesh.facets)
    nf = facets.shape[1]
    fkeys = [tuple(sorted({int(v) for v in facets[:, f]})) for f in range(nf)]
    ctx.check("facets-unique-and-complete",
              len(set(fkeys)) == nf and set(fkeys) == set(topo.facet_cells),
              mech=f"facets:{kind}", kind=kind, case=tag, nf=nf, expected=len(topo.facet_cells))
    index_of = {k: i for i, k in enumerate(fkeys)}

    t2f = np.asarray(mesh.t2f)
    ok = t2f.shape == (len(rd.facets), topo.nt)
    bad = None
    if ok:
        for c in range(topo.nt):
            for s in range(t2f.shape[0]):
                if fkeys[t2f[s, c]] != topo.cell_facets[c][s]:
                    ok, bad = False, (c, s, fkeys[t2f[s, c]], topo.cell_facets[c][s])
                    break
            if not ok:
                break
    ctx.check("t2f-slotwise", ok, mech=f"t2f:{kind}", kind=kind, case=tag, first_bad=bad, shape=t2f.shape)

    f2t = np.asarray(mesh.f2t)
    ok = f2t.shape == (2, nf)
    bad = None
    if ok:
        for f in range(nf):
            cells = sorted({c for c, _ in topo.facet_cells.get(fkeys[f], [])})
            got = [int(f2t[0, f]), int(f2t[1, f])]
            if len(cells) == 1:
                good = got[0] == cells[0] and got[1] == -1
            elif len(cells) == 2:
                good = sorted(got) == cells and got[0] != got[1]
            else:
                good = True  # non-manifold: outside the statement (not generated)
                ctx.drop("non-manifold-facet")
            if not good:
                ok, bad = False, (f, got, cells)
                break
    ctx.check("f2t-neighbours", ok, mech=f"f2t:{kind}", kind=kind, case=tag, first_bad=bad)

    bkeys = topo.boundary_facet_keys()
    bf = np.asarray(mesh.boundary_facets())
    ctx.check("boundary-facets", len(set(bf.tolist())) == bf.size and {fkeys[i] for i in bf} == bkeys,
              mech=f"boundary_facets:{kind}", kind=kind, case=tag, got=bf.size, expected=len(bkeys))
    bn = np.asarray(mesh.boundary_nodes())
    ctx.check("boundary-nodes", set(bn.tolist()) == topo.boundary_vertices() and len(set(bn.tolist())) == bn.size,
              mech=f"boundary_nodes:{kind}", kind=kind, case=tag)
    inn = np.asarray(mesh.interior_nodes())
    allv = topo.vertices()
    inn_v = set(inn.tolist()) & allv
    ctx.check("interior-boundary-partition",
              inn_v == allv - topo.boundary_vertices() and not (set(inn.tolist()) & set(bn.tolist()))
              and set(inn.tolist()) | set(bn.tolist()) == set(range(mesh.p.shape[1])),
              mech=f"interior_nodes:{kind}", kind=kind, case=tag)
    if hasattr(mesh, "interior_facets"):
        itf = np.asarray(mesh.interior_facets())
        ctx.check("interior-boundary-partition",
                  {fkeys[i] for i in itf} == topo.interior_facet_keys()
                  and set(itf.tolist()) | set(bf.tolist()) == set(range(nf)) and not set(itf.tolist()) & set(bf.tolist()),
                  mech=f"interior_facets:{kind}", kind=kind, case=tag)

    # incidence matrices
    nvert = int(np.max(t)) + 1
    p2f = mesh.p2f
    ref = np.zeros((nf, nvert), dtype=int)
    for f, k in enumerate(fkeys):
        for v in k:
            ref[f, v] = 1
    raw = np.asarray(p2f.toarray())
    got = (raw != 0).astype(int)
    # entries are exactly 0/1 (an entity counted twice is a wrong table); the padded triangular facets of prisms repeat
    # one vertex, so the value 2 is what the table honestly says there
    ctx.check("incidence-matrices", set(np.unique(raw).tolist()) <= ({0, 1, 2} if kind == "wedge" else {0, 1}),
              mech=f"p2f-values:{kind}", values=np.unique(raw).tolist(), kind=kind, case=tag)
    ctx.check("incidence-matrices", got.shape == ref.shape and np.array_equal(got, ref), mech=f"p2f:{kind}",
              kind=kind, case=tag)
    p2t = mesh.p2t
    ref = np.zeros((topo.nt, nvert), dtype=int)
    for c in range(topo.nt):
        ref[c, t[:, c]] = 1
    ctx.check("incidence-matrices", np.array_equal(p2t.toarray(), ref), mech=f"p2t:{kind}", kind=kind, case=tag)

    if rd.edges is not None:
        edges = np.asarray(mesh.edges)
        ne = edges.shape[1]
        ekeys = [tuple(sorted({int(v) for v in edges[:, e]})) for e in range(ne)]
        ctx.check("facets-unique-and-complete", len(set(ekeys)) == ne and set(ekeys) == set(topo.edge_cells),
                  mech=f"edges:{kind}", kind=kind, case=tag)
        t2e = np.asarray(mesh.t2e)
        ok = t2e.shape == (len(rd.edges), topo.nt)
        bad = None
        if ok:
            for c in range(topo.nt):
                for s in range(t2e.shape[0]):
                    if ekeys[t2e[s, c]] != topo.cell_edges[c][s]:
                        ok, bad = False, (c, s)
                        break
                if not ok:
                    break
        ctx.check("t2e-slotwise", ok, mech=f"t2e:{kind}", kind=kind, case=tag, first_bad=bad)
        # boundary / interior edges
        try:
            be = np.asarray(mesh.boundary_edges())
        except ValueError as e:
            if kind != "wedge":
                raise
            # same mechanism: pairs of consecutive *sorted* facet vertices that are not edges overflow
            # the ravel_multi_index dimensions
            ctx.check("boundary-edges", False, mech="wedge-boundary-edges-from-sorted-quad-facets",
                      kind=kind, case=tag, error=repr(e))
            be = None
        if be is None:
            return topo, fkeys
        ref_be = topo.boundary_edge_keys(None)
        ctx.check("boundary-edges", {ekeys[i] for i in be} == ref_be and len(set(be.tolist())) == be.size,
                  mech=("wedge-boundary-edges-from-sorted-quad-facets" if kind == "wedge"
                        else f"boundary_edges:{kind}"),
                  kind=kind, case=tag, got=be.size, expected=len(ref_be))
        ie = np.asarray(mesh.interior_edges())
        ctx.check("interior-boundary-partition",
                  set(ie.tolist()) | set(be.tolist()) == set(range(ne)) and not set(ie.tolist()) & set(be.tolist()),
                  mech=f"interior_edges:{kind}", kind=kind, case=tag)
        # incidence p2e, e2t
        ref = np.zeros((ne, nvert), dtype=int)
        for e, k in enumerate(ekeys):
            ref[e, list(k)] = 1
        ctx.check("incidence-matrices", np.array_equal(np.asarray(mesh.p2e.toarray()), ref),
                  mech=f"p2e:{kind}", kind=kind, case=tag)
        e2t = mesh.e2t
        ref = np.zeros((topo.nt, ne), dtype=int)
        for e, k in enumerate(ekeys):
            for c, _ in topo.edge_cells[k]:
                ref[c, e] = 1
        ctx.check("incidence-matrices", np.array_equal(np.asarray(e2t.toarray()), ref),
                  mech=f"e2t:{kind}", kind=kind, case=tag)
        # f2e
        if mesh.bndelem is not None:
            f2e = np.asarray(mesh.f2e)
            bfac = mesh.bndelem.refdom.facets
            ok = f2e.shape == (len(bfac), nf)
            bad = None
            if ok:
                for f in range(nf):
                    for s, le in enumerate(bfac):
                        want = tuple(sorted({int(facets[i, f]) for i in le}))
                        if ekeys[f2e[s, f]] != want:
                            ok, bad = False, (f, s, ekeys[f2e[s, f]], want)
                            break
                    if not ok:
                        break
            ctx.check("f2e-slotwise", ok, mech=f"f2e:{kind}", kind=kind, case=tag, first_bad=bad)
            ctx.reached("f2e-checked")
        if kind == "hex":
            ok = True
            for f in range(nf):
                col = [int(v) for v in facets[:, f]]
                for i in range(4):
                    a, b = col[i], col[(i + 1) % 4]
                    if (min(a, b), max(a, b)) not in topo.edge_cells:
                        ok = False
                        break
                if not ok:
                    break
            ctx.check("hex-facet-cyclic", ok, mech="hex-facet-order", case=tag, facet=f)
    return topo, fkeys


def check_wedge_shifted(ctx, mesh, topo, tag):
    """Prism mesh whose shared triangles start at different vertices: only the facet count is
    evaluated (and classified under the recorded mechanism); the remaining tables are derived from it."""
    nf = np.asarray(mesh.facets).shape[1]
    ctx.check("facets-unique-and-complete", nf == len(topo.facet_cells),
              mech="wedge-padded-triangle-facets-depend-on-start-vertex", case=tag, nf=nf,
              expected=len(topo.facet_cells))
    ctx.reached("wedge-shifted-local-order")
    return None, None


def geometric_facets(mesh, fkeys):
    P = mesh.p
    return sorted(tuple(sorted(tuple(P[:, v].tolist()) for v in k)) for k in fkeys)


def gen_case(kind):
    def fn(ctx, k):
        rng = ctx.rng()
        mc = G.first_order(rng, kind, renum=bool(k % 4))
        mesh = mc.mesh
        topo, fkeys = check_mesh(ctx, mesh, kind, mc.desc)
        if kind == "wedge" and k % 5 == 4:
            check_mesh(ctx, G.wedge_mesh(rng, local=True).mesh, kind, {"gen": "wedge", "local_shifts": True})
        ncomp = topo.components()
        nontrivial = bool(topo.boundary_facet_keys()) and bool(topo.interior_facet_keys())
        if nontrivial:
            ctx.nontrivial(type(mesh).__name__, ncomp, bool(mc.desc.get("holes")), bool(mc.desc.get("renumbered")),
                           mc.desc.get("style"))
        if ncomp > 1:
            ctx.reached("several-components")
        # renumbered copy: same relations, same geometric facet multiset
        nvl = G.NVERT[kind]
        p2, t2, _ = G.renumber(rng, np.asarray(mesh.p), np.asarray(mesh.t[:nvl]).astype(np.int64), kind,
                               local=(kind != "wedge"))
        m2 = type(mesh)(p2, t2)
        topo2, fkeys2 = check_mesh(ctx, m2, kind, dict(mc.desc, copy="renumbered"))
        g1, g2 = geometric_facets(mesh, fkeys), geometric_facets(m2, fkeys2)
        ctx.check("renumbering-invariance", g1 == g2, mech=f"renumber-facets:{kind}", kind=kind, case=mc.desc)
        b1 = sorted(tuple(sorted(tuple(mesh.p[:, v].tolist()) for v in fkeys[i])) for i in mesh.boundary_facets())
        b2 = sorted(tuple(sorted(tuple(m2.p[:, v].tolist()) for v in fkeys2[i])) for i in m2.boundary_facets())
        ctx.check("renumbering-invariance", b1 == b2, mech=f"renumber-boundary:{kind}", kind=kind, case=mc.desc)
        ctx.sample({"mesh": type(mesh).__name__, "desc": mc.desc, "nfacets": len(fkeys), "components": ncomp,
                    "boundary_facets": len(topo.boundary_facet_keys())}, per_family=1)
        if kind in ("tri", "quad", "tet", "hex") and k % 3 == 0:
            m2c = G.second_order(rng, mc)
            check_mesh(ctx, m2c.mesh, kind, m2c.desc)
            if nontrivial:
                ctx.nontrivial(type(m2c.mesh).__name__, ncomp, bool(mc.desc.get("holes")), True, mc.desc.get("style"))
    return fn


def _entity_table(t, local):
    """Own vectorised entity table: (sorted vertex tuples of every (slot, cell), unique columns, inverse, counts); 64-bit."""
    t = np.asarray(t).astype(np.int64)
    width = max(len(l) for l in local)
    cols = []
    for l in local:
        v = np.sort(t[list(l)], axis=0)
        if v.shape[0] < width:               # prism: triangles padded by their largest vertex
            v = np.vstack([v, np.repeat(v[-1:], width - v.shape[0], axis=0)])
        cols.append(v)
    allc = np.stack(cols, axis=1)                                # (width, nslots, nt)
    flat = allc.reshape(width, -1)
    uniq, inv, cnt = np.unique(flat, axis=1, return_inverse=True, return_counts=True)
    return allc, uniq, np.asarray(inv).reshape(len(local), -1), cnt


def _canon(cols):
    """Library entity columns as sorted vertex sets padded by the largest vertex (repeated vertices removed first)."""
    c = np.sort(np.asarray(cols).astype(np.int64), axis=0)
    if c.shape[0] == 4:
        # (a,a,b,c) / (a,b,c,c) ... -> distinct vertices first, then padded by the largest
        out = c.copy()
        for j in range(1, 4):
            dup = out[j] == out[j - 1]
            if dup.any():
                out[j:-1, dup] = out[j + 1:, dup]
        c = np.sort(out, axis=0)
    return c


def large_meshes(ctx, k):
    """The statement has no size limit: meshes with more vertices than 2^16 (vertex pairs no longer fit 32-bit products),
    numbered at random.  Dictionary models are too slow here; the oracle is the same definition evaluated with 64-bit
    NumPy sorting (each facet/edge once, slot-wise t2f/t2e, f2t, boundary set)."""
    import skfem
    rng = ctx.rng()
    kind = ("tri", "quad", "tet", "hex")[k % 4]
    if kind == "tri":
        n = int(rng.integers(258, 270))
        mesh = skfem.MeshTri.init_tensor(np.linspace(0, 1, n), np.linspace(0, 1, n + 3))
    elif kind == "quad":
        n = int(rng.integers(258, 270))
        mesh = skfem.MeshQuad.init_tensor(np.linspace(0, 1, n), np.linspace(0, 1, n + 3))
    elif kind == "tet":
        n = int(rng.integers(41, 44))
        mesh = skfem.MeshTet.init_tensor(np.linspace(0, 1, n), np.linspace(0, 1, n), np.linspace(0, 1, n + 1))
    else:
        n = int(rng.integers(41, 44))
        mesh = skfem.MeshHex.init_tensor(np.linspace(0, 1, n), np.linspace(0, 1, n), np.linspace(0, 1, n + 1))
    nv = mesh.p.shape[1]
    perm = rng.permutation(nv)
    p = np.empty_like(np.asarray(mesh.p))
    p[:, perm] = np.asarray(mesh.p)
    t = perm[np.asarray(mesh.t)]
    mesh = type(mesh)(p, t)
    tag = {"kind": kind, "nvertices": int(nv), "ncells": int(t.shape[1]), "numbering": "random"}
    rd = mesh.elem.refdom
    t = np.asarray(mesh.t)
    for what, local, tab, t2x in (("facets", rd.facets, "facets", "t2f"),) + ((("edges", rd.edges, "edges", "t2e"),) if mesh.dim() == 3 else ()):
        allc, uniq, inv, cnt = _entity_table(t, local)
        lib = _canon(getattr(mesh, tab))
        libu = np.unique(lib, axis=1)
        ctx.check("facets-unique-and-complete" if what == "facets" else "edges-unique-and-complete",
                  lib.shape[1] == uniq.shape[1] and libu.shape == uniq.shape and np.array_equal(libu, uniq),
                  mech=f"{what}:large-mesh:{kind}", got=int(lib.shape[1]), distinct=int(libu.shape[1]), expected=int(uniq.shape[1]), **tag)
        tx = np.asarray(getattr(mesh, t2x))
        ok = tx.shape == (len(local), t.shape[1]) and tx.min() >= 0 and tx.max() < lib.shape[1]
        if ok:
            ok = all(np.array_equal(lib[:, tx[s_]], allc[:, s_, :]) for s_ in range(len(local)))
        ctx.check("t2f-slotwise" if what == "facets" else "t2e-slotwise", bool(ok), mech=f"{t2x}:large-mesh:{kind}", **tag)
        if what == "facets" and ok and lib.shape[1] == uniq.shape[1]:
            # number of cells per library facet from the own table
            ncell = np.zeros(lib.shape[1], dtype=np.int64)
            np.add.at(ncell, tx.ravel(), 1)
            f2t = np.asarray(mesh.f2t)
            nf = lib.shape[1]
            good = f2t.shape == (2, nf)
            if good:
                c0, c1 = f2t[0], f2t[1]
                has0 = (tx[:, c0] == np.arange(nf)[None, :]).any(axis=0)
                two = ncell == 2
                has1 = np.ones(nf, dtype=bool)
                has1[two] = (tx[:, c1[two]] == np.arange(nf)[two][None, :]).any(axis=0) & (c1[two] != c0[two]) & (c1[two] >= 0)
                good = bool(has0.all() and has1.all() and (c1[ncell == 1] == -1).all() and (ncell <= 2).all())
            ctx.check("f2t-neighbours", good, mech=f"f2t:large-mesh:{kind}", **tag)
            bf = np.sort(np.asarray(mesh.boundary_facets()))
            ctx.check("boundary-facets", np.array_equal(bf, np.nonzero(ncell == 1)[0]), mech=f"boundary_facets:large-mesh:{kind}",
                      got=int(bf.size), expected=int((ncell == 1).sum()), **tag)
            bn = np.sort(np.asarray(mesh.boundary_nodes()))
            ctx.check("boundary-nodes", np.array_equal(bn, np.unique(getattr(mesh, tab)[:, ncell == 1])),
                      mech=f"boundary_nodes:large-mesh:{kind}", **tag)
    ctx.reached("more-than-2^16-vertices")
    ctx.nontrivial("large", kind)


LAZY = ("facets", "t2f", "f2t", "edges", "t2e", "f2e", "p2f", "p2t", "p2e", "e2t", "boundary_facets()", "boundary_nodes()",
        "interior_nodes()", "boundary_edges()", "interior_edges()")


def variants(ctx, k):
    """Meshes the plain generators do not make: cavities and several components in quadrilateral / hexahedral / prism
    meshes (also cells touching only at a vertex or an edge), triangles kept in the local order given, single-cell
    meshes, points no cell uses; and the lazily built tables asked for in a random first order."""
    import skfem
    rng = ctx.rng()
    which = ("cavity-quad", "cavity-hex", "cavity-wedge", "unsorted-tri", "single-cell", "unused-points", "access-order")[k % 7]
    if which.startswith("cavity"):
        kind = which.split("-")[1]
        for _ in range(20):
            mc = G.first_order(rng, kind)
            p, t = np.asarray(mc.mesh.p), np.asarray(mc.mesh.t).astype(np.int64)
            nt = t.shape[1]
            if nt < 6:
                continue
            drop = rng.random(nt) < rng.uniform(0.15, 0.5)
            drop[rng.integers(nt)] = True
            keep = np.nonzero(~drop)[0]
            if keep.size < 2:
                continue
            p2, t2 = G.clean(p, t[:, keep])
            mesh = type(mc.mesh)(p2, t2)
            topo, _ = check_mesh(ctx, mesh, kind, dict(mc.desc, variant=which, removed=int(drop.sum())))
            if topo.components() > 1:
                ctx.reached("several-components")
            ctx.reached("cavities-in-tensor-type-meshes")
            ctx.nontrivial(type(mesh).__name__, which, topo.components())
            return
        raise Skip("no-mesh-large-enough")
    if which == "unsorted-tri":
        mc = G.tri_mesh(rng)
        p, t = np.asarray(mc.mesh.p), np.asarray(mc.mesh.t).astype(np.int64)
        for c in range(t.shape[1]):
            t[:, c] = t[rng.permutation(3), c]
        mesh = skfem.MeshTri1(p, t, sort_t=False)
        if not np.array_equal(np.asarray(mesh.t), t):
            raise Skip("constructor-resorted")
        check_mesh(ctx, mesh, "tri", dict(mc.desc, variant=which))
        mo = G.tri_mesh(rng).mesh.oriented()
        check_mesh(ctx, mo, "tri", {"gen": "tri", "variant": "oriented()"})
        ctx.reached("triangles-in-given-local-order")
        ctx.nontrivial("MeshTri1", which)
        return
    if which == "single-cell":
        for cls, kind in ((skfem.MeshLine1, "line"), (skfem.MeshTri1, "tri"), (skfem.MeshQuad1, "quad"), (skfem.MeshTet1, "tet"),
                          (skfem.MeshHex1, "hex"), (skfem.MeshWedge1, "wedge")):
            mesh = cls.init_refdom()
            check_mesh(ctx, mesh, kind, {"gen": kind, "variant": "init_refdom"})
        ctx.reached("single-cell-meshes")
        ctx.nontrivial("single-cell")
        return
    if which == "unused-points":
        kind = str(rng.choice(["tri", "quad", "tet", "hex"]))
        mc = G.first_order(rng, kind)
        p, t = np.asarray(mc.mesh.p), np.asarray(mc.mesh.t).astype(np.int64)
        mid = int(rng.integers(1, p.shape[1]))
        p2 = np.hstack([p[:, :mid], p[:, :1] + 17.0, p[:, mid:], p[:, :1] - 23.0])     # one interior, one trailing unused point
        t2 = np.where(t >= mid, t + 1, t)
        mesh = type(mc.mesh)(p2, t2)
        check_mesh(ctx, mesh, kind, dict(mc.desc, variant=which))
        ctx.reached("points-no-cell-uses")
        ctx.nontrivial(type(mesh).__name__, which)
        return
    # access-order: every table read first on a fresh equal mesh equals the table of the reference build
    kind = str(rng.choice(["tri", "quad", "tet", "hex", "wedge"]))
    mc = G.first_order(rng, kind)
    p, t = np.asarray(mc.mesh.p), np.asarray(mc.mesh.t)
    names = [n for n in LAZY if not (("edge" in n or n in ("t2e", "f2e", "p2e", "e2t")) and mc.dim < 3)
             and not (n == "f2e" and kind == "wedge")]        # prisms have no single boundary reference cell: no f2e

    def read(m, n):
        v = getattr(m, n[:-2])() if n.endswith("()") else getattr(m, n)
        return np.asarray(v.toarray()) if hasattr(v, "toarray") else np.asarray(v)
    ref = type(mc.mesh)(p.copy(), t.copy())
    refv = {n: read(ref, n) for n in names}
    for _ in range(3):
        m = type(mc.mesh)(p.copy(), t.copy())
        order = [names[i] for i in rng.permutation(len(names))]
        for n in order:
            v = read(m, n)
            ctx.check("renumbering-invariance", v.shape == refv[n].shape and np.array_equal(v, refv[n]),
                      mech=f"table-depends-on-first-access-order:{n}", first=order[:3], kind=kind)
    ctx.reached("tables-in-random-first-access-order")
    ctx.nontrivial(type(mc.mesh).__name__, which)


def _from_used(cls, src):
    """cls.from_mesh(src) after src's own tables were built (in the local order src keeps its cells in)."""
    _ = (src.facets, src.t2f, src.f2t, src.boundary_facets())
    if src.dim() == 3:
        _ = (src.edges, src.t2e)
    return cls.from_mesh(src)


def after_operations(ctx, k):
    """Connectivity of a mesh re-checked after other public operations were called on it: the cached tables must still
    describe the (unchanged) cell list."""
    rng = ctx.rng()
    kind = ("tri", "tet", "quad", "hex", "line")[k % 5]
    mc = G.first_order(rng, kind)
    mesh = mc.mesh
    if mesh.t.shape[1] > 80:
        mc = G.first_order(ctx.rng("smaller"), kind)
        mesh = mc.mesh
    check_mesh(ctx, mesh, kind, dict(mc.desc, phase="before"))
    t0 = np.array(mesh.t)
    ops = []
    d = mesh.p.shape[0]
    for name, fn in (("oriented", lambda: mesh.oriented()), ("refined", lambda: mesh.refined(1)),
                     ("adaptive", lambda: mesh.refined(np.array([0]))), ("mirrored", lambda: mesh.mirrored(tuple([1.0] + [0.0] * (d - 1)))),
                     ("restrict", lambda: mesh.restrict(np.arange(max(1, mesh.t.shape[1] // 2)))),
                     ("with_boundaries", lambda: mesh.with_boundaries({"b": lambda x: x[0] < np.median(x[0])})),
                     ("smoothed", lambda: mesh.smoothed()), ("scaled", lambda: mesh.scaled(2.0) if d == 1 else mesh.scaled(tuple([2.0] * d))),
                     ("element_finder", lambda: mesh.element_finder()), ("to_dict", lambda: mesh.to_dict()),
                     ("remove_elements", lambda: mesh.remove_elements(np.array([0]))),
                     ("remove_last", lambda: mesh.remove_elements(np.array([mesh.t.shape[1] - 1]))),
                     ("restrict-hole", lambda: mesh.restrict(np.sort(rng.permutation(mesh.t.shape[1])[: max(1, (3 * mesh.t.shape[1]) // 4)]))),
                     ("from_mesh", lambda: type(mesh).from_mesh(mesh)),
                     ("from_mesh-order2", lambda: G.mesh_class(kind, 2).from_mesh(mesh)),
                     ("from_mesh-of-oriented", lambda: _from_used(type(mesh), mesh.oriented())),
                     ("from_mesh-of-adaptive", lambda: _from_used(type(mesh), mesh.refined(np.array([0])))),
                     ("from_mesh-order2-and-back", lambda: _from_used(type(mesh), G.mesh_class(kind, 2).from_mesh(mesh))),
                     ("translated", lambda: mesh.translated(tuple([0.5] * d))),
                     ("with_subdomains", lambda: mesh.with_subdomains({"s": np.arange(max(1, mesh.t.shape[1] // 2))}))):
        if rng.random() < 0.6:
            try:
                out = fn()
                ops.append(name)
            except Exception:
                continue   # an operation the class does not offer
            # the mesh an operation returns is a mesh of the statement as well: its tables describe ITS cell list (not
            # tables inherited from the mesh it was made from, whose were in use)
            import skfem
            if isinstance(out, skfem.Mesh) and out is not mesh and out.t.shape[1] <= 400:
                try:
                    k2 = G.kind_of(out)
                except Exception:
                    continue
                check_mesh(ctx, out, k2, dict(mc.desc, phase="result-of-" + name))
                ctx.reached("result-of-operation-checked")
                ctx.reached("result-checked:" + name.split("-")[0])
    ctx.check("renumbering-invariance", np.array_equal(np.asarray(mesh.t), t0), mech="operation-modifies-cell-list-of-operand",
              ops=ops, kind=kind)
    check_mesh(ctx, mesh, kind, dict(mc.desc, phase="after", ops=ops))
    ctx.reached("rechecked-after-operations")
    ctx.nontrivial(type(mesh).__name__, "after-operations", tuple(ops[:3]))


def periodic_mesh(rng, kind):
    """Discontinuous/periodic topologies (Mesh*DG.init_tensor(periodic=...)): the cell list identifies opposite
    boundary vertices; the geometry lives in the DG geometry element and is not used by the index oracles."""
    import skfem
    def ax(n):
        # at least two cells along every direction: with a single cell the cell would lie on both identified sides,
        # which the library refuses (ValueError "part of two periodic boundaries")
        while True:
            a = np.unique(np.concatenate([[0.0, 1.0], G.dyadic(rng, n, bits=5)]))
            if a.size >= 3:
                return a
    if kind == "line":
        return skfem.MeshLine1DG.init_tensor(ax(int(rng.integers(2, 6))), periodic=[0])
    if kind == "tri":
        per = [[0], [1], [0, 1]][int(rng.integers(3))]
        return skfem.MeshTri1DG.init_tensor(ax(int(rng.integers(2, 5))), ax(int(rng.integers(2, 5))), periodic=per)
    if kind == "quad":
        per = [[0], [1], [0, 1]][int(rng.integers(3))]
        return skfem.MeshQuad1DG.init_tensor(ax(int(rng.integers(2, 5))), ax(int(rng.integers(2, 5))), periodic=per)
    per = [[0], [2], [0, 1], [0, 1, 2]][int(rng.integers(4))]
    return skfem.MeshHex1DG.init_tensor(ax(2), ax(2), ax(int(rng.integers(2, 4))), periodic=per)


def periodic_case(ctx, k):
    rng = ctx.rng()
    kind = ("line", "tri", "quad", "hex")[k % 4]
    mesh = periodic_mesh(rng, kind)
    topo, fkeys = check_mesh(ctx, mesh, kind, {"gen": "periodic", "class": type(mesh).__name__})
    ctx.reached("periodic-topology")
    if topo is not None and topo.interior_facet_keys():
        ctx.nontrivial(type(mesh).__name__, "periodic", len(topo.boundary_facet_keys()) == 0)


def docs_meshes(ctx, k):
    import glob
    import os
    import skfem
    from ..engine import REPO
    files = sorted(glob.glob(os.path.join(REPO, G.DOCS_MESHES, "*")))
    loaded = 0
    for f in files:
        if f.endswith((".json",)):
            try:
                m = skfem.Mesh.load(f) if False else skfem.io.json.from_file(f)
            except Exception:
                ctx.drop("docs-mesh-unreadable")
                continue
        else:
            try:
                m = skfem.Mesh.load(f)
            except Exception:
                ctx.drop("docs-mesh-unreadable")
                continue
        try:
            kind = G.kind_of(m)
        except ValueError:
            ctx.drop("docs-mesh-unknown-kind")
            continue
        if m.t.shape[1] > 6000:
            ctx.drop("docs-mesh-too-large")
            continue
        topo, _ = check_mesh(ctx, m, kind, os.path.basename(f))
        loaded += 1
        ctx.nontrivial(type(m).__name__, "docs", os.path.basename(f))
    ctx.reached("docs-meshes-loaded", loaded)


SUITE = True   # thorough tier also runs the repository suite with this oracle attached (rv/suite_monitors.py)
FAMILIES = [Family("gen-" + kd, gen_case(kd), quick=q, thorough=th)
            for kd, q, th in (("line", 20, 400), ("tri", 40, 1600), ("quad", 30, 1200), ("tet", 24, 800),
                              ("hex", 20, 640), ("wedge", 14, 480))]
FAMILIES.append(Family("after-operations", after_operations, 30, 900))
FAMILIES.append(Family("periodic", periodic_case, 16, 320))
FAMILIES.append(Family("variants", variants, 28, 840))
FAMILIES.append(Family("large-meshes", large_meshes, 4, 16, budget={"quick": 120, "thorough": 600}))
FAMILIES.append(Family("docs-meshes", docs_meshes, 1, 1, budget={"quick": 60, "thorough": 120}))
REQUIRED_REACH = ["several-components", "f2e-checked", "docs-meshes-loaded", "rechecked-after-operations", "periodic-topology",
                  "cavities-in-tensor-type-meshes", "triangles-in-given-local-order", "single-cell-meshes", "points-no-cell-uses",
                  "tables-in-random-first-access-order", "wedge-shifted-local-order", "more-than-2^16-vertices", "result-of-operation-checked",
                  "result-checked:from_mesh", "result-checked:restrict", "result-checked:oriented"]
