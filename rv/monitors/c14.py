"""C14 Point location and point evaluation of discrete functions are exact.

Oracle for location: exact rational point-in-convex-cell test (supporting planes/lines of the cell's
faces, orientation from the exact centroid) on the double-valued query point and vertices.
 (i)  a point contained (exactly) in some cell: the finder must return a cell, and the returned cell must
      contain the point up to 1e-9*h;
 (ii) a point whose distance to every cell is clearly positive (constructed: outside the bounding box by a
      margin, or the centroid of a removed cell): the finder must raise;
 points in between are not judged (counted).
Oracle for evaluation: the located cell's local expansion evaluated through elem.gbasis at the pulled-back
point with own scatter; probes at the basis' own quadrature points against interpolate().
Memory layouts (family query-layouts): blocks of pairwise distinct points (d, n1, ..., nk), pairwise different extents, in
every memory layout of the same array (C / Fortran order, transposed and axis-permuted views, strided slices, negative
strides, broadcast views, swapped byte order, read-only, unaligned) for every ndim the entry point offers: the answer belongs
to the point by index.  References: the local expansion on the cell the point was generated in (no finder involved) and the
interpolator asked for one point at a time; for the quadrature block interpolate().
"""
from __future__ import annotations

from fractions import Fraction

import numpy as np

from ..engine import Family, Skip
from ..gen import elements as EL
from ..gen import meshes as G
from ..refmodel import geometry as GEO
from .. import exact as X

PID = "C14"
RULE = ("random first-order meshes with convex cells (segments, triangles, quadrilaterals, tetrahedra, planar-faced "
        "hexahedra, prisms; graded, anisotropic, non-convex domains, holes, several components, large offsets) x point "
        "classes (all vertices, midpoints of interior/boundary facets and edges, random interior points, points in holes, "
        "points outside the bounding box) x registry elements (scalar, vector, tensor valued); distinct key = (mesh class, "
        "point class, element record, outcome); non-trivial iff the point is not a centroid-nearest trivial hit "
        "(on a facet/vertex shared by >= 2 cells, or the finder's exhaustive fallback ran, or the point is outside); "
        "query-layouts: blocks of distinct points with pairwise different trailing extents (ndim 2..5) x memory layouts of "
        "the query array (C, Fortran, transposed / axis-permuted views, strided, negative strides, broadcast, swapped byte "
        "order, read-only, unaligned) x interpolator / probes / finder / point_source, judged by index; distinct key = "
        "(mesh class, layout, ndim)")
TRACK = ["skfem.mesh.mesh_tri_1:MeshTri1.element_finder", "skfem.mesh.mesh_tet_1:MeshTet1.element_finder",
         "skfem.mesh.mesh_line_1:MeshLine1.element_finder", "skfem.mesh.mesh_quad_1:MeshQuad1.element_finder",
         "skfem.mesh.mesh_hex_1:MeshHex1.element_finder", "skfem.mesh.mesh_wedge_1:MeshWedge1.element_finder",
         "skfem.assembly.basis.cell_basis:CellBasis.probes", "skfem.assembly.basis.cell_basis:CellBasis.interpolator",
         "skfem.assembly.basis.cell_basis:CellBasis.point_source"]
REQUIRED_MONITORS = ["inside-point-is-located", "located-cell-contains-point", "outside-point-raises",
                     "probes-equal-local-expansion", "probes-at-quadrature-equal-interpolate", "point-source-row",
                     "interpolator-shapes", "repeated-permuted-points", "one-point-at-a-time", "query-layout-by-index",
                     "finder-layout-by-index"]
REQUIRED_REACH = ["point:vertex", "point:facet", "point:interior", "point:hole", "point:outside-box",
                  "finder-fallback-search-all", "vector-valued-element", "tensor-valued-element", "coefficient-dtypes",
                  "single-point-sequence", "query-array-updated-in-place", "more-than-2^14-points", "offset-along-one-axis",
                  "restricted-basis-probed", "restricted-basis-cells-in-other-orders", "batch-with-one-outside-point", "global-element-probed",
                  "query-array-forms", "points-on-simplex-split-loci",
                  "layout-ndim:2", "layout-ndim:3", "layout-ndim:4", "layout-ndim:5", "layout:fortran-order-with-trailing-axes",
                  "layout:fortran-contiguous", "layout:transposed-view", "layout:component-axis-last-in-memory",
                  "layout:axes-permuted-in-memory", "layout:strided-slice", "layout:negative-strides", "layout:broadcast-view",
                  "layout:non-native-byte-order", "layout:unaligned", "fortran-order-permutation-would-be-noticed",
                  "finder-accepts-shaped-coordinates", "point-source-layouts", "quadrature-block-layouts"]

F = Fraction


def cell_planes(mesh, kind, c):
    """Exact supporting planes (normal, offset, inner sign) of cell c; None if a face is not planar."""
    rd = mesh.elem.refdom
    d = mesh.p.shape[0]
    verts = [X.frv(mesh.p[:, v]) for v in mesh.t[:, c]]
    cen = [sum(v[i] for v in verts) / len(verts) for i in range(d)]
    planes = []
    for lf in rd.facets:
        fv = [verts[i] for i in dict.fromkeys(lf)]
        if d == 1:
            n = [F(1)]
        elif d == 2:
            tx, ty = fv[1][0] - fv[0][0], fv[1][1] - fv[0][1]
            n = [ty, -tx]
        else:
            a = [fv[1][i] - fv[0][i] for i in range(3)]
            b = [fv[2][i] - fv[0][i] for i in range(3)]
            n = [a[1] * b[2] - a[2] * b[1], a[2] * b[0] - a[0] * b[2], a[0] * b[1] - a[1] * b[0]]
            for w in fv[3:]:
                if sum(n[i] * (w[i] - fv[0][i]) for i in range(3)) != 0:
                    return None
        off = sum(n[i] * fv[0][i] for i in range(d))
        s = sum(n[i] * cen[i] for i in range(d)) - off
        if s == 0:
            return None
        planes.append((n, off, 1 if s > 0 else -1))
    return planes


class ExactLocator:
    def __init__(self, mesh, kind):
        self.mesh = mesh
        self.kind = kind
        self.nt = mesh.t.shape[1]
        self.planes = [cell_planes(mesh, kind, c) for c in range(self.nt)]
        self.ok = all(p is not None for p in self.planes)
        P = np.asarray(mesh.p)
        T = np.asarray(mesh.t)
        self.lo = P[:, T].min(axis=1)
        self.hi = P[:, T].max(axis=1)
        # float planes for the tolerance test of the returned cell
        self.fplanes = [None if pl is None else [(np.array([float(x) for x in n]), float(off), s) for n, off, s in pl]
                        for pl in self.planes]

    def containing(self, x):
        """Cells that contain the double-valued point exactly (closed cells)."""
        xf = np.asarray(x, dtype=float)
        cand = np.nonzero(((self.lo <= xf[:, None]) & (self.hi >= xf[:, None])).all(axis=0))[0]
        xq = X.frv(xf)
        out = []
        for c in cand:
            inside = True
            for n, off, s in self.planes[c]:
                v = sum(n[i] * xq[i] for i in range(len(xq))) - off
                if v * s < 0:
                    inside = False
                    break
            if inside:
                out.append(int(c))
        return out

    def near(self, x, tol):
        """Cells whose closed set is within the absolute distance `tol` of the point (every bounding plane violated by
        at most tol; exact evaluation of the plane functions)."""
        xf = np.asarray(x, dtype=float)
        cand = np.nonzero(((self.lo - tol <= xf[:, None]) & (self.hi + tol >= xf[:, None])).all(axis=0))[0]
        xq = X.frv(xf)
        out = []
        for c in cand:
            ok = True
            for (n, off, s), (nf, _, _) in zip(self.planes[c], self.fplanes[c]):
                v = sum(n[i] * xq[i] for i in range(len(xq))) - off
                if float(v * s) < -tol * float(np.linalg.norm(nf)):
                    ok = False
                    break
            if ok:
                out.append(int(c))
        return out

    def violation(self, c, x, h):
        """How far (relative to h) the point is outside cell c (0 if inside), float evaluation."""
        worst = 0.0
        for n, off, s in self.fplanes[c]:
            v = (n @ np.asarray(x) - off) * s / (np.linalg.norm(n) * h)
            worst = max(worst, -v)
        return worst


def graded_mesh(rng, kind):
    """One huge cell row next to many tiny ones (ratio 2^8): points of the huge cells close to the tiny ones are not
    among the nearest centroids, so the finder's exhaustive fallback has to run."""
    import skfem
    n = int(rng.integers(6, 12))
    fine = 1.0 + np.arange(n + 1) * 2.0 ** -8
    x = np.concatenate([[0.0], fine])
    y = np.concatenate([[0.0], 1.0 + np.arange(4) * 2.0 ** -8]) if rng.random() < 0.5 else np.array([0.0, 0.5, 1.0])
    if kind == "tri":
        m = skfem.MeshTri1.init_tensor(x, y)
    elif kind == "quad":
        m = skfem.MeshQuad1.init_tensor(x, y)
    elif kind == "tet":
        m = skfem.MeshTet1.init_tensor(x, y, np.array([0.0, 1.0]))
    else:
        m = skfem.MeshHex1.init_tensor(x, y, np.array([0.0, 1.0]))
    p, t, _ = G.renumber(rng, np.asarray(m.p), np.asarray(m.t).astype(np.int64), kind)
    return G.MeshCase(type(m)(p, t), kind, 1, {"gen": kind, "style": "graded-2^8", "ncells": int(t.shape[1])})


def gen_mesh(ctx, rng, kind, k):
    if k % 5 == 2 and kind in ("tri", "quad", "tet", "hex"):
        return graded_mesh(rng, kind)
    if kind == "hex":
        mc = G.hex_mesh(rng, style=str(rng.choice(["tensor", "parallelepiped", "extruded"])))
    else:
        mc = G.first_order(rng, kind)
    tries = 0
    while mc.mesh.t.shape[1] > ctx.scale(70, 250) and tries < 6:
        tries += 1
        mc = (G.hex_mesh(ctx.rng("again", tries), style="tensor") if kind == "hex" else G.first_order(ctx.rng("again", tries), kind))
    mesh = mc.mesh
    # large offsets / scalings stress absolute tolerances (every 4th case)
    if k % 4 == 3 or (k % 4 == 1 and kind in ("tet", "hex", "wedge")):
        off = rng.integers(-1000, 1001, size=(mesh.p.shape[0], 1)).astype(float)
        if rng.random() < 0.5:
            # far from the origin along one axis only (an elevation, a northing)
            ax = int(rng.integers(mesh.p.shape[0])) if rng.random() < 0.4 else mesh.p.shape[0] - 1
            off = np.zeros((mesh.p.shape[0], 1))
            off[ax] = float(rng.choice([-1.0, 1.0]) * rng.integers(1000, 6000)) + 0.5
            ctx.reached("offset-along-one-axis")
        p = np.asarray(mesh.p) * float(2.0 ** rng.integers(-8, 9)) + off
        mesh = type(mesh)(p, np.asarray(mesh.t))
        mc = G.MeshCase(mesh, kind, 1, dict(mc.desc, offset=True), affine_cells=mc.affine_cells, planar_faces=mc.planar_faces)
    return mc


def query_points(ctx, rng, mesh, kind, loc):
    """List of (class, point ndarray)."""
    P, T = np.asarray(mesh.p), np.asarray(mesh.t)
    d = P.shape[0]
    pts = []
    nv = P.shape[1]
    for v in rng.permutation(nv)[:ctx.scale(25, 60)]:
        pts.append(("vertex", P[:, v].copy()))
    fac = np.asarray(mesh.facets)
    nf = fac.shape[1]
    for f in rng.permutation(nf)[:ctx.scale(25, 60)]:
        vs = list(dict.fromkeys(int(v) for v in fac[:, f]))
        if d == 1:
            continue
        w = rng.dirichlet(np.ones(len(vs))) if rng.random() < 0.5 else np.ones(len(vs)) / len(vs)
        if len(vs) == 4:  # planar quadrilateral face: stay inside with a bilinear combination
            a, b = rng.uniform(0.1, 0.9, 2)
            w = np.array([(1 - a) * (1 - b), a * (1 - b), a * b, (1 - a) * b])
        pts.append(("facet", P[:, vs] @ w))
    if d == 3 and mesh.edges is not None:
        ed = np.asarray(mesh.edges)
        for e in rng.permutation(ed.shape[1])[:ctx.scale(10, 30)]:
            s = rng.choice([0.5, 0.25, rng.uniform(0.05, 0.95)])
            pts.append(("facet", P[:, ed[0, e]] * (1 - s) + P[:, ed[1, e]] * s))
    for c in rng.permutation(T.shape[1])[:ctx.scale(25, 60)]:
        Xr = GEO.random_ref_points(rng, kind, 1)
        pts.append(("interior", GEO.map_points(kind, P, T, Xr, np.array([c]))[:, 0, 0]))
    return pts


def outside_points(ctx, rng, mesh, kind, mc, loc):
    P, T = np.asarray(mesh.p), np.asarray(mesh.t)
    d = P.shape[0]
    lo, hi = P.min(axis=1), P.max(axis=1)
    span = (hi - lo).max()
    out = []
    for _ in range(ctx.scale(6, 12)):
        x = lo + rng.uniform(0, 1, d) * (hi - lo)
        i = int(rng.integers(d))
        x[i] = (hi[i] + span * rng.choice([1e-3, 0.1, 3.0])) if rng.random() < 0.5 else (lo[i] - span * rng.choice([1e-3, 0.1, 3.0]))
        out.append(("outside-box", x))
    return out


def one_mesh(ctx, k, kind):
    import skfem
    rng = ctx.rng()
    mc = gen_mesh(ctx, rng, kind, k)
    mesh = mc.mesh
    loc = ExactLocator(mesh, kind)
    if not loc.ok:
        raise Skip("cell-with-nonplanar-face")
    P, T = np.asarray(mesh.p), np.asarray(mesh.t)
    d = P.shape[0]
    h = float((loc.hi - loc.lo).max())  # largest cell extent
    hcell = (loc.hi - loc.lo).max(axis=0)
    finder = mesh.element_finder()
    pts = query_points(ctx, rng, mesh, kind, loc) + outside_points(ctx, rng, mesh, kind, mc, loc)
    # hole points: centroids of removed cells (regenerate the same mesh without the hole is not available; use cells
    # of the convex hull complement: centroid of a cell of a *coarser neighbour construction* -> use explicit holes)
    hole_pts = hole_points(ctx, rng, mesh, kind, loc)
    pts += hole_pts
    tag = dict(mesh=type(mesh).__name__, desc=mc.desc)
    for cls, x in pts:
        ctx.reached("point:" + cls)
        cont = loc.containing(x)
        # was the KD-tree candidate list enough?  (reach point only; computed from the harness' side)
        try:
            c = finder(*[np.array([xi]) for xi in x])
            raised = None
        except (ValueError, IndexError) as e:  # "raises instead of returning a cell": the 1-D finder raises IndexError
            c, raised = None, e
        if cont and kind in ("tri", "tet"):
            cen = P[:, T].mean(axis=1)
            kk = min(5 if kind == "tri" else 10, loc.nt)
            near = np.argsort(((cen - np.asarray(x)[:, None]) ** 2).sum(axis=0))[:kk]
            if not set(cont) & set(int(i) for i in near):
                ctx.reached("finder-fallback-search-all")
                ctx.nontrivial(type(mesh).__name__, cls, "fallback")
        if cont:
            if raised is not None:
                # classify: is the point within rounding distance of a facet of its containing cell?
                margin = min(min_facet_distance(loc, cc, x) for cc in cont) / float(hcell[cont].max())
                mech = f"finder-raises-for-inside-point:{kind}"
                if margin <= 1e-12 and kind in ("tri", "tet", "quad", "hex", "wedge"):
                    mech = "finder-rejects-points-within-rounding-of-a-facet"
                if kind == "line" and is_component_right_end(mesh, x):
                    mech = "line-finder-rejects-right-endpoint-of-a-component-before-a-gap"
                ctx.check("inside-point-is-located", False, mech=mech, point=x, cls=cls, containing=cont[:4],
                          relative_distance_to_nearest_facet=margin, **tag)
            else:
                ctx.check("inside-point-is-located", True)
                c = int(np.asarray(c).ravel()[0])
                ok_index = 0 <= c < loc.nt
                viol = loc.violation(c, x, float(hcell[c])) if ok_index else 1.0
                # 1e-9 of the cell size, or the rounding level of the coordinates themselves (64 eps |x|) if that is larger
                allowed = 1e-9 + 64 * 2.2e-16 * float(np.abs(x).max()) / float(hcell[c]) if ok_index else 0.0
                ctx.check("located-cell-contains-point", ok_index and viol <= allowed, mech=f"wrong-cell:{kind}",
                          point=x, cls=cls, returned=c, exact_containing=cont[:4], outside_by=viol, **tag)
            if len(cont) >= 2 or cls in ("vertex", "facet"):
                ctx.nontrivial(type(mesh).__name__, cls, "located" if raised is None else "raised")
        else:
            if cls in ("outside-box", "hole"):
                ctx.check("outside-point-raises", raised is not None, mech=f"outside-point-gets-cell:{kind}", point=x,
                          cls=cls, returned=None if c is None else int(np.asarray(c).ravel()[0]), **tag)
                ctx.nontrivial(type(mesh).__name__, cls, "raised" if raised is not None else "returned")
            else:
                # rounding moved a facet/vertex point of the *boundary* marginally outside.  The nearest doubles of a
                # boundary point are how a caller names that point: within 4 ulp-units of |x| of a cell the finder has
                # to answer (with a cell that contains the point up to that rounding); further out it is not judged.
                tol = 4 * 2.3e-16 * float(np.abs(x).max())
                nearc = loc.near(x, tol) if d >= 2 else []
                if nearc:
                    ok = raised is None
                    if ok:
                        c_ = int(np.asarray(c).ravel()[0])
                        ok = 0 <= c_ < loc.nt and loc.violation(c_, x, float(hcell[c_])) <= \
                            1e-9 + 64 * 2.2e-16 * float(np.abs(x).max()) / float(hcell[c_])
                    ctx.check("inside-point-is-located", ok, mech=f"finder-rejects-nearest-double-of-a-boundary-point:{kind}",
                              point=x, cls=cls, nearest_cells=nearc[:4], raised=raised is not None, **tag)
                    ctx.reached("boundary-point-rounded-outside")
                else:
                    ctx.drop("band-around-boundary-not-judged")
    # many points at once, repeated and permuted: same answers as one by one
    inside_pts = [x for cls, x in pts if cls == "interior"]
    if len(inside_pts) >= 3:
        A = np.array(inside_pts).T
        perm = rng.permutation(A.shape[1])
        B = np.hstack([A[:, perm], A[:, perm[:2]]])
        one = np.array([int(np.asarray(finder(*[np.array([xi]) for xi in A[:, j]])).ravel()[0]) for j in range(A.shape[1])])
        many = np.asarray(finder(*B))
        ctx.check("repeated-permuted-points", many.shape == (B.shape[1],) and
                  np.array_equal(many, np.concatenate([one[perm], one[perm[:2]]])), mech=f"finder-vectorised:{kind}", **tag)
    ctx.sample(dict(tag, points=len(pts), classes=sorted({c for c, _ in pts})), per_family=1)


def is_component_right_end(mesh, x):
    """1-D predicate: x is a vertex that is the right end of a cell, not the left end of any cell, and not the
    global maximum."""
    P, T = np.asarray(mesh.p)[0], np.asarray(mesh.t)
    lo, hi = np.minimum(P[T[0]], P[T[1]]), np.maximum(P[T[0]], P[T[1]])
    return bool((hi == x[0]).any() and not (lo == x[0]).any() and x[0] < P.max())


def min_facet_distance(loc, c, x):
    best = np.inf
    for n, off, s in loc.fplanes[c]:
        best = min(best, abs(float(n @ np.asarray(x) - off)) / float(np.linalg.norm(n)))
    return best


def hole_points(ctx, rng, mesh, kind, loc):
    """Centroids of single-neighbour-facet 'pockets': build points that are inside the bounding box, in no cell
    (exact), and at clear distance from every cell: the mirror image of a boundary cell's centroid across its
    boundary facet, kept only if exactly in no cell and farther than 1e-3*h from every candidate cell."""
    P, T = np.asarray(mesh.p), np.asarray(mesh.t)
    d = P.shape[0]
    if d == 1:
        xs = np.sort(np.unique(P[0]))
        out = []
        # gaps between components
        cells = sorted((min(P[0, a], P[0, b]), max(P[0, a], P[0, b])) for a, b in T.T)
        for (a0, a1), (b0, b1) in zip(cells[:-1], cells[1:]):
            if b0 > a1:
                out.append(("hole", np.array([(a1 + b0) / 2])))
        return out
    f2t, t2f = np.asarray(mesh.f2t), np.asarray(mesh.t2f)
    fac = np.asarray(mesh.facets)
    out = []
    bnd = np.nonzero(f2t[1] == -1)[0]
    for f in rng.permutation(bnd)[:ctx.scale(8, 20)]:
        c = f2t[0, f]
        vs = list(dict.fromkeys(int(v) for v in fac[:, f]))
        fc = P[:, vs].mean(axis=1)
        cc = P[:, T[:, c]].mean(axis=1)
        x = fc + 0.5 * (fc - cc)
        if loc.containing(x):
            continue
        # clear distance from every cell whose bounding box is near
        hc = float((loc.hi[:, c] - loc.lo[:, c]).max())
        near = np.nonzero(((loc.lo - 1e-3 * hc <= x[:, None]) & (loc.hi + 1e-3 * hc >= x[:, None])).all(axis=0))[0]
        clear = True
        for cn in near:
            # inside-or-within 1e-3*hc of cell cn?  (conservative: violation of the worst plane)
            if loc.violation(int(cn), x, hc) < 1e-3:
                clear = False
                break
        if clear:
            out.append(("hole", x))
    return out


# ------------------------------------------------------------------ probes
def own_evaluate(basis, rec, cells, x, y):
    """u_h(x_j) on the given cells via elem.gbasis at pulled-back points with own scatter; result has the
    element's tensor shape + (npts,)."""
    mesh = basis.mesh
    mapping = mesh.mapping()
    Xr = mapping.invF(x[:, :, None], tind=cells)  # (d, npts, 1)
    elem = rec.make()
    import skfem
    ed = np.asarray(skfem.assembly.Dofs(mesh, elem).element_dofs)[:, cells]
    out = None
    for i in range(ed.shape[0]):
        f = elem.gbasis(mapping, Xr, i, tind=cells)
        if len(f) != 1:
            raise Skip("composite-not-probed")
        v = np.array(f[0])[..., 0]  # (..., npts)
        out = (0 if out is None else out) + y[ed[i]] * v
    return out


def probes_case(ctx, k, kind):
    import skfem
    rng = ctx.rng()
    recs = [r for r in EL.all_for_kind(kind, wrappers=True) if not r.skeleton and not r.name.startswith("Composite(")
            and (r.mesh_req == "any" or (r.family == "global" and kind in ("line", "tri", "quad")))]
    rec = recs[k % len(recs)]
    glob = rec.family == "global"
    if glob:
        # globally defined elements on the unit-scale meshes their monomial expansion is accurate on
        from .c09 import wellshaped
        mc = wellshaped(rng, kind, rec.mesh_req == "axis-parallel")
        ctx.reached("global-element-probed")
    else:
        mc = gen_mesh(ctx, rng, kind, int(rng.integers(0, 20)))      # graded, offset and scaled meshes too
    mesh = mc.mesh
    if kind == "hex" and not mc.planar_faces:
        raise Skip("nonplanar")
    basis = skfem.CellBasis(mesh, rec.make())
    y = rng.standard_normal(basis.N)
    P, T = np.asarray(mesh.p), np.asarray(mesh.t)
    nt = T.shape[1]
    d = P.shape[0]
    npts = int(rng.choice([1, 2, 7, 30]))
    cells0 = rng.integers(0, nt, size=npts)
    Xr = np.stack([GEO.random_ref_points(rng, kind, 1)[:, 0] for _ in range(npts)], axis=1)  # (d, npts)
    x = np.stack([GEO.map_points(kind, P, T, Xr[:, j:j + 1], np.array([cells0[j]]))[:, 0, 0] for j in range(npts)], axis=1)
    # repeated and permuted points
    if npts >= 2:
        x = np.hstack([x, x[:, :2]])
    cells = np.asarray(mesh.element_finder()(*x))
    tag = dict(elem=rec.name, mesh=type(mesh).__name__, desc=mc.desc, npts=int(x.shape[1]))
    base = rec.name.split("(")[0]
    ref = own_evaluate(basis, rec, cells, x, y)
    Pm = basis.probes(x)
    got = Pm @ y
    tshape = ref.shape[:-1]
    if len(tshape) == 1:
        ctx.reached("vector-valued-element")
    if len(tshape) == 2:
        ctx.reached("tensor-valued-element")
    ncomp = int(np.prod(tshape)) if tshape else 1
    ctx.check("interpolator-shapes", Pm.shape == (ncomp * x.shape[1], basis.N), mech=f"probes-shape:{base}",
              shape=Pm.shape, **tag)
    scale = float(np.abs(ref).max()) + float(np.abs(y).max()) * 1e-3
    hmin = float((P[:, T].max(axis=1) - P[:, T].min(axis=1)).max(axis=0).min())
    # pulled-back points carry the rounding of the coordinates: eps |x| / h (meshes far from the origin)
    rt = (1e-5 if glob else 1e-9) + 256 * 2.3e-16 * float(np.abs(P).max()) / hmin * max(1, getattr(rec.make(), "maxdeg", 1))
    ctx.close("probes-equal-local-expansion", np.asarray(got).reshape(tshape + (x.shape[1],)), ref, rtol=rt,
              scale=scale, mech=f"probes:{base}", **tag)
    f = basis.interpolator(y)
    v = f(x)
    ctx.check("interpolator-shapes", v.shape == tshape + (x.shape[1],), mech=f"interpolator-shape:{base}",
              shape=v.shape, want=tshape + (x.shape[1],), **tag)
    ctx.close("probes-equal-local-expansion", v, ref, rtol=rt, scale=scale, mech=f"interpolator:{base}", **tag)
    # a basis restricted to a subset of the cells evaluates the same function at points of that subset
    if nt >= 3 and not glob:
        S = np.sort(rng.choice(nt, size=max(2, nt // 2), replace=False)).astype(np.int32)
        inS = np.isin(cells, S)
        if inS.any():
            bS = skfem.CellBasis(mesh, rec.make(), elements=S)
            try:
                gS = np.asarray(bS.probes(x[:, inS]) @ y).reshape(tshape + (int(inS.sum()),))
                ctx.close("probes-equal-local-expansion", gS, ref[..., inS], rtol=rt, scale=scale,
                          mech="probes-on-basis-restricted-to-a-cell-subset", subset=int(S.size), **tag)
            except IndexError as e:
                ctx.check("probes-equal-local-expansion", False, mech="probes-on-basis-restricted-to-a-cell-subset",
                          error=repr(e)[:200], **tag)
            ctx.reached("restricted-basis-probed")
            # the same cells listed in another order (reversed, permuted, two concatenated tags): the same function
            for oname, So in (("reversed", S[::-1].copy()), ("permuted", S[rng.permutation(S.size)]),
                              ("two-tags", ["b", "a"])):
                try:
                    if oname == "two-tags":
                        half = S.size // 2
                        mt = mesh.with_subdomains({"a": S[:half], "b": S[half:]})
                        bO = skfem.CellBasis(mt, rec.make(), elements=So)
                    else:
                        bO = skfem.CellBasis(mesh, rec.make(), elements=So)
                    gO = np.asarray(bO.probes(x[:, inS]) @ y).reshape(tshape + (int(inS.sum()),))
                    ctx.close("probes-equal-local-expansion", gO, ref[..., inS], rtol=rt, scale=scale,
                              mech=f"probes-on-restricted-basis:cells-listed-{oname}", subset=int(S.size), **tag)
                    vO = np.asarray(bO.interpolator(y)(x[:, inS])).reshape(tshape + (int(inS.sum()),))
                    ctx.close("probes-equal-local-expansion", vO, ref[..., inS], rtol=rt, scale=scale,
                              mech=f"interpolator-on-restricted-basis:cells-listed-{oname}", subset=int(S.size), **tag)
                except IndexError as e:
                    ctx.check("probes-equal-local-expansion", False, mech=f"probes-on-restricted-basis:cells-listed-{oname}",
                              error=repr(e)[:200], **tag)
            ctx.reached("restricted-basis-cells-in-other-orders")
    # a batch that contains one point outside the mesh raises, wherever that point stands in the batch
    if d >= 1 and x.shape[1] >= 2:
        lo, hi = P.min(axis=1), P.max(axis=1)
        xo = hi + (hi - lo).max() * 0.37 + 1.0
        pos = int(rng.integers(0, x.shape[1] + 1))
        xb = np.insert(x, pos, xo, axis=1)
        for nm, call in (("finder", lambda: mesh.element_finder()(*xb)), ("probes", lambda: basis.probes(xb)),
                         ("interpolator", lambda: f(xb))):
            try:
                call()
                raised = False
            except Exception:
                raised = True
            ctx.check("outside-point-raises", raised, mech=f"outside-point-in-a-batch-not-reported:{nm}", position=pos,
                      batch=int(xb.shape[1]), **tag)
        ctx.reached("batch-with-one-outside-point")
    # trailing axes
    if x.shape[1] >= 4 and not tshape:
        x4 = x[:, :4].reshape(d, 2, 2)
        v4 = f(x4)
        ctx.check("interpolator-shapes", v4.shape == (2, 2), mech=f"interpolator-trailing-axes:{base}", shape=v4.shape, **tag)
        ctx.close("probes-equal-local-expansion", v4.ravel(), ref[:4], rtol=rt, scale=scale,
                  mech=f"interpolator-trailing:{base}", **tag)
    # coefficient vectors of other dtypes denote the same discrete function
    for how, yy in (("int", np.round(4 * y).astype(np.int64)), ("bool", y > 0), ("float32", y.astype(np.float32))):
        refy = own_evaluate(basis, rec, cells, x, yy.astype(np.float64))
        vy = basis.interpolator(yy)(x)
        ctx.close("probes-equal-local-expansion", np.asarray(vy, dtype=np.float64), refy,
                  rtol=rt if how != "float32" else max(rt, 1e-6), scale=float(np.abs(refy).max()) + float(np.abs(yy).max()) * 1e-3,
                  mech=f"interpolator-coefficient-dtype:{how}", coefficients=how, **tag)
    ctx.reached("coefficient-dtypes")
    # one point at a time on the same basis object, among them points on the edges of one cell (reference
    # coordinates exactly 0 or 1 on axis-parallel cells): "any number, order and repetition of query points"
    RV = GEO.ref_vertices(kind)                                   # (dref, nverts)
    c0 = int(cells0[0])
    seq = []
    nv = RV.shape[1]
    for _ in range(4):
        a, b = (int(i) for i in rng.choice(nv, size=2, replace=False)) if nv > 1 else (0, 0)
        for sp_ in (0.25, 0.75, 0.0):
            seq.append(((1 - sp_) * RV[:, a] + sp_ * RV[:, b], c0))
    for j in range(min(3, npts)):
        seq.append((Xr[:, j], int(cells0[j])))
    order = rng.permutation(len(seq))
    finder = mesh.element_finder()
    fint = basis.interpolator(y)
    worst_tag = None
    for jj in order:
        Xj, cj = seq[jj]
        xj = GEO.map_points(kind, P, T, Xj[:, None], np.array([cj]))[:, 0, :]   # (d, 1)
        try:
            cl = np.asarray(finder(*xj))
        except ValueError:
            ctx.drop("single-point-not-located")   # judged by the locate-* families
            continue
        refj = own_evaluate(basis, rec, cl, xj, y)
        gj = np.asarray(basis.probes(xj) @ y).reshape(tshape + (1,))
        vj = fint(xj)
        ctx.close("one-point-at-a-time", gj, refj, rtol=rt, scale=scale, mech=f"probes-single-point-sequence:{base}",
                  ref_point=Xj, cell=int(cl[0]), **tag)
        ctx.close("one-point-at-a-time", vj, refj, rtol=rt, scale=scale, mech=f"interpolator-single-point-sequence:{base}",
                  ref_point=Xj, cell=int(cl[0]), **tag)
    ctx.reached("single-point-sequence")
    # the caller's query array updated in place between two calls
    xa = np.array(x[:, :min(3, x.shape[1])])
    basis.probes(xa)
    xa[:] = np.stack([GEO.map_points(kind, P, T, GEO.random_ref_points(rng, kind, 1), np.array([cells0[j % npts]]))[:, 0, 0]
                      for j in range(xa.shape[1])], axis=1)
    try:
        ca = np.asarray(finder(*xa))
        ctx.close("probes-equal-local-expansion", np.asarray(basis.probes(xa) @ y).reshape(tshape + (xa.shape[1],)),
                  own_evaluate(basis, rec, ca, xa, y), rtol=rt, scale=scale, mech="probes-query-array-updated-in-place", **tag)
        ctx.reached("query-array-updated-in-place")
    except ValueError:
        ctx.drop("updated-point-not-located")
    # the same points in the array forms a caller has them in: the same matrix
    Pref = basis.probes(x).toarray()
    xT = np.ascontiguousarray(x.T).T                               # Fortran-ordered view (points stored row-wise)
    big = np.zeros((x.shape[0], 2 * x.shape[1]))
    big[:, ::2] = x
    xro = x.copy()
    xro.setflags(write=False)
    for nm, xv in (("transposed-view", xT), ("strided", big[:, ::2]), ("read-only", xro)):
        try:
            Pv = basis.probes(xv).toarray()
            ctx.check("repeated-permuted-points", Pv.shape == Pref.shape and np.array_equal(Pv, Pref), mech=f"probes-depend-on-array-form:{nm}", **tag)
        except Exception as e:
            ctx.check("repeated-permuted-points", False, mech=f"probes-reject-array-form:{nm}", error=repr(e)[:200], **tag)
    ctx.reached("query-array-forms")
    # complex coefficients and several coefficient vectors at once
    yc = y + 1j * rng.standard_normal(basis.N)
    vc = basis.interpolator(yc)(x)
    refc = own_evaluate(basis, rec, cells, x, yc.real) + 1j * own_evaluate(basis, rec, cells, x, yc.imag)
    ctx.close("probes-equal-local-expansion", vc, refc, rtol=rt, scale=scale + float(np.abs(refc).max()), mech="interpolator-complex-coefficients", **tag)
    # points on the loci along which quadrilaterals / hexahedra / prisms are split into simplices for locating (cell
    # centres, the diagonal of a face): measure zero for random points
    if kind in ("quad", "hex", "wedge") and not glob:
        RVm = GEO.ref_vertices(kind)
        cen = RVm.mean(axis=1)
        Xs = np.stack([cen, 0.5 * (RVm[:, 0] + cen), 0.5 * (RVm[:, -1] + cen), 0.5 * (RVm[:, 0] + RVm[:, 2 if kind == "quad" else -1])], axis=1)
        cs = rng.integers(0, nt, size=Xs.shape[1])
        xs = np.stack([GEO.map_points(kind, P, T, Xs[:, j:j + 1], np.array([cs[j]]))[:, 0, 0] for j in range(Xs.shape[1])], axis=1)
        try:
            cl = np.asarray(mesh.element_finder()(*xs))
            ctx.close("probes-equal-local-expansion", np.asarray(basis.probes(xs) @ y).reshape(tshape + (xs.shape[1],)),
                      own_evaluate(basis, rec, cl, xs, y), rtol=rt, scale=scale, mech=f"probes-on-simplex-split-loci:{kind}", **tag)
            ctx.reached("points-on-simplex-split-loci")
        except ValueError as e:
            ctx.check("inside-point-is-located", False, mech=f"cell-centre-or-diagonal-point-not-located:{kind}", error=str(e)[:120], **tag)
    # point source = matching row
    ps = basis.point_source(x[:, 0])
    if not tshape:
        e = np.zeros(basis.N)
        want = np.array([own_evaluate(basis, rec, cells[:1], x[:, :1], np.eye(basis.N)[g])[0] for g in
                         np.asarray(basis.dofs.element_dofs)[:, cells[0]]])
        ref_row = np.zeros(basis.N)
        np.add.at(ref_row, np.asarray(basis.dofs.element_dofs)[:, cells[0]], want)
        ctx.close("point-source-row", ps, ref_row, rtol=rt, scale=float(np.abs(ref_row).max()) + 1e-300,
                  mech=f"point-source:{base}", **tag)
    # at the basis' own quadrature points probes == interpolate
    gx = np.array(basis.global_coordinates())  # (d, nt, nq)
    sub = rng.choice(nt, size=min(nt, 6), replace=False)
    xq = gx[:, sub, :].reshape(d, -1)
    try:
        vq = basis.interpolator(y)(xq)
        uq = basis.interpolate(y)
        uq = np.array(uq)[..., sub, :].reshape(tshape + (-1,))
        ctx.close("probes-at-quadrature-equal-interpolate", vq, uq, rtol=max(1e-8, 10 * rt), scale=float(np.abs(uq).max()) + 1e-12,
                  mech=f"probes-vs-interpolate:{base}", **tag)
    except ValueError as e:
        if "outside of the mesh" in str(e):
            ctx.check("probes-at-quadrature-equal-interpolate", False,
                      mech="finder-rejects-points-within-rounding-of-a-facet", error=str(e), **tag)
        else:
            raise
    ctx.nontrivial(rec.name, type(mesh).__name__, "probes", int(x.shape[1]) > 1)
    ctx.sample(dict(tag, tensor_shape=list(tshape)), per_family=1)


def probes_many(ctx, k):
    """More query points than any internal block size (2^14 + a few thousand), scalar / vector / tensor valued: every
    row of the probing matrix still belongs to its own point and component."""
    import skfem
    rng = ctx.rng()
    kind, names = [("tri", ("Vector(ElementTriP1)", "ElementTriP2")), ("quad", ("Vector(ElementQuad1)", "ElementQuad1")),
                   ("tet", ("Vector(ElementTetP1)", "ElementTetP1")), ("tri", ("ElementTriRT1", "ElementTriP1"))][k % 4]
    rec = [r for r in EL.all_for_kind(kind, wrappers=True) if r.name == names[(k // 4) % 2]][0]
    mc = gen_mesh(ctx, rng, kind, 0)
    mesh = mc.mesh
    basis = skfem.CellBasis(mesh, rec.make())
    y = rng.standard_normal(basis.N)
    P, T = np.asarray(mesh.p), np.asarray(mesh.t)
    npts = 2 ** 14 + int(rng.integers(100, 4000))
    cells0 = rng.integers(0, T.shape[1], size=npts)
    Xr = GEO.random_ref_points(rng, kind, npts)                                             # (d, npts)
    x = np.zeros((P.shape[0], npts))
    for c in np.unique(cells0):
        sel = np.nonzero(cells0 == c)[0]
        x[:, sel] = GEO.map_points(kind, P, T, Xr[:, sel], np.array([c]))[:, 0, :]
    cells = np.asarray(mesh.element_finder()(*x))
    ref = own_evaluate(basis, rec, cells, x, y)
    tshape = ref.shape[:-1]
    tag = dict(elem=rec.name, mesh=type(mesh).__name__, npts=npts, tensor_shape=list(tshape))
    scale = float(np.abs(ref).max()) + float(np.abs(y).max()) * 1e-3
    got = np.asarray(basis.probes(x) @ y).reshape(tshape + (npts,))
    ctx.close("probes-equal-local-expansion", got, ref, rtol=1e-9, scale=scale, mech=f"probes-many-points:{rec.name.split('(')[0]}", **tag)
    v = basis.interpolator(y)(x)
    ctx.check("interpolator-shapes", v.shape == tshape + (npts,), mech="interpolator-shape-many-points", shape=v.shape, **tag)
    ctx.close("probes-equal-local-expansion", v, ref, rtol=1e-9, scale=scale, mech=f"interpolator-many-points:{rec.name.split('(')[0]}", **tag)
    ctx.reached("more-than-2^14-points")
    ctx.nontrivial(rec.name, "many-points", bool(tshape))


# ------------------------------------------------------------------ memory layouts of the query array
def layout_variants(rng, xc):
    """The block of points xc, shape (d, n1, ..., nk), in the memory layouts a caller may hold it in.  Returns a list of
    (name, array, pick): the array equals xc entry by entry if pick is None; for pick == (axis, j) it is the broadcast
    view (stride zero) that repeats the entries j of the trailing axis `axis` along that axis."""
    S, nd = xc.shape, xc.ndim
    out = []

    def add(name, a, pick=None):
        out.append((name, a, pick))

    add("c-contiguous", np.array(xc, order="C"))
    add("fortran-contiguous", np.array(xc, order="F"))
    add("transposed-view", np.ascontiguousarray(xc.T).T)          # the .T of an array stored (nk, ..., n1, d)
    if nd >= 3:
        # stored point by point, shape (n1, ..., nk, d), the component axis moved to the front: neither C nor F order
        add("component-axis-last-in-memory", np.moveaxis(np.ascontiguousarray(np.moveaxis(xc, 0, -1)), -1, 0))
        perm = rng.permutation(nd)
        add("axes-permuted-in-memory", np.ascontiguousarray(xc.transpose(perm)).transpose(np.argsort(perm)))
    for name, order in (("strided-slice", "C"), ("strided-slice-of-fortran-array", "F")):
        step = rng.integers(1, 4, size=nd)
        if (step == 1).all():
            step[int(rng.integers(nd))] = 2
        off = rng.integers(0, 3, size=nd)
        big = np.full([int(off[i] + step[i] * S[i] + rng.integers(0, 2)) for i in range(nd)], np.nan, order=order)
        sl = tuple(slice(int(off[i]), int(off[i] + step[i] * S[i]), int(step[i])) for i in range(nd))
        big[sl] = xc
        add(name, big[sl])
    for name, order in (("negative-strides", "C"), ("negative-strides-of-fortran-array", "F")):
        ax = tuple(i for i in range(nd) if rng.random() < 0.6) or (nd - 1,)
        add(name, np.flip(np.array(np.flip(xc, ax), order=order), ax))
    cand = [a for a in range(1, nd) if S[a] > 1]
    if cand:
        a = int(cand[int(rng.integers(len(cand)))])
        j = int(rng.integers(S[a]))
        add("broadcast-view", np.broadcast_to(np.take(xc, [j], axis=a), S), (a, j))
    swapped = xc.dtype.newbyteorder("S")
    add("non-native-byte-order", xc.astype(swapped))
    add("non-native-byte-order-fortran", np.asfortranarray(xc.astype(swapped)))
    ro = np.array(xc, order="F")
    ro.setflags(write=False)
    add("read-only-fortran", ro)
    buf = np.empty(xc.nbytes + 1, dtype=np.uint8)
    un = buf[1:].view(xc.dtype).reshape(S)
    un[...] = xc
    add("unaligned", un)
    return out


def point_variants(rng, x1):
    """One point, shape (d,), in the forms a caller may hold it in."""
    d = x1.shape[0]
    out = [("contiguous", np.array(x1))]
    big = np.full((d + 1, 3), np.nan)
    big[:d, 1] = x1
    out.append(("column-of-a-c-array", big[:d, 1]))
    out.append(("negative-stride", np.flip(np.array(np.flip(x1)))))
    out.append(("non-native-byte-order", x1.astype(x1.dtype.newbyteorder("S"))))
    ro = np.array(x1)
    ro.setflags(write=False)
    out.append(("read-only", ro))
    return out


LAYOUT_KINDS = ("line", "tri", "quad", "tet", "hex", "wedge")


def layouts_case(ctx, k):
    """Blocks of pairwise distinct points, shape (d, n1, ..., nk) with pairwise different extents, handed to the
    interpolator (every ndim), the probing matrix, the finder and the point source in every memory layout: the answer
    belongs to the point *by index* - out[i, j, ...] is the value at x[:, i, j, ...] - whatever the strides, the
    contiguity flags, the byte order of the array.  References: the local expansion of the cell the point was generated
    in (own scatter, no finder), and the interpolator asked for one point at a time."""
    import skfem
    rng = ctx.rng()
    kind = LAYOUT_KINDS[k % len(LAYOUT_KINDS)]
    j = k // len(LAYOUT_KINDS)
    recs = [r for r in EL.all_for_kind(kind, wrappers=True) if not r.skeleton and not r.name.startswith("Composite(")
            and r.mesh_req == "any"]
    scal = [r for r in recs if r.family == "h1"]
    other = [r for r in recs if r.family != "h1"]
    pool_r = other if (j % 3 == 2 and other) else scal          # trailing axes exist for scalar elements only
    rec = pool_r[int(rng.integers(len(pool_r)))]
    mc = gen_mesh(ctx, rng, kind, int(rng.integers(0, 20)))
    if kind == "hex" and not mc.planar_faces:
        mc = G.hex_mesh(ctx.rng("planar"), style="tensor")
    mesh = mc.mesh
    basis = skfem.CellBasis(mesh, rec.make())
    y = rng.standard_normal(basis.N)
    P, T = np.asarray(mesh.p), np.asarray(mesh.t)
    nt, d = T.shape[1], P.shape[0]
    f = basis.interpolator(y)
    finder = mesh.element_finder()
    base = rec.name.split("(")[0]
    hmin = float((P[:, T].max(axis=1) - P[:, T].min(axis=1)).max(axis=0).min())
    rt = 1e-9 + 256 * 2.3e-16 * float(np.abs(P).max()) / hmin * max(1, getattr(rec.make(), "maxdeg", 1))
    pool = [2, 3, 4, 5, 7] if not ctx.thorough else [2, 3, 4, 5, 7, 9, 11]
    ndims = [2, 3, 4] + ([5] if (ctx.thorough or j % 2 == 0) else [])
    xflat2 = None
    for nd in ndims:
        if nd == 2:
            ext = (int(rng.choice([1, 2, 6, 13, 29])),)
        else:
            ext = [int(e) for e in rng.choice(pool[:4] if nd >= 5 else pool, size=nd - 1, replace=False)]
            if rng.random() < 0.25:
                ext[int(rng.integers(len(ext)))] = 1         # an axis of extent one: the contiguity flags are ambiguous
            ext = tuple(ext)
        npts = int(np.prod(ext))
        cells0 = rng.integers(0, nt, size=npts)
        Xr = GEO.random_ref_points(rng, kind, npts)                                          # strictly inside, 1% margin
        xflat = np.ascontiguousarray(GEO.map_points(kind, P, T, Xr[:, :, None], cells0)[:, :, 0])   # (d, npts), distinct
        if nd == 2:
            xflat2 = xflat
        xc = xflat.reshape((d,) + ext)
        ref_flat = np.asarray(own_evaluate(basis, rec, cells0, xflat, y))                   # tshape + (npts,)
        tshape = ref_flat.shape[:-1]
        ncomp = int(np.prod(tshape)) if tshape else 1
        if nd == 2:
            ref2 = ref_flat
        ref = ref_flat.reshape(tshape + ext)
        scale = float(np.abs(ref).max()) + float(np.abs(y).max()) * 1e-3
        tag = dict(elem=rec.name, mesh=type(mesh).__name__, desc=mc.desc, ndim=nd, extents=list(ext))
        # the interpolator asked for one point at a time (a second execution the property says must agree)
        idxs = np.arange(npts) if npts <= 40 else np.sort(rng.choice(npts, size=40, replace=False))
        one = np.full(tshape + (npts,), np.nan)
        for jj in idxs:
            one[..., jj] = np.asarray(f(xflat[:, jj:jj + 1].copy()))[..., 0]
        ctx.close("one-point-at-a-time", one[..., idxs], ref_flat[..., idxs], rtol=rt, scale=scale,
                  mech=f"interpolator-single-point:{base}", **tag)
        one = one.reshape(tshape + ext)
        # would the permutation "enumerated in Fortran order, folded back in C order" change the answer visibly?
        if nd >= 3 and not tshape and min(ext) > 1:
            if float(np.abs(ref.ravel(order="F").reshape(ext) - ref).max()) > 1e3 * rt * scale:
                ctx.reached("fortran-order-permutation-would-be-noticed")
        ctx.reached(f"layout-ndim:{nd}")

        # Forms the library does not offer at all (trailing axes for the finder of 2-D/3-D meshes, for the probing matrix,
        # for tensor-valued elements) are recognised on the C-contiguous array, the first variant: if the call raises there
        # (or answers with another shape) the form is not judged in the other layouts; if it answers there, the same points
        # in any other memory layout must be answered too, with the same values at the same indices.
        offered = {}

        def attempt(what, optional, name, call, monitor, vtag):
            if optional and offered.get(what) is False:
                ctx.drop(what + "-does-not-offer-trailing-axes")
                return None
            try:
                val = call()
            except Exception as e:
                if optional and name == "c-contiguous":
                    offered[what] = False
                    ctx.tolerated(monitor)
                    ctx.drop(what + "-does-not-offer-trailing-axes")
                else:
                    ctx.check(monitor, False, mech=f"{what}-rejects-query-layout:{name}", error=repr(e)[:200], **vtag)
                return None
            if name == "c-contiguous":
                offered[what] = True
            return val

        for name, xv, pick in layout_variants(rng, xc):
            def sel(r, lead, pick=pick):
                """the reference (lead + ext) at the points of this variant"""
                if pick is None:
                    return r
                return np.broadcast_to(np.take(r, [pick[1]], axis=lead + pick[0] - 1), r.shape)
            if xv.shape != xc.shape or not np.array_equal(xv, sel(xc, 1)):
                raise RuntimeError("harness: layout variant %s does not hold the intended points" % name)
            want = sel(ref, len(tshape))
            vtag = dict(tag, layout=name, c_contiguous=bool(xv.flags.c_contiguous), f_contiguous=bool(xv.flags.f_contiguous),
                        strides=list(xv.strides), dtype=str(xv.dtype))
            ctx.reached("layout:" + name)
            if nd >= 3 and xv.flags.f_contiguous and not xv.flags.c_contiguous:
                ctx.reached("layout:fortran-order-with-trailing-axes")
            first = name == "c-contiguous"
            # ---- interpolator
            v = attempt("interpolator", bool(tshape) and nd >= 3, name, lambda: np.asarray(f(xv)), "query-layout-by-index", vtag)
            if v is not None:
                okshape = v.shape == tshape + ext
                ctx.check("interpolator-shapes", okshape, mech=f"interpolator-shape-for-query-layout:{name}", shape=v.shape,
                          want=tshape + ext, **vtag)
                if okshape:
                    ctx.close("query-layout-by-index", v, want, rtol=rt, scale=scale, mech=f"interpolator-query-layout:{name}", **vtag)
                    onev = sel(one, len(tshape))
                    msk = ~np.isnan(onev)
                    ctx.close("query-layout-by-index", v[msk], onev[msk], rtol=rt, scale=scale,
                              mech=f"interpolator-query-layout-vs-single-points:{name}", **vtag)
                    ctx.nontrivial("layout", kind, name, nd)
            # ---- finder: rows of the array (strided, reversed, byte-swapped 1-D views); shaped coordinates where offered
            wantc = sel(cells0.reshape(ext), 0)
            cl = attempt("finder", nd >= 3, name, lambda: np.asarray(finder(*xv)), "finder-layout-by-index", vtag)
            if cl is not None:
                if cl.shape == ext:
                    ctx.check("finder-layout-by-index", np.array_equal(cl, wantc),
                              mech=f"finder-query-layout:{name}" if nd == 2 else f"finder-shaped-coordinates:{name}",
                              got=cl, generated_in=wantc, **vtag)
                    if nd >= 3:
                        ctx.reached("finder-accepts-shaped-coordinates")
                elif nd == 2 or not first:
                    ctx.check("finder-layout-by-index", False, mech=f"finder-result-shape:{name}", shape=cl.shape, **vtag)
                else:
                    offered["finder"] = False
                    ctx.drop("finder-shaped-coordinates-answer-of-other-shape")
            # ---- probing matrix
            Pv = attempt("probes", nd >= 3, name, lambda: basis.probes(xv), "query-layout-by-index", vtag)
            if Pv is not None:
                if Pv.shape == (ncomp * npts, basis.N):
                    ctx.close("query-layout-by-index", np.asarray(Pv @ y).reshape(tshape + ext), want, rtol=rt, scale=scale,
                              mech=f"probes-query-layout:{name}", **vtag)
                elif nd == 2 or not first:
                    ctx.check("interpolator-shapes", False, mech=f"probes-shape-for-query-layout:{name}", shape=Pv.shape, **vtag)
                else:
                    offered["probes"] = False
                    ctx.drop("probes-trailing-axes-matrix-of-other-shape")
    # ---- the basis' own quadrature points as the block (d, cells, points per cell) they come in: interpolate(), by index
    gx = np.asarray(basis.global_coordinates())                                           # (d, nt, nq)
    nq = gx.shape[2]
    ns = min(nt, 6 if nq != 6 else 5)
    sub = np.sort(rng.choice(nt, size=ns, replace=False))
    uq = np.asarray(basis.interpolate(y))[..., sub, :]                                    # tshape + (ns, nq)
    xq = np.ascontiguousarray(gx[:, sub, :])
    if tshape:                                                                             # no trailing axes for these
        xq = xq.reshape(d, -1)
        uq = uq.reshape(tshape + (-1,))
    qtag = dict(elem=rec.name, mesh=type(mesh).__name__, desc=mc.desc, block=list(xq.shape))
    for name, xv, pick in layout_variants(rng, xq):
        wantq = uq if pick is None else np.broadcast_to(np.take(uq, [pick[1]], axis=len(tshape) + pick[0] - 1), uq.shape)
        try:
            vq = np.asarray(f(xv))
        except Exception as e:
            ctx.check("probes-at-quadrature-equal-interpolate", False,
                      mech="finder-rejects-points-within-rounding-of-a-facet" if "outside of the mesh" in str(e)
                      else f"interpolator-rejects-query-layout:{name}", error=repr(e)[:200], layout=name, **qtag)
            continue
        if ctx.check("interpolator-shapes", vq.shape == uq.shape, mech=f"interpolator-shape-for-query-layout:{name}",
                     shape=vq.shape, want=uq.shape, layout=name, **qtag):
            ctx.close("probes-at-quadrature-equal-interpolate", vq, wantq, rtol=max(1e-8, 10 * rt),
                      scale=float(np.abs(uq).max()) + float(np.abs(y).max()) * 1e-3,
                      mech=f"interpolator-at-quadrature-points-query-layout:{name}", layout=name,
                      c_contiguous=bool(xv.flags.c_contiguous), f_contiguous=bool(xv.flags.f_contiguous), **qtag)
    ctx.reached("quadrature-block-layouts")
    # ---- point source: the one point in the forms a caller may hold it in
    jp = int(rng.integers(xflat2.shape[1]))
    want0 = ref2.reshape(-1, xflat2.shape[1])[0, jp]                  # the first component at that point
    row = None
    for name, xp in point_variants(rng, xflat2[:, jp]):
        ptag = dict(elem=rec.name, mesh=type(mesh).__name__, desc=mc.desc, layout=name)
        try:
            ps = np.asarray(basis.point_source(xp))
        except Exception as e:
            ctx.check("point-source-row", False, mech=f"point-source-rejects-query-layout:{name}", error=repr(e)[:200], **ptag)
            continue
        ctx.check("interpolator-shapes", ps.shape == (basis.N,), mech=f"point-source-shape:{name}", shape=ps.shape, **ptag)
        sc = float(np.abs(y).max()) * float(np.abs(ps).max()) + 1e-300
        ctx.close("point-source-row", float(ps @ y), float(want0), rtol=rt * max(1, np.count_nonzero(ps)), scale=sc + abs(float(want0)),
                  mech=f"point-source-query-layout:{name}", **ptag)
        if row is None:
            row = ps
        else:
            ctx.close("point-source-row", ps, row, rtol=rt, scale=float(np.abs(row).max()) + 1e-300,
                      mech=f"point-source-depends-on-query-layout:{name}", **ptag)
    ctx.reached("point-source-layouts")
    ctx.sample(dict(elem=rec.name, mesh=type(mesh).__name__, ndims=ndims), per_family=1)


def fam(fn, kind):
    return lambda ctx, k: fn(ctx, k, kind)


FAMILIES = []
for kd, q, th in (("line", 24, 480), ("tri", 40, 1200), ("quad", 32, 960), ("tet", 20, 500), ("hex", 16, 320), ("wedge", 12, 240)):
    FAMILIES.append(Family("locate-" + kd, fam(one_mesh, kd), q, th))
for kd in ("line", "tri", "quad", "tet", "hex", "wedge"):
    n = (lambda ctx, kd=kd: len([r for r in EL.all_for_kind(kd, wrappers=True) if not r.skeleton and r.mesh_req == "any"
                                  and not r.name.startswith("Composite(")]) * (2 if ctx.tier == "quick" else 30))
    FAMILIES.append(Family("probes-" + kd, fam(probes_case, kd), n, n, budget={"quick": 30, "thorough": 600}))
FAMILIES.append(Family("probes-many", probes_many, 4, 32, budget={"quick": 40, "thorough": 300}))
FAMILIES.append(Family("query-layouts", layouts_case, 30, 720, budget={"quick": 45, "thorough": 600}))
