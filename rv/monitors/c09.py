"""C09 Shape functions: derivatives are true derivatives; duality; partition of unity.

Monitors on Element.lbasis / Element.gbasis fields:
 * reference level: complex-step (or 8th-order central) derivative of the delivered value
   against the delivered derivative field;
 * mapped level: central differences of the delivered *global* fields in reference
   coordinates, pushed to physical derivatives with the harness' own Jacobians
   (rv.refmodel.geometry), against grad / div / curl / hess / grad3.. (each field is checked to
   be the derivative of the previous one in the chain);
 * nodality, partition of unity, H(div)/H(curl) lowest-order duality (facet flux / edge
   circulation, own geometry), defining functionals of globally defined elements;
 * nearby queries: one element object (and one mapping object) asked at a sequence of point sets of equal shape
   that differ by tiny amounts (relative 1e-6, 1e-9, one ulp, absolute 1e-9 at a vertex, one point only) delivers
   what a fresh object delivers at those points (lbasis: the same bits; gbasis: up to rounding), and the difference
   quotient (h ~ 1e-6, 1e-7) of the values that same object delivers is the derivative it delivered.
"""
from __future__ import annotations

import itertools

import numpy as np

from ..engine import Family, Skip
from ..gen import elements as EL
from ..gen import meshes as G
from ..refmodel import geometry as GEO

PID = "C09"
RULE = ("every registry element (LinePp p<=6, QuadP p<=5) x every local index x random interior reference points; "
        "mapped level on random first-order meshes (affine, sheared, distorted multilinear, mirrored, renumbered), shared "
        "and per-cell point layouts, cell subsets; distinct key = (record, check kind, field, geometry class, layout); "
        "non-trivial iff the reference derivative is not identically zero on the sample; nearby-queries: every registry "
        "element incl. skeleton, wrappers and wrappers of the parametrised elements x a randomly ordered sequence of "
        "perturbed point sets, non-trivial iff the fresh values at consecutive point sets differ")
TRACK = ["skfem.element.element_h1:ElementH1.gbasis", "skfem.element.element_hdiv:ElementHdiv.gbasis",
         "skfem.element.element_hcurl:ElementHcurl.gbasis", "skfem.element.element_global:ElementGlobal.gbasis",
         "skfem.element.element_matrix:ElementMatrix.gbasis", "skfem.element.element_vector:ElementVector.gbasis",
         "skfem.element.element_composite:ElementComposite.gbasis",
         "skfem.element.element_line.element_line_pp:ElementLinePp.lbasis",
         "skfem.element.element_quad.element_quadp:ElementQuadP.lbasis"]
REQUIRED_MONITORS = ["ref-derivative", "mapped-grad", "mapped-div", "mapped-curl", "mapped-hess", "nodal-delta",
                     "partition-of-unity", "hdiv-flux-dual", "hcurl-circulation-dual", "global-dofs-dual",
                     "layouts-agree", "history-independent", "same-object-quotient", "point-dtype-independent"]
REQUIRED_REACH = ["complex-step", "central-difference", "negative-det-cell", "per-cell-layout", "subset-tind",
                  "non-affine-cell", "higher-derivative-chain", "unsorted-triangle-cells",
                  "global-nodal-on-general-quadrilateral", "points-updated-in-place",
                  "tind-with-repeated-cell", "parametrised-degree>=7", "every-local-function-of-large-elements",
                  "nearby-query:lbasis", "nearby-query:gbasis", "nearby-query:relative-1e-6", "nearby-query:relative-1e-9",
                  "nearby-query:one-ulp", "nearby-query:single-entry-one-ulp", "nearby-query:absolute-1e-9",
                  "nearby-query:single-point-moved", "nearby-query:back-to-first", "nearby-query:per-cell-layout",
                  "same-object-quotient:lbasis", "same-object-quotient:gbasis", "point-spelling:int64", "point-spelling:int32",
                  "point-spelling:float32", "point-spelling:fortran-order", "point-spelling:strided-view", "point-spelling:read-only",
                  "point-spelling:lbasis", "point-spelling:gbasis"]

FD = ((1, 4 / 5), (2, -1 / 5), (3, 4 / 105), (4, -1 / 280))


def fdiff(f, X, k, h):
    """8th-order central difference of f along reference coordinate k."""
    out = 0
    for m, c in FD:
        Xp = X.copy()
        Xp[k] += m * h
        Xm = X.copy()
        Xm[k] -= m * h
        out = out + c * (np.asarray(f(Xp)) - np.asarray(f(Xm)))
    return out / h


def nbfun(elem):
    rd = elem.refdom
    d = rd.dim()
    return (elem.nodal_dofs * rd.nnodes + (elem.edge_dofs * rd.nedges if d == 3 else 0)
            + (elem.facet_dofs * rd.nfacets if d >= 2 else 0) + elem.interior_dofs)


def bfun_names(elem):
    """dofname per local basis function (vertex, edge, facet, interior order)."""
    rd = elem.refdom
    d = rd.dim()
    names = list(elem.dofnames)
    nn = names[:elem.nodal_dofs]
    rest = names[elem.nodal_dofs:]
    out = []
    for _ in range(rd.nnodes):
        out += nn
    if d == 3:
        # single elements list facet names before edge names only when both exist; all such
        # registry elements use the name 'u' for both, so the split position does not matter here
        en = rest[:elem.edge_dofs]
        rest = rest[elem.edge_dofs:]
        for _ in range(rd.nedges):
            out += en
    if d >= 2:
        fn = rest[:elem.facet_dofs]
        rest = rest[elem.facet_dofs:]
        for _ in range(rd.nfacets):
            out += fn
    out += rest[:elem.interior_dofs]
    return out


def high_degree_records():
    """Parametrised elements beyond the degrees of the registry (reference-level checks only: cheap)."""
    import dataclasses
    import skfem.element as E
    out = []
    for p_ in (7, 8, 10, 12):
        out.append(dataclasses.replace(EL.by_name("ElementLinePp(6)"), name=f"ElementLinePp({p_})", make=(lambda p_=p_: E.ElementLinePp(p_)),
                                       complete=p_))
    for p_ in (6, 7, 8):
        out.append(dataclasses.replace(EL.by_name("ElementQuadP(5)"), name=f"ElementQuadP({p_})", make=(lambda p_=p_: E.ElementQuadP(p_)),
                                       complete=p_, tensor_complete=p_))
    return out


# ------------------------------------------------------------ reference level
def ref_derivatives(ctx, k):
    # skeleton elements are facet indicators (discontinuous inside the reference cell): no derivative claim
    recs = [r for r in EL.registry() if r.family in ("h1", "hdiv", "hcurl") and not r.skeleton] + high_degree_records()
    rec = recs[k % len(recs)]
    rng = ctx.rng()
    elem = rec.make()
    kind = rec.kind
    if rec.name.startswith(("ElementLinePp(", "ElementQuadP(")):
        pdeg = int(rec.name.split("(")[1][:-1])
        ctx.check("ref-derivative", nbfun(elem) == (pdeg + 1) ** GEO.REFDIM[kind], mech=f"number-of-functions:{rec.name.split('(')[0]}",
                  elem=rec.name, got=nbfun(elem))
        if pdeg >= 7:
            ctx.reached("parametrised-degree>=7")
    d = GEO.REFDIM[kind]
    X = GEO.random_ref_points(rng, kind, 7)
    if k >= len(recs):  # second round: points on the closed cell incl. vertices
        X = np.hstack([X[:, :3], GEO.ref_vertices(kind)])
    N = nbfun(elem)
    for i in range(N):
        phi, dphi = elem.lbasis(X.copy(), i)
        phi = np.asarray(phi)
        # derivative of the delivered value field, independent route
        method = "complex-step"
        try:
            J = []
            for m in range(d):
                Xc = X.astype(complex)
                Xc[m] += 1e-30j
                fresh = rec.make()
                J.append(np.imag(np.asarray(fresh.lbasis(Xc, i)[0])) / 1e-30)
            J = np.stack(J)  # (d, *phi.shape)
            if not np.iscomplexobj(np.asarray(rec.make().lbasis(X.astype(complex) + 1e-30j, i)[0])) and np.abs(J).max() == 0:
                raise TypeError("lbasis discards the imaginary part")
        except Exception:
            method = "central-difference"
            # (the 8th-order difference is exact up to degree 8; beyond, a smaller step keeps its truncation error,
            # f^(9) h^8, below the tolerance)
            hs = 0.02 if (rec.complete or 0) <= 6 else 0.004
            J = np.stack([fdiff(lambda Y: rec.make().lbasis(Y, i)[0], X, m, hs) for m in range(d)])
        ctx.reached(method)
        if rec.family == "h1":
            ref = J  # (d, npts)
        elif rec.family == "hdiv":
            ref = sum(J[m][m] for m in range(d))
        else:
            if d == 2:
                ref = J[0][1] - J[1][0]
            else:
                ref = np.stack([J[1][2] - J[2][1], J[2][0] - J[0][2], J[0][1] - J[1][0]])
        scale = max(1.0, float(np.abs(ref).max()), float(np.abs(phi).max()))
        rtol = 1e-11 if method == "complex-step" else 1e-7
        ctx.close("ref-derivative", np.asarray(dphi), ref, rtol=rtol, scale=scale,
                  mech=f"ref-derivative:{rec.name.split('(')[0]}", elem=rec.name, i=i, method=method)
        if np.abs(ref).max() > 0:
            ctx.nontrivial(rec.name, "ref", rec.family, method)
    # a lattice walked by updating one point array in place, on one element object ("at every point"): values and
    # derivatives follow the points
    e2 = rec.make()
    Y = X.copy()
    for step in range(3):
        i = int(rng.integers(N))
        m = step % d
        Y[m] += 0.0625 * (1 if step % 2 == 0 else -1)
        got = e2.lbasis(Y, i)
        want = rec.make().lbasis(Y.copy(), i)
        ok = all(np.allclose(np.asarray(g), np.asarray(w), rtol=1e-12, atol=1e-13) for g, w in zip(got, want))
        ctx.check("ref-derivative", ok, mech=f"lbasis-ignores-in-place-update-of-the-points:{rec.name.split('(')[0]}",
                  elem=rec.name, i=i, step=step)
    ctx.reached("points-updated-in-place")
    ctx.sample({"elem": rec.name, "check": "reference-derivatives", "Nbfun": N, "points": X.shape[1]}, per_family=2)


# ------------------------------------------------------------ nodality / PoU
def nodal_pou(ctx, k):
    recs = [r for r in EL.registry() if r.family in ("h1",) and not r.skeleton]
    rec = recs[k % len(recs)]
    rng = ctx.rng()
    elem = rec.make()
    N = nbfun(elem)
    X = GEO.random_ref_points(rng, rec.kind, 9)
    if rec.nodal:
        L = np.asarray(elem.doflocs, dtype=float).T
        M = np.array([np.asarray(rec.make().lbasis(L.copy(), i)[0]) * np.ones(L.shape[1]) for i in range(N)])
        ctx.close("nodal-delta", M, np.eye(N), rtol=1e-12, scale=1.0, mech=f"nodal:{rec.name}", elem=rec.name)
        ctx.nontrivial(rec.name, "nodal")
    if rec.pou != "none":
        names = bfun_names(elem)
        idx = [i for i in range(N) if rec.pou == "all" or names[i] == "u"]
        S = sum(np.asarray(rec.make().lbasis(X.copy(), i)[0]) * np.ones(X.shape[1]) for i in idx)
        ctx.close("partition-of-unity", S, np.ones(X.shape[1]), rtol=1e-12, scale=1.0, mech=f"pou:{rec.name}",
                  elem=rec.name, functions=idx)
        D = sum(np.asarray(rec.make().lbasis(X.copy(), i)[1]) for i in idx)
        ctx.close("partition-of-unity", D, 0 * D, rtol=1e-11, scale=float(N), mech=f"pou-grad:{rec.name}",
                  elem=rec.name)
        ctx.nontrivial(rec.name, "pou", rec.pou)


# --------------------------------------------------------------- mapped level
CHAIN = ("value", "grad", "hess", "grad3", "grad4", "grad5", "grad6")


def field_get(f, name):
    return np.array(f) if name == "value" else getattr(f, name)


def wellshaped(rng, kind, axis_parallel):
    """Cells of size O(1) and bounded shape for globally defined elements: their monomial expansion in
    global coordinates and Vandermonde inversion are noise-limited on small or thin cells (DESIGN C09)."""
    import skfem
    sp = lambda n: np.concatenate([[0.0], np.cumsum(rng.choice([0.5, 0.75, 1.0, 1.25], size=n))])
    if kind == "line":
        x = sp(int(rng.integers(2, 5)))
        t = np.vstack([np.arange(x.size - 1), np.arange(1, x.size)])
        return G.MeshCase(skfem.MeshLine1(x[None, :], t), "line", 1, {"gen": "line", "style": "unit-scale"})
    if kind == "tri":
        if rng.random() < 0.5:
            m = skfem.MeshTri1.init_tensor(sp(2), sp(2))
            p, t = m.p.copy(), m.t.astype(np.int64)
        else:
            g = 2
            X, Y = np.meshgrid(np.arange(g + 1), np.arange(g + 1))
            p = np.vstack([X.ravel(), Y.ravel()]).astype(float)
            p = G.snap(p + rng.integers(-60, 61, size=p.shape) / 256.0, 10)
            from scipy.spatial import Delaunay
            t = Delaunay(p.T).simplices.T.astype(np.int64)
            t = G.quality_filter(p, t, 0.25)
            p, t = G.clean(p, t)
        p, t, _ = G.renumber(rng, p, t, "tri")
        return G.MeshCase(skfem.MeshTri1(p, t), "tri", 1, {"gen": "tri", "style": "unit-scale", "ncells": int(t.shape[1])})
    if kind == "quad":
        m = skfem.MeshQuad1.init_tensor(sp(2), sp(2))
        p, t = m.p.copy(), m.t.astype(np.int64)
        if not axis_parallel and rng.random() < 0.5:
            p = np.array([[1.0, 0.25], [0.0, 1.0]]) @ p
        p, t, _ = G.renumber(rng, p, t, "quad", local=not axis_parallel)
        return G.MeshCase(skfem.MeshQuad1(p, t), "quad", 1, {"gen": "quad", "style": "tensor", "unit": True})
    if kind == "hex":
        m = skfem.MeshHex1.init_tensor(sp(2), sp(1), sp(1))
        p, t = m.p.copy(), m.t.astype(np.int64)
        p, t, _ = G.renumber(rng, p, t, "hex", local=False)
        return G.MeshCase(skfem.MeshHex1(p, t), "hex", 1, {"gen": "hex", "style": "tensor", "unit": True})
    raise ValueError(kind)


def pick_mesh(ctx, rng, rec, k):
    kind = rec.kind
    if rec.family == "global":
        mc = wellshaped(rng, kind, rec.mesh_req == "axis-parallel")
    else:
        mc = G.first_order(rng, kind)
    mesh = mc.mesh
    geom = "affine" if mc.affine_cells else "multilinear"
    if k % 3 == 2 and rec.family != "global" and kind != "line":
        p = np.array(mesh.p)
        p[0] = -p[0]
        mesh = type(mesh)(p, np.array(mesh.t))
        geom += "-mirrored"
    if kind == "tri" and rec.family != "global":
        # "an arbitrary non-degenerate cell": every local vertex order, kept as given (sort_t=False is what loaded,
        # oriented and second-order meshes have); the derivative relations are cell-local and hold regardless
        t = np.array(mesh.t)
        for c in range(t.shape[1]):
            if rng.random() < 0.7:
                t[:, c] = t[rng.permutation(3), c]
        mesh = type(mesh)(np.array(mesh.p), t, sort_t=False)
        if not np.array_equal(mesh.t, t):
            raise Skip("constructor-resorted")
        if (t[0] > t[1]).any() or (t[1] > t[2]).any():
            ctx.reached("unsorted-triangle-cells")
        geom += "-unsorted"
    return mc, mesh, geom


def mapped_derivatives(ctx, k):
    allrecs = []
    for kind in G.KINDS:
        allrecs += [r for r in EL.all_for_kind(kind) if not r.skeleton]
    rec = allrecs[k % len(allrecs)]
    if not ctx.thorough and k >= len(allrecs) and rec.family not in ("hdiv", "hcurl", "global", "matrix"):
        raise Skip("second-quick-round-is-for-hdiv-hcurl-global-records")
    rng = ctx.rng()
    mc, mesh, geom = pick_mesh(ctx, rng, rec, int(rng.integers(0, 6)))
    kind = rec.kind
    d = GEO.REFDIM[kind]
    nt = mesh.t.shape[1]
    ncell = min(nt, 3)
    # options drawn from the rng (derived from k they alias with the record index: some (element, layout) pairs would
    # never occur in any tier)
    tind = rng.choice(nt, size=ncell, replace=False).astype(np.int64 if rng.random() < 0.5 else np.int32)
    if rng.random() < 0.2 and ncell >= 2:
        tind[-1] = tind[0]                      # a cell listed twice
        ctx.reached("tind-with-repeated-cell")
    use_tind = None if (rng.random() < 0.25 and nt <= 12) else tind
    cells = np.arange(nt) if use_tind is None else tind
    npts = int(rng.choice([4, 4, 1, len(cells)]))
    percell = bool(rng.random() < 0.5)
    if percell:
        X = np.stack([GEO.random_ref_points(rng, kind, npts) for _ in cells], axis=1)  # (d, ncells, npts)
        ctx.reached("per-cell-layout")
    else:
        X = GEO.random_ref_points(rng, kind, npts)
    if use_tind is not None:
        ctx.reached("subset-tind")
    elem = rec.make()
    mapping = mesh.mapping()
    p, t = np.asarray(mesh.p), np.asarray(mesh.t)
    DF = GEO.jacobian(kind, p, t, X, cells)          # (dim, dref, ncells, npts)
    if (GEO.det(DF) < 0).any():
        ctx.reached("negative-det-cell")
    if not mc.affine_cells:
        ctx.reached("non-affine-cell")
    invDF = GEO.inv(DF)                               # (dref, dim, ncells, npts)
    N = nbfun(elem) if not hasattr(elem, "elems") else sum(nbfun(e) for e in elem.elems)
    rtol = 1e-5 if (rec.family == "global" or "Global" in rec.name or any(
        n in rec.name for n in ("Morley", "Argyris", "Hermite", "15Param", "BFS", "HexC1", "P1G", "P2G", "Quad2G"))) else 1e-7
    hstep = 0.02
    idxs = list(range(N))
    if N > 14:
        # a window that rotates with the round, so that every local index is visited in turn (a random sample leaves a
        # single wrong high-index function of a 64-function element unseen for many rounds)
        rnd_ = k // len(allrecs)
        idxs = sorted({(rnd_ * 14 + m_) % N for m_ in range(14)})
        # plus one cheap complete pass per case: every local function, first derivative chain only at one point of one cell
        full_pass = bool(ctx.thorough or k % 3 == 0)
    else:
        full_pass = False

    fresh_each_call = rec.name.startswith(("ElementLinePp", "ElementQuadP"))  # C15's table staleness is not C09's

    def gb(Xp, i):
        e = rec.make() if fresh_each_call else elem
        return e.gbasis(mapping, Xp, i, use_tind)

    shifted = {}

    def gb_shifted(i, m, s):
        """gbasis at X + s*hstep*e_m; one evaluation delivers every field of the chain, so it is kept for the
        components and derivative levels of this local function (same difference formula as fdiff)."""
        if shifted.get("i") != i:
            shifted.clear()
            shifted["i"] = i
        if (m, s) not in shifted:
            Y = X.copy()
            if s > 0:
                Y[m] += s * hstep
            else:
                Y[m] -= (-s) * hstep
            shifted[(m, s)] = gb(Y, i)
        return shifted[(m, s)]

    def phys_grad(getter, i):
        """grad_x of the array-valued function Xp -> getter(gbasis(Xp)) : derivative axis appended after the
        leading axes of the field; result (..., dim, ncells, npts)."""
        dX = []
        for m in range(d):
            out = 0
            for s, c in FD:
                out = out + c * (np.asarray(getter(gb_shifted(i, m, s))) - np.asarray(getter(gb_shifted(i, m, -s))))
            dX.append(out / hstep)
        dX = np.stack(dX)  # (dref, ..., nc, np)
        return np.einsum("mkcq,m...cq->...kcq", invDF, dX)

    for i in idxs:
        fields = gb(X, i)
        for comp, f in enumerate(fields):
            val = np.array(f)
            if val.shape[-2:] != (len(cells), npts):
                ctx.check("field-shape", False, mech=f"field-shape:{rec.name}", elem=rec.name, shape=val.shape,
                          want=(len(cells), npts))
                continue
            if rec.family == "h1" and "(" not in rec.name.replace("ElementLinePp(", "") and len(fields) == 1 and val.ndim == 2:
                # (ElementQuadP signs its odd edge modes along the global edge direction: not a plain pull-back)
                # the mapped value of an H1 function is its reference value at the same reference point
                lref = np.asarray(rec.make().lbasis(X, i)[0])
                lref = lref if percell else np.broadcast_to(lref, val.shape)
                ctx.close("mapped-value", val, lref, rtol=1e-12, scale=max(1.0, float(np.abs(lref).max())),
                          mech=f"mapped-value:{rec.name.split('(')[0]}", elem=rec.name, i=i, geom=geom, percell=percell)
            Gx = phys_grad(lambda fs, comp=comp: np.array(fs[comp]), i)
            sc = lambda ref, got: max(float(np.abs(ref).max()), float(np.abs(got).max()), 1e-3 * float(np.abs(val).max()) + 1e-12)
            tag = dict(elem=rec.name, i=i, comp=comp, geom=geom, percell=percell, subset=use_tind is not None,
                       mesh=mc.desc)
            base = rec.name.split("(")[0]
            if f.grad is not None:
                ctx.close("mapped-grad", f.grad, Gx, rtol=rtol, scale=sc(Gx, f.grad), mech=f"mapped-grad:{base}", **tag)
                if np.abs(Gx).max() > 0:
                    ctx.nontrivial(rec.name, "mapped", "grad", geom, percell)
            if f.div is not None and val.ndim == 3:
                ref = sum(Gx[n, n] for n in range(val.shape[0]))
                ctx.close("mapped-div", f.div, ref, rtol=rtol, scale=sc(Gx, f.div), mech=f"mapped-div:{base}", **tag)
                if np.abs(ref).max() > 0:
                    ctx.nontrivial(rec.name, "mapped", "div", geom, percell)
            if f.curl is not None and val.ndim == 3:
                if val.shape[0] == 2:
                    ref = Gx[1, 0] - Gx[0, 1]
                else:
                    ref = np.stack([Gx[2, 1] - Gx[1, 2], Gx[0, 2] - Gx[2, 0], Gx[1, 0] - Gx[0, 1]])
                ctx.close("mapped-curl", f.curl, ref, rtol=rtol, scale=sc(Gx, f.curl), mech=f"mapped-curl:{base}", **tag)
                if np.abs(ref).max() > 0:
                    ctx.nontrivial(rec.name, "mapped", "curl", geom, percell)
            # chain of higher derivatives: each is the derivative of the previous delivered field
            prev = "grad"
            for name in CHAIN[2:]:
                cur = getattr(f, name, None)
                if cur is None or getattr(f, prev, None) is None:
                    break
                ref = phys_grad(lambda fs, comp=comp, prev=prev: np.asarray(getattr(fs[comp], prev)), i)
                mon = "mapped-hess" if name == "hess" else "mapped-higher"
                ctx.close(mon, cur, ref, rtol=rtol * (10 if name != "hess" else 1), scale=sc(ref, cur),
                          mech=f"mapped-{name}:{base}", **tag)
                if name != "hess":
                    ctx.reached("higher-derivative-chain")
                if np.abs(ref).max() > 0:
                    ctx.nontrivial(rec.name, "mapped", name, geom, percell)
                prev = name
    if full_pass:
        X1 = GEO.random_ref_points(rng, kind, 1)
        c1 = cells[:1]
        DF1 = GEO.jacobian(kind, p, t, X1, c1)
        inv1 = GEO.inv(DF1)
        ut1 = None if use_tind is None and len(cells) == nt else c1
        if use_tind is None:
            c1 = np.arange(nt)[:1]
            ut1 = c1
        for i in range(N):
            if i in idxs:
                continue
            # globally defined elements invert one Vandermonde matrix per cell and object: the object of this case
            e_ = elem if rec.family == "global" else rec.make()
            f0 = e_.gbasis(mapping, X1, i, ut1)
            for comp, f in enumerate(f0):
                if f.grad is None or np.array(f).ndim != 2:
                    continue
                dX1 = np.stack([fdiff(lambda Y: np.array((rec.make() if fresh_each_call else e_).gbasis(mapping, Y, i, ut1)[comp]), X1, m_, hstep)
                                for m_ in range(d)])
                G1 = np.einsum("mkcq,mcq->kcq", inv1, dX1)
                ctx.close("mapped-grad", f.grad, G1, rtol=rtol, scale=max(float(np.abs(G1).max()), float(np.abs(f.grad).max()), 1e-9),
                          mech=f"mapped-grad:{rec.name.split('(')[0]}", elem=rec.name, i=i, comp=comp, geom=geom, full_pass=True)
        ctx.reached("every-local-function-of-large-elements")
    # the two point layouts give the same fields
    if not percell and len(idxs):
        i = idxs[int(rng.integers(len(idxs)))]
        Xb = np.broadcast_to(X[:, None, :], (d, len(cells), npts)).copy()
        fa, fb = gb(X, i), rec.make().gbasis(mesh.mapping(), Xb, i, use_tind)
        for a, b in zip(fa, fb):
            for name in ("value", "grad", "div", "curl", "hess"):
                va, vb = field_get(a, name), field_get(b, name)
                if va is None or vb is None:
                    continue
                ctx.close("layouts-agree", vb, va, rtol=1e-9 if rtol < 1e-6 else 1e-6,
                          scale=max(float(np.abs(va).max()), 1e-12),
                          mech=f"layouts:{rec.name.split('(')[0]}", elem=rec.name, i=i, field=name)
    ctx.sample({"elem": rec.name, "mesh": mc.desc, "geom": geom, "cells": cells.tolist(), "percell": percell,
                "indices": idxs[:6]}, per_family=2)


# ------------------------------------------------------------------- duality
def _facet_quadrature(kind, s, rd):
    """Reference points/weights on local facet s of the reference cell, outward reference normal area vector
    handled by the caller through the physical map."""
    P = np.asarray(rd.p, dtype=float)
    verts = list(dict.fromkeys(rd.facets[s]))  # drop padded repeats, keep order
    V = P[:, verts]
    g = np.array([0.5 - np.sqrt(3) / 6, 0.5 + np.sqrt(3) / 6])
    if len(verts) == 1:
        return V, np.array([1.0]), verts
    if len(verts) == 2:
        X = V[:, :1] + (V[:, 1:2] - V[:, :1]) * g[None, :]
        return X, np.array([0.5, 0.5]), verts
    if len(verts) == 3:
        lam = np.array([[2 / 3, 1 / 6, 1 / 6], [1 / 6, 2 / 3, 1 / 6], [1 / 6, 1 / 6, 2 / 3]]).T
        return V @ lam, np.array([1 / 6] * 3), verts
    # quadrilateral face with cyclic vertex order
    a, b = np.meshgrid(g, g)
    a, b = a.ravel(), b.ravel()
    X = (V[:, [0]] * (1 - a) * (1 - b) + V[:, [1]] * a * (1 - b) + V[:, [2]] * a * b + V[:, [3]] * (1 - a) * b)
    return X, np.array([0.25] * 4), verts


FLUX_NORMALISATION = {"ElementTriRT1": 1.0, "ElementQuadRT1": 1.0, "ElementHexRT1": 1.0, "ElementTetRT1": 0.5}


def duality(ctx, k):
    recs = [EL.by_name(n) for n in ("ElementTriRT1", "ElementQuadRT1", "ElementTetRT1", "ElementHexRT1",
                                    "ElementTriN1", "ElementQuadN1", "ElementTetN1")]
    rec = recs[k % len(recs)]
    rng = ctx.rng()
    kind = rec.kind
    d = GEO.REFDIM[kind]
    mc = G.first_order(rng, kind)
    if kind == "hex" and not mc.planar_faces:
        mc = G.hex_mesh(rng, style="extruded")
    mesh = mc.mesh
    rd = mesh.elem.refdom
    p, t = np.asarray(mesh.p), np.asarray(mesh.t)
    nt = t.shape[1]
    cells = rng.choice(nt, size=min(4, nt), replace=False)
    elem = rec.make()
    mapping = mesh.mapping()
    if rec.family == "hdiv":
        nf = rd.nfacets
        M = np.zeros((len(cells), nf, nf))
        for s in range(nf):
            X, W, verts = _facet_quadrature(kind, s, rd)
            DF = GEO.jacobian(kind, p, t, X, cells)  # (dim, dref, nc, nq)
            # physical area vector: cofactor(DF) applied to the reference area vector of the facet
            Pv = np.asarray(rd.p, dtype=float)[:, verts]
            if d == 2:
                tau = Pv[:, 1] - Pv[:, 0]
                nref = np.array([tau[1], -tau[0]])
            else:
                nref = np.cross(Pv[:, 1] - Pv[:, 0], Pv[:, 2] - Pv[:, 0])
            # outward on the reference cell, whatever order the table lists the facet's vertices in
            if nref @ (Pv.mean(axis=1) - np.asarray(rd.p, dtype=float).mean(axis=1)) < 0:
                nref = -nref
            # W sums to the measure of the parameter domain (unit segment, unit triangle, unit square) and
            # nref is the constant reference area vector of that parametrisation
            Wn = W
            detJ = GEO.det(DF)
            cof = np.einsum("cq,kicq->ikcq", detJ, GEO.inv(DF))  # det * inv(DF)^T : (dim, dref, nc, nq)
            nphys = np.einsum("ikcq,k->icq", cof, nref)           # area vector density
            for i in range(nf):
                v = np.array(elem.gbasis(mapping, X, i, cells)[0])  # (dim, nc, nq)
                M[:, s, i] = np.einsum("icq,icq,q->c", v, nphys, Wn) * np.sign(detJ[:, 0])
        # dual up to one fixed normalisation constant c per element class (library: 1 in 2-D, 1/2 for
        # ElementTetRT1 whose functional is twice the flux): off-diagonal fluxes vanish, |diagonal| == c
        c = FLUX_NORMALISATION[rec.name]       # pinned: measured once on the library and recorded (TetRT1: twice the flux)
        ok = np.allclose(np.abs(M), c * np.eye(nf)[None], atol=1e-9)
        # sign: +1 towards the outside of the first cell of the facet (f2t[0]), -1 seen from the second
        t2f, f2t = np.asarray(mesh.t2f), np.asarray(mesh.f2t)
        want = np.array([[1.0 if f2t[0, t2f[s_, cc]] == cc else -1.0 for s_ in range(nf)] for cc in cells])
        sgn = np.sign(np.einsum("css->cs", M))
        ctx.check("hdiv-flux-dual", np.array_equal(sgn, want), mech=f"flux-sign:{rec.name}", elem=rec.name, mesh=mc.desc,
                  got=lambda: sgn.tolist(), want=lambda: want.tolist())
        ctx.notes[f"flux-normalisation:{rec.name}"] = round(float(np.abs(M[0, 0, 0])), 12)
        ctx.check("hdiv-flux-dual", ok, mech=f"flux-dual:{rec.name}", elem=rec.name, mesh=mc.desc,
                  M=lambda: np.round(M[0], 6))
        ctx.nontrivial(rec.name, "flux-dual", mc.desc.get("style"))
    else:
        edges = rd.edges if d == 3 else rd.facets
        ne = len(edges)
        M = np.zeros((len(cells), ne, ne))
        g = np.array([0.5 - np.sqrt(3) / 6, 0.5 + np.sqrt(3) / 6])
        Pr = np.asarray(rd.p, dtype=float)
        for s, (a, b) in enumerate(edges):
            X = Pr[:, [a]] + (Pr[:, [b]] - Pr[:, [a]]) * g[None, :]
            DF = GEO.jacobian(kind, p, t, X, cells)
            tau = np.einsum("ikcq,k->icq", DF, Pr[:, b] - Pr[:, a])
            for i in range(ne):
                v = np.array(elem.gbasis(mapping, X, i, cells)[0])
                M[:, s, i] = np.einsum("icq,icq,q->c", v, tau, np.array([0.5, 0.5]))
        c = 1.0                                 # pinned: unit circulation along the own edge
        ok = np.allclose(np.abs(M), c * np.eye(ne)[None], atol=1e-9)
        # sign: along the edge from the smaller to the larger global vertex number
        # (times the element's own convention, pinned like the flux normalisation: ElementTriN1 circulates clockwise)
        conv = {"ElementTriN1": -1.0}.get(rec.name, 1.0)
        want = conv * np.array([[1.0 if t[a_, cc] < t[b_, cc] else -1.0 for (a_, b_) in edges] for cc in cells])
        sgn = np.sign(np.einsum("css->cs", M))
        ctx.check("hcurl-circulation-dual", np.array_equal(sgn, want), mech=f"circulation-sign:{rec.name}", elem=rec.name,
                  mesh=mc.desc, got=lambda: sgn.tolist(), want=lambda: want.tolist())
        ctx.notes[f"circulation-normalisation:{rec.name}"] = round(float(np.abs(M[0, 0, 0])), 12)
        ctx.check("hcurl-circulation-dual", ok, mech=f"circulation-dual:{rec.name}", elem=rec.name, mesh=mc.desc,
                  M=lambda: np.round(M[0], 6))
        ctx.nontrivial(rec.name, "circulation-dual", mc.desc.get("style"))


DERIV = {"u": (), "u_x": (0,), "u_y": (1,), "u_z": (2,), "u_xx": (0, 0), "u_xy": (0, 1), "u_yy": (1, 1),
         "u_xz": (0, 2), "u_yz": (1, 2), "u_xyz": (0, 1, 2)}


def global_dofs(ctx, k):
    recs = [r for r in EL.registry() if r.family == "global"]
    rec = recs[k % len(recs)]
    rng = ctx.rng()
    mc, mesh, geom = pick_mesh(ctx, rng, rec, 0)
    kind = rec.kind
    if rec.name == "ElementQuad2G" and (k // len(recs)) % 2 == 1:
        # point-value functionals are dual to the basis on every cell on which they are unisolvent, not only on
        # parallelograms: mildly distorted convex quadrilaterals (perturbation < 0.1 on spacing >= 0.5)
        import skfem
        p = np.array(mesh.p)
        p = p + rng.integers(-24, 25, size=p.shape) / 256.0
        mesh = skfem.MeshQuad1(p, np.array(mesh.t))
        mc = G.MeshCase(mesh, "quad", 1, {"gen": "quad", "style": "unit-scale-distorted"})
        ctx.reached("global-nodal-on-general-quadrilateral")
    rd = mesh.elem.refdom
    elem = rec.make()
    mapping = mesh.mapping()
    nt = mesh.t.shape[1]
    cells = rng.choice(nt, size=min(3, nt), replace=False)
    names = bfun_names(elem)
    N = len(names)
    if N != nbfun(elem):
        raise Skip("dofnames-do-not-cover")
    Pr = np.asarray(rd.p, dtype=float)
    # functional list: (reference point, kind, data)
    funcs = []
    for v in range(rd.nnodes):
        for j in range(elem.nodal_dofs):
            funcs.append((Pr[:, v], names[len(funcs)]))
    if GEO.REFDIM[kind] >= 2:
        for s in range(rd.nfacets):
            verts = list(dict.fromkeys(rd.facets[s]))
            for j in range(elem.facet_dofs):
                funcs.append((Pr[:, verts].mean(1), names[len(funcs)], s))
    for j in range(elem.interior_dofs):
        funcs.append((Pr.mean(1), names[len(funcs)]))
    if elem.edge_dofs and GEO.REFDIM[kind] == 3:
        raise Skip("3d-edge-dofs-not-modelled")
    X = np.array([f[0] for f in funcs]).T  # (dref, N)
    p, t = np.asarray(mesh.p), np.asarray(mesh.t)
    DF = GEO.jacobian(kind, p, t, X, cells)
    M = np.zeros((len(cells), N, N))
    supported = True
    for i in range(N):
        f = elem.gbasis(mapping, X, i, cells)[0]
        for r, fn in enumerate(funcs):
            name = fn[1]
            if name in DERIV:
                mi = DERIV[name]
                arr = [np.array(f), f.grad, f.hess, getattr(f, "grad3", None)][len(mi)]
                if arr is None:
                    supported = False
                    continue
                M[:, r, i] = arr[mi + (slice(None), r)]
            elif name == "u_n":
                s = fn[2]
                verts = list(dict.fromkeys(rd.facets[s]))
                tau = np.einsum("ikc,k->ic", DF[:, :, :, r], Pr[:, verts[1]] - Pr[:, verts[0]])
                n = np.stack([tau[1], -tau[0]]) / np.linalg.norm(tau, axis=0)
                M[:, r, i] = np.einsum("ic,ic->c", f.grad[:, :, r], n)
            else:
                supported = False
    if not supported:
        raise Skip("functional-not-modelled")
    # identity up to the library's sign convention for normal-derivative functionals
    signed = np.array([fn[1] != "u_n" for fn in funcs])
    Ms = M.copy()
    Ms[:, ~signed, :] = np.abs(Ms[:, ~signed, :])
    target = np.eye(N)[None]
    ok = np.allclose(np.where(signed[None, :, None], Ms, np.abs(M)), np.where(signed[None, :, None], target, np.abs(target)),
                     atol=1e-6 * max(1.0, float(np.abs(M).max())))
    off = np.abs(M - np.eye(N)[None] * np.sign(np.einsum("cii->ci", M))[:, :, None]).max()
    ctx.check("global-dofs-dual", ok, mech=f"global-dual:{rec.name}", elem=rec.name, mesh=mc.desc, worst=float(off))
    ctx.nontrivial(rec.name, "global-dual", mc.desc.get("style"))
    ctx.sample({"elem": rec.name, "functionals": [f[1] for f in funcs], "cells": cells.tolist()}, per_family=1)


# ------------------------------------------- nearby queries on one element object
ALL_FIELDS = ("value", "grad", "div", "curl", "hess", "grad3", "grad4", "grad5", "grad6")
QUOTIENT_STEPS = (2.0 ** -20, 2.0 ** -23)      # ~1e-6, ~1e-7: far above rounding, far below any feature of the functions


def cached_wrappers():
    """Wrappers around the parametrised elements (which tabulate per query): the wrapper delegates to the inner object."""
    lp, qp = EL.by_name("ElementLinePp(3)"), EL.by_name("ElementQuadP(3)")
    return [EL.dg(lp), EL.vector(lp, 2), EL.composite(lp, EL.by_name("ElementLineP1")),
            EL.dg(qp), EL.vector(qp), EL.composite(EL.by_name("ElementQuad1"), EL.by_name("ElementQuadP(2)"))]


def nearby_records():
    out = []
    for kind in G.KINDS:
        out += EL.all_for_kind(kind)
    return out + high_degree_records() + cached_wrappers()


def nearby_sequence(rng, X0, ulp=True):
    """Point sets of the shape of X0 that differ from X0 by tiny amounts, in random order: (tag, points)."""
    flat = X0.reshape(-1)
    one = X0.copy()
    nz = np.flatnonzero(flat != 0)
    j = int(rng.choice(nz))
    one.reshape(-1)[j] = np.nextafter(flat[j], 2.0)
    pt = X0.copy()
    q = int(rng.integers(1, X0.shape[-1]))        # one whole point moves (relative 1e-6), all the others stay
    pt[..., q] = X0[..., q] * (1 + 1e-6)
    sg = rng.choice([-1.0, 1.0], size=X0.shape)
    sg[..., 0] = 1.0                              # the vertex at the origin moves into the cell
    seq = [("relative-1e-6", X0 * (1 + 1e-6)), ("relative-1e-9", X0 * (1 + 1e-9)),
           ("one-ulp", np.nextafter(X0, 2.0)), ("single-entry-one-ulp", one),
           ("absolute-1e-9", X0 + 1e-9), ("absolute-1e-6-mixed-signs", X0 + 2.0 ** -20 * sg),
           ("single-point-moved", pt)]
    if not ulp:
        seq = [s_ for s_ in seq if "ulp" not in s_[0]]
    order = rng.permutation(len(seq))
    seq = [seq[o] for o in order]
    seq.insert(int(rng.integers(2, len(seq) + 1)), ("back-to-first", X0.copy()))
    return seq


def _bitwise(a, b):
    if a is None or b is None:
        return a is None and b is None
    a, b = np.asarray(a), np.asarray(b)
    return a.shape == b.shape and np.array_equal(a, b, equal_nan=True)


def _fields_of(f):
    out = {}
    for name in ALL_FIELDS:
        a = np.array(f) if name == "value" else getattr(f, name, None)
        if a is not None:
            out[name] = np.asarray(a)
    return out


def _pick_indices(rng, N, m):
    if N <= m:
        return list(range(N))
    return sorted({0, N - 1} | set(int(v) for v in rng.choice(N, size=m - 2, replace=False)))


def fresh_mapping(mesh):
    """A new mapping object (Mesh.mapping() hands out one remembered object per mesh)."""
    from skfem.mapping import MappingAffine, MappingIsoparametric
    if mesh.affine:
        return MappingAffine(mesh)
    return MappingIsoparametric(mesh, mesh.elem(), mesh.bndelem)


def nearby_queries(ctx, k):
    """Every delivered field is a function of the query point: ONE element object (and one mapping object) asked at a
    sequence of point sets of equal shape that differ by tiny amounts returns, each time, exactly what a fresh object
    returns at those points (second execution that must agree: same code, same input); and the difference quotient of
    the values delivered by that same object at x+h, x-h (h ~ 1e-6, 1e-7) is the derivative it delivered at x."""
    recs = nearby_records()
    rec = recs[k % len(recs)]
    rng = ctx.rng()
    kind = rec.kind
    d = GEO.REFDIM[kind]
    base = rec.name.split("(")[0] if rec.name.startswith(("ElementLinePp(", "ElementQuadP(")) else rec.name
    npts = 4
    Xi = GEO.random_ref_points(rng, kind, npts)            # interior points (difference quotients)
    X0 = Xi.copy()
    X0[:, 0] = 0.0                                         # a vertex: absolute perturbations matter there
    has_l = rec.family in ("h1", "hdiv", "hcurl", "matrix")
    nmax = ctx.scale(5, 12)

    # ---- reference level
    if has_l:
        e = rec.make()
        N = nbfun(e)
        idx = _pick_indices(rng, N, nmax)

        def same_l(got, want):
            return len(got) == len(want) and all(_bitwise(g, w) for g, w in zip(got, want))

        def judge_l(got, Xs, i, tag):
            # lbasis is elementwise arithmetic on the point array: the same input (same values, same memory layout)
            # gives the same bits.  Should two FRESH objects ever disagree bitwise, bitwise agreement is not a sound
            # demand for this element: fall back to a few units of rounding and count it.
            want = rec.make().lbasis(Xs.copy(), i)
            ok = same_l(got, want)
            if not ok and not same_l(want, rec.make().lbasis(Xs.copy(), i)):
                ctx.tolerated("history-independent")
                ctx.drop("lbasis-not-bitwise-reproducible:" + base)
                ok = len(got) == len(want) and all(
                    (g is None and w is None) or np.allclose(np.asarray(g, dtype=float), np.asarray(w, dtype=float), rtol=0,
                                                             atol=64 * 2.3e-16 * max(1.0, float(np.abs(np.asarray(w, dtype=float)).max())))
                    for g, w in zip(got, want))
            ctx.check("history-independent", ok, mech=f"nearby-query-returns-values-of-other-points:{base}",
                      elem=rec.name, i=i, level="lbasis", perturbation=tag,
                      worst=lambda: max(float(np.abs(np.asarray(g, dtype=float) - np.asarray(w, dtype=float)).max())
                                        for g, w in zip(got, want)))
            return want

        prev = {i: judge_l(e.lbasis(X0.copy(), i), X0, i, "first-query") for i in idx}
        for tag, Xs in nearby_sequence(rng, X0):
            changed = False
            for i in idx:
                want = judge_l(e.lbasis(Xs.copy(), i), Xs, i, tag)
                changed = changed or not same_l(want, prev[i])
                prev[i] = want
            ctx.reached("nearby-query:" + tag)
            ctx.reached("nearby-query:lbasis")
            if changed:
                ctx.nontrivial(base, "nearby", "lbasis", tag)
        if rec.family != "matrix" and not rec.skeleton:
            for h in QUOTIENT_STEPS[:ctx.scale(1, 2)] if N > 30 else QUOTIENT_STEPS:
                for i in idx:
                    phi, dphi = e.lbasis(Xi.copy(), i)
                    phi = np.asarray(phi)
                    J = []
                    for m in range(d):
                        Xp, Xm = Xi.copy(), Xi.copy()
                        Xp[m] += h
                        Xm[m] -= h
                        J.append((np.asarray(e.lbasis(Xp, i)[0]) - np.asarray(e.lbasis(Xm, i)[0])) / (Xp[m] - Xm[m]))
                    J = np.stack([np.asarray(j_) * np.ones(npts) for j_ in J])
                    if rec.family == "h1":
                        ref = J
                    elif rec.family == "hdiv":
                        ref = sum(J[m][m] for m in range(d))
                    elif d == 2:
                        ref = J[0][1] - J[1][0]
                    else:
                        ref = np.stack([J[1][2] - J[2][1], J[2][0] - J[0][2], J[0][1] - J[1][0]])
                    scale = max(1.0, float(np.abs(ref).max()), float(np.abs(phi).max()), float(np.abs(np.asarray(dphi)).max()))
                    ctx.close("same-object-quotient", np.asarray(dphi) * np.ones(np.shape(ref)), ref, rtol=1e-5, scale=scale,
                              mech=f"difference-quotient-of-delivered-values-is-not-the-delivered-derivative:{base}",
                              elem=rec.name, i=i, h=h, level="lbasis")
                    if np.abs(np.asarray(dphi)).max() > 0:
                        ctx.nontrivial(base, "same-object-quotient", "lbasis", h)
            ctx.reached("same-object-quotient:lbasis")

    # ---- mapped level: one element object and one mapping object
    if rec.family == "global":
        mc = wellshaped(rng, kind, rec.mesh_req == "axis-parallel")
    else:
        mc = G.first_order(rng, kind)
    mesh = mc.mesh
    nt = mesh.t.shape[1]
    cells = np.sort(rng.choice(nt, size=min(nt, 2), replace=False)).astype(np.int64)
    percell = bool(rng.random() < 0.4)
    if percell:
        lift = lambda Y: np.stack([Y[:, np.roll(np.arange(npts), c_)] for c_ in range(len(cells))], axis=1)
        ctx.reached("nearby-query:per-cell-layout")
    else:
        lift = lambda Y: Y
    e = rec.make()
    mapping = mesh.mapping()
    N = nbfun(e) if not hasattr(e, "elems") else sum(nbfun(e_) for e_ in e.elems)
    idx = _pick_indices(rng, N, ctx.scale(4, 10))
    is_global = rec.family == "global"

    def fresh_eval(Y, i, cache={}):
        # globally defined elements invert their Vandermonde matrices per object: one fresh object per point set
        if is_global:
            key = Y.tobytes()
            if cache.get("key") != key:
                cache.clear()
                cache["key"], cache["obj"] = key, (rec.make(), fresh_mapping(mesh))
            e_, mp_ = cache["obj"]
        else:
            e_, mp_ = rec.make(), fresh_mapping(mesh)
        return [_fields_of(f) for f in e_.gbasis(mp_, Y.copy(), i, cells.copy())]

    # mapped fields go through einsum reductions whose rounding depends on the memory layout of the operands: agreement
    # up to rounding relative to the size of the field (one-ulp perturbations cannot be told from rounding there)
    htol = 1e-9 if (is_global or "Global" in rec.name) else 1e-12

    p, t = np.asarray(mesh.p), np.asarray(mesh.t)
    Y0 = np.ascontiguousarray(lift(Xi))
    invDF = GEO.inv(GEO.jacobian(kind, p, t, Y0, cells))       # (dref, dim, ncells, npts)
    inorm = float(np.abs(invDF).max())
    ORDER = {"value": 0, "grad": 1, "div": 1, "curl": 1, "hess": 2, "grad3": 3, "grad4": 4, "grad5": 5, "grad6": 6}

    def gap(got, want):
        """largest |got-want| / scale over the fields, the scale of a k-th derivative field being at least
        max|value| |DF^-1|^k (a derivative that vanishes up to rounding is compared on the scale of the terms that
        cancel in it); inf if the structure differs."""
        if len(got) != len(want) or any(g.keys() != w.keys() for g, w in zip(got, want)):
            return np.inf
        worst = 0.0
        for g, w in zip(got, want):
            vs = max(float(np.nanmax(np.abs(w["value"]))), float(np.nanmax(np.abs(g["value"])))) if w["value"].size else 0.0
            vs = vs if np.isfinite(vs) else 0.0
            for n_ in w:
                if g[n_].shape != w[n_].shape:
                    return np.inf
                if w[n_].size == 0:
                    continue
                fin = np.isfinite(w[n_])
                if not np.array_equal(fin, np.isfinite(g[n_])) or not np.array_equal(g[n_][~fin], w[n_][~fin], equal_nan=True):
                    return np.inf
                if not fin.any():
                    continue
                sc = max(float(np.abs(w[n_][fin]).max()), float(np.abs(g[n_][fin]).max()), vs * inorm ** ORDER[n_])
                err = float(np.abs(g[n_][fin] - w[n_][fin]).max())
                if sc > 0:
                    worst = max(worst, err / sc)
        return worst

    def history_eval(Y, i):
        return [_fields_of(f) for f in e.gbasis(mapping, np.ascontiguousarray(Y).copy(), i, cells)]

    seq = [("first-query", X0.copy())] + nearby_sequence(rng, X0, ulp=False)
    if not ctx.thorough:
        seq = seq[:4] if is_global else seq[:6]
    prev = {}
    for tag, Xs in seq:
        changed = False
        Y = np.ascontiguousarray(lift(Xs))
        for i in idx:
            got = history_eval(Y, i)
            want = fresh_eval(Y, i)
            r_ = gap(got, want)
            ctx.check("history-independent", r_ <= htol, mech=f"nearby-query-returns-values-of-other-points:{base}",
                      elem=rec.name, i=i, level="gbasis", perturbation=tag, percell=percell, mesh=mc.desc, worst=r_, tol=htol)
            if r_ <= htol and r_ / htol > ctx.max_err.get("history-independent", 0.0):
                ctx.max_err["history-independent"] = r_ / htol       # fraction of the tolerance used
            changed = changed or (i in prev and gap(want, prev[i]) > 100 * htol)
            prev[i] = want
        if tag != "first-query":
            ctx.reached("nearby-query:" + tag)
            ctx.reached("nearby-query:gbasis")
        if changed:
            ctx.nontrivial(base, "nearby", "gbasis", tag, percell)
    if rec.skeleton:
        return
    # difference quotients of the fields delivered by this same object, pushed to physical derivatives with the harness'
    # own Jacobians
    rtol = 1e-2 if (is_global or "Global" in rec.name) else 1e-4
    h = QUOTIENT_STEPS[0]
    for i in idx[:ctx.scale(3, 10)]:
        f0 = [_fields_of(f) for f in e.gbasis(mapping, Y0.copy(), i, cells)]
        fp, fm, dx = [], [], []
        for m in range(d):
            Yp, Ym = Y0.copy(), Y0.copy()
            Yp[m] += h
            Ym[m] -= h
            fp.append([_fields_of(f) for f in e.gbasis(mapping, Yp, i, cells)])
            fm.append([_fields_of(f) for f in e.gbasis(mapping, Ym, i, cells)])
            dx.append(Yp[m] - Ym[m])

        def phys(comp, name):
            dX = np.stack([(fp[m][comp][name] - fm[m][comp][name]) / dx[m] for m in range(d)])
            return np.einsum("mkcq,m...cq->...kcq", invDF, dX)

        for comp, f in enumerate(f0):
            val = f["value"]
            if val.shape[-2:] != (len(cells), npts):
                continue
            Gx = phys(comp, "value")
            vs = float(np.abs(val).max()) * inorm
            tag_ = dict(elem=rec.name, i=i, comp=comp, h=h, level="gbasis", percell=percell, mesh=mc.desc)
            mech = f"difference-quotient-of-delivered-values-is-not-the-delivered-derivative:{base}"
            if "grad" in f:
                ctx.close("same-object-quotient", f["grad"], Gx, rtol=rtol,
                          scale=max(float(np.abs(Gx).max()), float(np.abs(f["grad"]).max()), vs, 1e-300), mech=mech, field="grad", **tag_)
                if np.abs(f["grad"]).max() > 0:
                    ctx.nontrivial(base, "same-object-quotient", "gbasis", "grad")
            if "div" in f and val.ndim == 3:
                ref = sum(Gx[n_, n_] for n_ in range(val.shape[0]))
                ctx.close("same-object-quotient", f["div"], ref, rtol=rtol,
                          scale=max(float(np.abs(Gx).max()), float(np.abs(f["div"]).max()), vs, 1e-300), mech=mech, field="div", **tag_)
                if np.abs(f["div"]).max() > 0:
                    ctx.nontrivial(base, "same-object-quotient", "gbasis", "div")
            if "curl" in f and val.ndim == 3:
                if val.shape[0] == 2:
                    ref = Gx[1, 0] - Gx[0, 1]
                else:
                    ref = np.stack([Gx[2, 1] - Gx[1, 2], Gx[0, 2] - Gx[2, 0], Gx[1, 0] - Gx[0, 1]])
                ctx.close("same-object-quotient", f["curl"], ref, rtol=rtol,
                          scale=max(float(np.abs(Gx).max()), float(np.abs(f["curl"]).max()), vs, 1e-300), mech=mech, field="curl", **tag_)
                if np.abs(f["curl"]).max() > 0:
                    ctx.nontrivial(base, "same-object-quotient", "gbasis", "curl")
            if "hess" in f and "grad" in f:
                ref = phys(comp, "grad")
                gs = float(np.abs(f["grad"]).max()) * inorm
                ctx.close("same-object-quotient", f["hess"], ref, rtol=rtol,
                          scale=max(float(np.abs(ref).max()), float(np.abs(f["hess"]).max()), gs, vs * inorm, 1e-300), mech=mech,
                          field="hess", **tag_)
    ctx.reached("same-object-quotient:gbasis")
    ctx.sample({"elem": rec.name, "check": "nearby-queries", "mesh": mc.desc, "cells": cells.tolist(), "percell": percell,
                "indices": idx[:6], "sequence": [s[0] for s in seq]}, per_family=2)


def _n_nearby(ctx):
    return len(nearby_records()) * ctx.scale(1, 6)


def _n_ref(ctx):
    return 2 * (len([r for r in EL.registry() if r.family in ("h1", "hdiv", "hcurl") and not r.skeleton]) + len(high_degree_records()))


def point_spellings(ctx, k):
    """"At every point": the points are numbers, however the caller's array stores them.  Reference vertices and the
    lattice {0, 1/2, 1}^d given as int64 / int32 / float32 arrays, in Fortran order, as a strided view and read-only
    must give the fields delivered for the same points as a float64 C array (second execution that must agree; a fresh
    element object each time).  Integer and float32 lattice points are exact doubles, so nothing but the dtype differs."""
    recs = nearby_records()
    rec = recs[k % len(recs)]
    rng = ctx.rng()
    kind = rec.kind
    d = GEO.REFDIM[kind]
    base = rec.name.split("(")[0] if rec.name.startswith(("ElementLinePp(", "ElementQuadP(")) else rec.name
    V = np.asarray(GEO.ref_vertices(kind), dtype=float)                      # (d, nv), entries 0/1
    half = np.clip(V * 0.5 + 0.25 * (V.sum(axis=0, keepdims=True) == 0), 0, 1)  # 0, 1/2 and one 1/4 point: exact in float32
    pad = np.zeros((d, 2 * V.shape[1]))
    pad[:, ::2] = V
    variants = [("int64", V.astype(np.int64), V, 1e-13), ("int32", V.astype(np.int32), V, 1e-13),
                ("float32", half.astype(np.float32), half, 1e-5),
                ("fortran-order", np.asfortranarray(half), half, 1e-13), ("strided-view", pad[:, ::2], V, 1e-13)]
    ro = half.copy()
    ro.setflags(write=False)
    variants.append(("read-only", ro, half, 1e-13))
    has_l = rec.family in ("h1", "hdiv", "hcurl", "matrix")
    N = nbfun(rec.make())
    idx = _pick_indices(rng, N, ctx.scale(4, 10))
    mc = None
    if not has_l or k % 2 == 0:
        comp_global = rec.family == "global"
        mc = wellshaped(rng, kind, rec.mesh_req == "axis-parallel") if (comp_global or rec.mesh_req != "any") else G.first_order(rng, kind)
        cells = rng.permutation(mc.mesh.t.shape[1])[:3]

    def call(level, X, i):
        e = rec.make()
        if level == "lbasis":
            return e.lbasis(X, i)
        from skfem.mapping import MappingAffine, MappingIsoparametric
        mesh = mc.mesh
        mp = mesh.mapping()
        return e.gbasis(mp, X, i, tind=cells)

    for level in (["lbasis"] if has_l else []) + (["gbasis"] if mc is not None else []):
        for tag, Xv, Xf, rtol in variants:
            for i in idx:
                want = call(level, np.ascontiguousarray(Xf, dtype=np.float64), i)
                try:
                    got = call(level, Xv, i)
                except Exception as ex:  # noqa: BLE001   (refusing a dtype is not a wrong value)
                    ctx.tolerated("point-dtype-independent")
                    ctx.drop(f"point-spelling-refused:{tag}:{type(ex).__name__}")
                    break
                ok, bad = len(got) == len(want), None
                for g, w in zip(got, want) if ok else ():
                    fg, fw = _fields_of(g), _fields_of(w)
                    if set(fg) != set(fw):
                        ok, bad = False, ("fields", sorted(fg), sorted(fw))
                        break
                    for name in fw:
                        a, b = np.asarray(fg[name], dtype=float), np.asarray(fw[name], dtype=float)
                        sc = max(1.0, float(np.abs(b).max()) if b.size else 1.0)
                        if a.shape != b.shape or not np.allclose(a, b, rtol=0, atol=rtol * sc, equal_nan=True):
                            ok, bad = False, (name, float(np.abs(a - b).max()) if a.shape == b.shape else "shape")
                            break
                    if not ok:
                        break
                ctx.check("point-dtype-independent", ok, mech=f"fields-depend-on-how-the-points-are-stored:{tag}:{base}", elem=rec.name,
                          level=level, function=int(i), first_bad=bad)
            ctx.reached("point-spelling:" + tag)
        ctx.reached("point-spelling:" + level)
    ctx.nontrivial("point-spellings", rec.name)


def _n_nodal(ctx):
    return len([r for r in EL.registry() if r.family in ("h1",) and not r.skeleton])


def _n_mapped(ctx):
    n = sum(len([r for r in EL.all_for_kind(kd) if not r.skeleton]) for kd in G.KINDS)
    return n * ctx.scale(2, 24)


FAMILIES = [
    Family("reference-derivatives", ref_derivatives, _n_ref, _n_ref, budget={"quick": 40, "thorough": 200}),
    Family("nodal-pou", nodal_pou, _n_nodal, lambda c: 8 * _n_nodal(c)),
    Family("mapped-derivatives", mapped_derivatives, _n_mapped, _n_mapped, budget={"quick": 90, "thorough": 900}),
    Family("duality", duality, 42, 840),
    Family("global-dofs", global_dofs, 22, 330),
    Family("nearby-queries", nearby_queries, _n_nearby, _n_nearby, budget={"quick": 40, "thorough": 300}),
    Family("point-spellings", point_spellings, _n_nearby, lambda c: 2 * _n_nearby(c), budget={"quick": 40, "thorough": 300}),
]
