"""C12 Uniform refinement preserves domain, conformity and named regions.

Oracle (independent of every index layout inside skfem.mesh.*._uniform / Mesh.refined):

* all geometry is decided in exact integer arithmetic: every float coordinate is the dyadic
  rational it is, parent and child coordinates are brought to one common power-of-two scale
  (`to_int`) and every predicate is a sign of an integer determinant (int64 when the bit budget
  allows it, Python integers otherwise).  When the input coordinates carry so many significant
  bits that midpoints cannot be exact in float64 any more (rotated meshes, smoothed meshes,
  files), the same integer predicates are compared against 1e-12 x (natural scale of the
  predicate) instead of 0 and the case is counted under reach point `tolerant-mode`.
* the parent of a child cell is *found geometrically* (the one old cell whose closed convex
  hull contains all vertices of the child), never taken from the position of the child in `t`;
* conformity is decided on a dictionary topology (rv.refmodel.topology) built with the
  harness' own local facet tables;
* the expected tag sets are the children found geometrically inside tagged parents / the child
  facets found geometrically on tagged parent facets.

Oracle pitfalls found while building (library right, naive oracle wrong) are marked PITFALL.
"""
from __future__ import annotations

import glob
import itertools
import logging
import os
from contextlib import contextmanager

import numpy as np

from ..engine import Family, Skip
from ..exact import HEX_CORNERS, QUAD_CORNERS
from ..gen import meshes as G
from ..refmodel import topology as T

PID = "C12"
RULE = ("straight-sided meshes of the five refinable cell kinds (Delaunay/jittered/tensor/sheared/distorted/extruded, "
        "holes, several components, renumbered, locally permuted, scaled by 2^+-10, offset by +-1000, rotated), their "
        "second-order classes, library constructors and the meshes under docs/examples/meshes, each with random named "
        "cell subsets and facet subsets (interior facets, oriented boundaries, empty/full/single sets; int32/int64, "
        "unsorted, strided, read-only arrays, predicates) refined k = 1..3 times, also step by step and interleaved "
        "with restrict/mirror/translate/scale/adaptive refinement/smoothing; the parent of every child cell and "
        "facet is found geometrically in exact integer arithmetic; distinct key = (mesh class, tag kinds, history "
        "shape, k); non-trivial iff some tag set is neither empty nor full and is not mapped to the same child set "
        "by the 'blocked' (i + j*nt) and the 'interleaved' (N*i + j) child layouts")
TRACK = ["skfem.mesh.mesh:Mesh.refined",
         "skfem.mesh.mesh_line_1:MeshLine1._uniform", "skfem.mesh.mesh_tri_1:MeshTri1._uniform",
         "skfem.mesh.mesh_quad_1:MeshQuad1._uniform", "skfem.mesh.mesh_tet_1:MeshTet1._uniform",
         "skfem.mesh.mesh_hex_1:MeshHex1._uniform", "skfem.mesh.mesh_tri_2:MeshTri2._uniform",
         "skfem.mesh.mesh_quad_2:MeshQuad2._uniform", "skfem.mesh.mesh_tet_2:MeshTet2._uniform",
         "skfem.mesh.mesh_hex_2:MeshHex2._uniform"]
REQUIRED_MONITORS = ["cell-count", "old-vertices-kept", "valid-mesh", "no-duplicate-vertices",
                     "children-inside-one-parent", "children-per-parent", "children-measure",
                     "cells-nondegenerate", "facets-at-most-two-cells", "boundary-facets-preserved",
                     "facets-subdivide-parent-facets", "no-hanging-nodes", "subdomains-propagated",
                     "boundaries-propagated", "dropped-tags-warned", "second-order-nodes-straight"]
REQUIRED_REACH = ["exact-mode", "tolerant-mode", "levels>=2", "interior-facet-tagged", "oriented-boundary-tagged",
                  "boundaries-dropped-with-warning", "child-layout-not-blocked", "history:restrict",
                  "history:mirrored", "stepwise", "second-order-parent", "several-components", "docs-meshes-refined",
                  "unsorted-triangle-cells"]
ASSUMPTIONS = [
    "the vertex order conventions of the reference cells (rv.exact.QUAD_CORNERS / HEX_CORNERS, unit simplices) define "
    "what a cell is; Mesh.facets[:, i] defines which vertices facet index i designates (judged under C11)",
    "hexahedral meshes are taken from the planar-face generators only (tensor, parallelepiped, extruded, sheared): "
    "'straight-sided' is read as planar faces, and the exact containment test needs convex cells",
    "second-order classes: the location of node j of cell c is doflocs[:, mesh.dofs.element_dofs[j, c]] "
    "(the library's documented ordering convention)",
]

TOL = 1e-12
SECOND_ORDER = ("MeshTri2", "MeshQuad2", "MeshTet2", "MeshHex2")
BOUNDARY_SUPPORT = ("MeshLine1", "MeshTri1", "MeshQuad1")   # classes for which the statement promises boundary tags
NCHILD = {"line": 2, "tri": 4, "quad": 4, "tet": 8, "hex": 8}


# ------------------------------------------------------------------ own local tables
def _cube_faces(corners):
    d = len(corners[0])
    faces = []
    order = [(0,), (1,)] if d == 2 else [(0, 0), (1, 0), (1, 1), (0, 1)]   # cyclic in 3-D
    for ax in range(d):
        others = [i for i in range(d) if i != ax]
        for b in (0, 1):
            f = []
            for o in order:
                c = [None] * d
                c[ax] = b
                for i, v in zip(others, o):
                    c[i] = v
                f.append(corners.index(tuple(c)))
            faces.append(f)
    return faces


# simplices: facet j is the one opposite vertex j
OWN_FACETS = {"line": [[1], [0]], "tri": [[1, 2], [0, 2], [0, 1]],
              "tet": [[1, 2, 3], [0, 2, 3], [0, 1, 3], [0, 1, 2]],
              "quad": _cube_faces(QUAD_CORNERS), "hex": _cube_faces(HEX_CORNERS)}
CORNERS = {"quad": QUAD_CORNERS, "hex": HEX_CORNERS}


def _corner_axes(corners):
    """For each corner and axis i: (index of the corner with bit i = 1, with bit i = 0), other bits kept."""
    out = []
    for c in corners:
        row = []
        for i in range(len(c)):
            hi = list(c)
            lo = list(c)
            hi[i], lo[i] = 1, 0
            row.append((corners.index(tuple(hi)), corners.index(tuple(lo))))
        out.append(row)
    return out


CORNER_AXES = {k: _corner_axes(v) for k, v in CORNERS.items()}


# ------------------------------------------------------------------ exact integers
def to_int(P):
    """Exact integer image of a float array: returns (A, E) with P == A / 2**E elementwise, A an object
    array of Python ints."""
    P = np.asarray(P, dtype=np.float64)
    flat = P.ravel().tolist()
    rat = [x.as_integer_ratio() for x in flat]
    E = max((den.bit_length() for _, den in rat), default=1) - 1
    out = np.empty(len(rat), dtype=object)
    out[:] = [num << (E - den.bit_length() + 1) for num, den in rat]
    return out.reshape(P.shape), E


def bits_of(A):
    m = max((abs(int(x)) for x in A.ravel()), default=0)
    return int(m).bit_length()


def fast(A, need_bits):
    """int64 view of an integer object array when `need_bits` (the bit length of the largest
    intermediate of the computation that follows) fits, else the object array itself."""
    if need_bits <= 62:
        return A.astype(np.int64)
    return A


def _dot(n, w):
    s = n[0] * w[0]
    for i in range(1, len(n)):
        s = s + n[i] * w[i]
    return s


def _normal(edges, D, like):
    """Integer vector n with n . w == det[edges..., w]."""
    if D == 1:
        return [np.ones(like.shape[1:], dtype=like.dtype)]
    if D == 2:
        e = edges[0]
        return [-e[1], e[0]]
    a, b = edges
    return [a[1] * b[2] - a[2] * b[1], a[2] * b[0] - a[0] * b[2], a[0] * b[1] - a[1] * b[0]]


def _det(cols):
    D = len(cols)
    if D == 1:
        return cols[0][0]
    if D == 2:
        return cols[0][0] * cols[1][1] - cols[0][1] * cols[1][0]
    return _dot(_normal(cols[:2], 3, cols[0]), cols[2])


def _sgn(x):
    return (x > 0).astype(np.int64) - (x < 0).astype(np.int64)


def _abs(x):
    return x * _sgn(x)


def _f(x):
    return np.asarray(x).astype(np.float64)


class CellGeom:
    """Supporting hyperplanes of straight convex cells in integer coordinates."""

    def __init__(self, kind, A, t, slack=0.0):
        """`slack`: absolute rounding noise of one coordinate divided by TOL, in the integer unit; added to the
        cell diameter so that TOL * scale = |n| * (TOL * h + noise)."""
        self.kind = kind
        self.D = D = A.shape[0]
        self.t = t
        self.nvl, self.nt = t.shape
        self.faces = OWN_FACETS[kind]
        V = A[:, t]                                   # (D, nvl, nt)
        self.V = V
        ssum = V[:, 0]
        for i in range(1, self.nvl):
            ssum = ssum + V[:, i]
        self.N, self.A0, self.gref, self.fscale = [], [], [], []
        planar = np.ones(self.nt, dtype=bool)
        self.planar_defect = np.zeros(self.nt)
        Vf = _f(V)
        # natural length scale of a predicate value n.(x - a): |n| * (diameter of the cell)
        self.h = np.sqrt(((Vf.max(axis=1) - Vf.min(axis=1)) ** 2).sum(axis=0))
        for F in self.faces:
            a = V[:, F[0]]
            edges = [V[:, F[i]] - a for i in range(1, D)]
            n = _normal(edges, D, a)
            g = _dot(n, ssum - self.nvl * a)          # nvl * g(centroid): != 0 for a non-degenerate cell
            fs = np.sqrt(sum(_f(c) ** 2 for c in n)) * (self.h + slack)
            for extra in F[D:]:
                off = _dot(n, V[:, extra] - a)
                planar &= (off == 0)
                with np.errstate(divide="ignore", invalid="ignore"):
                    r = np.abs(_f(off)) / fs
                self.planar_defect = np.maximum(self.planar_defect, np.nan_to_num(r, nan=np.inf))
            self.N.append(n)
            self.A0.append(a)
            self.gref.append(g)
            self.fscale.append(fs)
        self.planar = planar
        self.flat = np.zeros(self.nt, dtype=bool)
        for g in self.gref:
            self.flat |= (g == 0)

    def side(self, cells, X):
        """X: (D, m, n) points, m per query, query j against cell cells[j].  Returns S (nF, m, n), oriented so
        that S >= 0 on the cell side of every face, and the per-face natural scale (nF, n) = |n| * diameter
        (float), so that S / scale is the signed distance to the face plane in units of the cell size."""
        S, sc = [], []
        for n, a, g, fs in zip(self.N, self.A0, self.gref, self.fscale):
            sg = _sgn(g[cells])
            val = None
            for i in range(self.D):
                term = n[i][cells][None, :] * (X[i] - a[i][cells][None, :])
                val = term if val is None else val + term
            S.append(val * sg[None, :])
            sc.append(fs[cells])
        return np.stack(S), np.stack(sc)

    # measures, scaled by a kind-dependent integer factor that is the same for parents and children
    def measure(self):
        k = self.kind
        V = self.V
        if k in ("line", "tri", "tet"):
            return _abs(_dot(self.N[0], V[:, 0] - self.A0[0]))         # d! * measure
        if k == "quad":
            a = V[:, 2] - V[:, 0]
            b = V[:, 3] - V[:, 1]
            return _abs(a[0] * b[1] - a[1] * b[0])                    # 2 * area
        return _abs(hex_volume_scaled(V))

    def corner_dets(self):
        """det DF at the reference corners of tensor cells (ncorner, nt)."""
        out = []
        for row in CORNER_AXES[self.kind]:
            cols = [self.V[:, hi] - self.V[:, lo] for hi, lo in row]
            out.append(_det(cols))
        return np.stack(out)


def hex_volume_scaled(V):
    """64 * 216 * integral of det DF over the reference cube by the tensor Simpson rule on {0, 1/2, 1}^3,
    which is exact because det DF of a trilinear map is at most quadratic in each variable."""
    tot = None
    for xi in itertools.product((0, 1, 2), repeat=3):
        w = 1
        for x in xi:
            w *= (1, 4, 1)[x]
        cols = []
        for k in range(3):
            col = None
            for v, c in enumerate(HEX_CORNERS):
                f = 1 if c[k] else -1
                for i in range(3):
                    if i != k:
                        f *= (xi[i] if c[i] else 2 - xi[i])
                if f:
                    col = f * V[:, v] if col is None else col + f * V[:, v]
            cols.append(col)                                           # 4 * dF/dxi_k
        d = w * _det(cols)
        tot = d if tot is None else tot + d
    return tot


def facet_vector(kind, X):
    """Integer vector of a facet given its vertices X (D, nvf, n): its length is c(kind) x the facet's measure and
    parallel facets have parallel vectors.  1-D: the scalar 1."""
    D = X.shape[0]
    if D == 1:
        one = np.ones(X.shape[2:], dtype=np.int64)
        return [one]
    if D == 2:
        return [X[0, 1] - X[0, 0], X[1, 1] - X[1, 0]]
    if X.shape[1] == 3:
        a, b = X[:, 1] - X[:, 0], X[:, 2] - X[:, 0]
    else:
        a, b = X[:, 2] - X[:, 0], X[:, 3] - X[:, 1]                    # diagonals of a cyclic planar quad
    return _normal([a, b], 3, a)


# ------------------------------------------------------------------ logging
class _ListHandler(logging.Handler):
    def __init__(self):
        super().__init__(level=logging.DEBUG)
        self.records = []

    def emit(self, record):
        self.records.append((record.levelno, record.getMessage()))


@contextmanager
def captured_warnings():
    """The CLI silences the library below ERROR; the property speaks about warnings, so they are
    recorded here (level WARNING, not DEBUG: DEBUG would switch on validation in every constructor)."""
    lg = logging.getLogger("skfem")
    h = _ListHandler()
    old = lg.level
    lg.addHandler(h)
    lg.setLevel(logging.WARNING)
    try:
        yield h.records
    finally:
        lg.removeHandler(h)
        lg.setLevel(old)


def refine(mesh, k):
    with captured_warnings() as recs:
        child = mesh.refined(k)
    return child, list(recs)


# ------------------------------------------------------------------ helpers on meshes
def cls_name(mesh):
    return type(mesh).__name__


def vertex_part(mesh, kind):
    """(float vertex coordinates (D, nv), vertex rows of t as int64)."""
    nvl = G.NVERT[kind]
    t = np.asarray(mesh.t)[:nvl].astype(np.int64)
    nv = int(t.max()) + 1
    return np.asarray(mesh.doflocs)[:, :nv], t


def index_set(arr, n):
    """Set of ints designated by a tag array, or None if it is not a set of indices in [0, n)."""
    a = np.asarray(arr)
    if a.dtype == bool or a.ndim != 1:
        return None
    if a.size == 0:
        return set()
    if not np.issubdtype(a.dtype, np.integer):
        if not np.issubdtype(a.dtype, np.floating) or not np.all(a == np.round(a)):
            return None
    a = a.astype(np.int64)
    if a.min() < 0 or a.max() >= n:
        return None
    return set(a.tolist())


def facet_keys_of(mesh, ixs):
    F = np.asarray(mesh.facets)
    return {tuple(sorted({int(v) for v in F[:, i]})) for i in ixs}


def sim_layout(S, nt, N, k, layout):
    """Child index sets produced by k applications of a plausible index map (used for the non-triviality rule
    and for the predicates of the recorded mechanisms; not an oracle)."""
    S = set(S)
    for _ in range(k):
        if layout == "blocked":
            S = {i + j * nt for i in S for j in range(N)}
        else:
            S = {N * i + j for i in S for j in range(N)}
        nt *= N
    return S


# ------------------------------------------------------------------ the oracle
class Judgement:
    """Geometric relation between a parent mesh and a refined mesh (parent_of, fmap, topologies, exact flag)."""


def own_validity(ctx, mesh, kind, tag):
    """Structural validity with the harness' own eyes; returns list of problems."""
    probs = []
    nvl = G.NVERT[kind]
    t_full = np.asarray(mesh.t)
    if not np.issubdtype(t_full.dtype, np.integer):
        probs.append("t-not-integer")
        return probs
    if t_full.shape[0] != nvl:
        probs.append(f"t-rows:{t_full.shape[0]}")
        return probs
    t = t_full[:nvl].astype(np.int64)
    ncol = np.asarray(mesh.doflocs).shape[1]
    if t.size == 0:
        probs.append("no-cells")
        return probs
    if t.min() < 0 or t.max() >= ncol:
        probs.append("index-out-of-range")
        return probs
    nv = int(t.max()) + 1
    if np.unique(t).size != nv:
        probs.append("unused-vertex-index")
    srt = np.sort(t, axis=0)
    if (srt[1:] == srt[:-1]).any():
        probs.append("repeated-vertex-in-cell")
    if not np.isfinite(np.asarray(mesh.doflocs)).all():
        probs.append("non-finite-coordinate")
    if np.asarray(mesh.doflocs).shape[0] != G.DIM[kind]:
        probs.append("wrong-dimension")
    return probs


def second_order_nodes(mesh, kind):
    """max over cells and local nodes of |doflocs[node] - straight image of the reference node| / h."""
    from ..refmodel import geometry as GEO
    nvl = G.NVERT[kind]
    ed = np.asarray(mesh.dofs.element_dofs)
    ref = np.asarray(mesh.elem.doflocs, dtype=float)          # (nloc, d)
    P = np.asarray(mesh.doflocs)
    t = np.asarray(mesh.t)[:nvl]
    N = GEO.shape(kind, ref.T)                                # (nvl, nloc)
    V = P[:, t]                                               # (D, nvl, nt)
    want = np.einsum("vj,dvc->djc", N, V)                     # (D, nloc, nt)
    got = P[:, ed]                                            # (D, nloc, nt)
    h = np.linalg.norm(V.max(axis=1) - V.min(axis=1), axis=0)  # (nt,)
    noise = 16 * 2.0 ** -52 * float(np.abs(P).max())           # rounding of a mapped node: relative to |x|
    err = np.maximum(np.linalg.norm(got - want, axis=0) - noise, 0.0) / h[None, :]
    return float(err.max()), int(ed.max()) + 1


def judge(ctx, parent, child, k, records, kind, tag, history="single"):
    """All clauses of the statement for one call child = parent.refined(k)."""
    cls = cls_name(parent)
    d = G.DIM[kind]
    N1 = NCHILD[kind]
    mk = lambda name: f"{name}:{cls}"                                             # noqa: E731
    info = dict(cls=cls, k=k, case=tag, history=history)

    ctx.check("same-class", type(child) is type(parent), mech=mk("class-changed"), got=cls_name(child), **info)

    Pp, tp = vertex_part(parent, kind)
    ntp = tp.shape[1]
    # ---- structure of the child
    probs = own_validity(ctx, child, kind, tag)
    second = cls in SECOND_ORDER
    if not probs and not second:
        # PITFALL: Mesh.is_valid() is False for every second-order class (it compares all doflocs columns with
        # the vertex rows of t), also for the unrefined default meshes; used for first-order classes only.
        if np.asarray(child.doflocs).shape[1] != int(np.asarray(child.t).max()) + 1:
            probs.append("extra-doflocs-columns")
        try:
            if not child.is_valid():
                probs.append("is_valid()-false")
        except Exception as e:  # noqa: BLE001
            probs.append("is_valid()-raised:" + repr(e)[:80])
    ctx.check("valid-mesh", not probs, mech=mk("valid-mesh"), problems=probs, **info)
    if probs and probs[0] in ("t-not-integer", "no-cells", "index-out-of-range") or any(
            p.startswith("t-rows") for p in probs):
        return None
    Pc, tc = vertex_part(child, kind)
    ntc = tc.shape[1]
    nvp = Pp.shape[1]

    ctx.check("cell-count", ntc == N1 ** k * ntp, mech=mk("cell-count"), got=ntc, expected=N1 ** k * ntp, **info)

    kept = Pc.shape[1] >= nvp and np.array_equal(Pc[:, :nvp], Pp)
    ctx.check("old-vertices-kept", kept, mech=mk("old-vertices"),
              first_changed=lambda: (int(np.nonzero((Pc[:, :nvp] != Pp).any(axis=0))[0][0])
                                     if Pc.shape[1] >= nvp else "fewer-vertices"), **info)

    if second:
        err, ncols = second_order_nodes(child, kind)
        ctx.check("second-order-nodes-straight",
                  err <= 1e-12 and np.asarray(child.doflocs).shape[1] == ncols, mech=mk("second-order-nodes"),
                  rel_err=err, columns=np.asarray(child.doflocs).shape[1], dofs=ncols, **info)

    # ---- exact integer coordinates on one common scale
    A, E = to_int(np.hstack([Pp, Pc]))
    A = A - A.min(axis=1)[:, None]
    B = bits_of(A)
    # means of 2^j vertices stay exact in float64 iff the significant bits of the input (counted in units of
    # its own last bit, offsets included) plus j bits per level fit into the mantissa
    inbits = bits_of(to_int(Pp)[0])
    growth = k * (1 if kind in ("line", "tri", "tet") else d)
    exact = inbits + growth <= 52
    tol = 0.0 if exact else TOL
    ctx.reached("exact-mode" if exact else "tolerant-mode")
    Ai = fast(A, d * (B + 2) + 6)
    Ap, Ac = Ai[:, :nvp], Ai[:, nvp:]

    def nonneg(S, sc):
        if tol == 0.0:
            return S >= 0
        return _f(S) >= -tol * _f(sc)

    def zero(S, sc):
        if tol == 0.0:
            return S == 0
        return np.abs(_f(S)) <= tol * _f(sc)

    # duplicates (exact equality of coordinates; in tolerant mode additionally nothing closer than 1e-9 h)
    uniq = np.unique(Pc, axis=1).shape[1]
    ctx.check("no-duplicate-vertices", uniq == Pc.shape[1], mech=mk("duplicate-vertices"),
              vertices=Pc.shape[1], distinct=uniq, **info)
    if second:
        allp = np.asarray(child.doflocs)
        ctx.check("no-duplicate-vertices", np.unique(allp, axis=1).shape[1] == allp.shape[1],
                  mech=mk("duplicate-nodes"), **info)

    # PITFALL (tolerant mode only): the rounding error of a computed midpoint is relative to the magnitude of the
    # coordinates, not to the cell size (offset -955, h = 0.02 after smoothing: 4e-12 h); the distance tolerance
    # is therefore TOL * h + 8 ulp(max |x|), and the measure tolerance 1e-10 + 64 ulp(max |x|) / h_min.
    xmax = float(np.abs(Pc).max()) if Pc.size else 0.0
    noise_abs = 8 * 2.0 ** -52 * xmax * 2.0 ** E                   # integer units
    gp = CellGeom(kind, Ap, tp, slack=noise_abs / TOL)
    gc = CellGeom(kind, Ac, tc, slack=noise_abs / TOL)
    rtol_meas = 1e-10 + 8 * noise_abs / max(float(gc.h.min()), 1e-300)
    if gp.flat.any() or (kind == "hex" and not _planar_ok(gp, tol)):
        raise Skip("parent-not-straight-convex")       # generator outside the quantifier

    # ---- non-degenerate, not inverted
    if kind in ("quad", "hex"):
        cdp = gp.corner_dets()
        sp = _sgn(cdp)
        if not ((sp == sp[:1]).all() and (sp != 0).all()):
            raise Skip("parent-not-convex")
        cdc = gc.corner_dets()
        sc_ = _sgn(cdc)
        one_sign = (sc_ == sc_[:1]).all(axis=0) & (sc_[0] != 0)
        bad = np.nonzero(~one_sign)[0]
        ctx.check("cells-nondegenerate", bad.size == 0, mech=mk("child-corner-jacobians-change-sign"),
                  first_bad_child=lambda: int(bad[0]), corner_signs=lambda: sc_[:, bad[0]].tolist(), **info)
    else:
        bad = np.nonzero(gc.flat)[0]
        ctx.check("cells-nondegenerate", bad.size == 0, mech=mk("degenerate-child"),
                  first_bad_child=lambda: int(bad[0]), **info)
    if gc.flat.any():
        return None

    # ---- parent of each child, found geometrically
    Vpf = Pp[:, tp]
    lo, hi = Vpf.min(axis=1), Vpf.max(axis=1)                       # (D, ntp)
    cen = Pc[:, tc].mean(axis=1)                                    # (D, ntc)
    eps = 1e-9 * float((hi - lo).max())
    parent_of = -np.ones(ntc, dtype=np.int64)
    nmatch = np.zeros(ntc, dtype=np.int64)
    chunk = max(1, 2_000_000 // max(ntp, 1))
    pairs_c, pairs_p, pairs_S, pairs_sc = [], [], [], []
    for c0 in range(0, ntc, chunk):
        cc = cen[:, c0:c0 + chunk]
        cand = np.all((cc[:, :, None] >= lo[:, None, :] - eps) & (cc[:, :, None] <= hi[:, None, :] + eps), axis=0)
        ci, pi = np.nonzero(cand)
        ci = ci + c0
        if ci.size == 0:
            continue
        X = Ac[:, tc[:, ci]]                                        # (D, nvl, npairs)
        S, sc = gp.side(pi, X)                                      # (nF, nvl, n), (nF, n)
        inside = nonneg(S, sc[:, None, :]).all(axis=(0, 1))
        ci, pi, S, sc = ci[inside], pi[inside], S[:, :, inside], sc[:, inside]
        pairs_c.append(ci)
        pairs_p.append(pi)
        pairs_S.append(S)
        pairs_sc.append(sc)
    if pairs_c:
        ci = np.concatenate(pairs_c)
        pi = np.concatenate(pairs_p)
        S = np.concatenate(pairs_S, axis=2)
        sc = np.concatenate(pairs_sc, axis=1)
        nmatch = np.bincount(ci, minlength=ntc)
        parent_of[ci] = pi                                          # unique where nmatch == 1
    else:
        ci = pi = np.zeros(0, dtype=np.int64)
        S = sc = None
    orphans = np.nonzero(nmatch != 1)[0]
    ctx.check("children-inside-one-parent", orphans.size == 0, mech=mk("child-not-inside-one-parent"),
              n_bad=int(orphans.size), first_bad_child=lambda: int(orphans[0]),
              parents_containing_it=lambda: int(nmatch[orphans[0]]),
              child_vertices=lambda: Pc[:, tc[:, orphans[0]]].T.tolist(), **info)
    if orphans.size:
        return None
    order = np.argsort(ci)
    ci, pi, S, sc = ci[order], pi[order], S[:, :, order], sc[:, order]   # now indexed by child

    per_parent = np.bincount(parent_of, minlength=ntp)
    badp = np.nonzero(per_parent != N1 ** k)[0]
    ctx.check("children-per-parent", badp.size == 0, mech=mk("children-per-parent"),
              first_bad_parent=lambda: int(badp[0]), got=lambda: int(per_parent[badp[0]]), expected=N1 ** k, **info)

    need = (3 * B + 30) if kind == "hex" else d * (B + 2) + 6
    if kind == "hex" and need > 62:
        gpm = CellGeom(kind, A[:, :nvp], tp).measure()
        gcm = CellGeom(kind, A[:, nvp:], tc).measure()
    else:
        gpm, gcm = gp.measure(), gc.measure()
    sums = np.zeros(ntp, dtype=object)
    np.add.at(sums, parent_of, gcm.astype(object))
    gpm_o = gpm.astype(object)
    if tol == 0.0:
        badm = np.nonzero(sums != gpm_o)[0]
    else:
        badm = np.nonzero(np.abs(_f(sums) - _f(gpm_o)) > rtol_meas * _f(gpm_o))[0]
    ctx.check("children-measure", badm.size == 0, mech=mk("children-measure"),
              first_bad_parent=lambda: int(badm[0]),
              ratio=lambda: float(sums[badm[0]]) / float(gpm_o[badm[0]]), **info)
    if kind in ("quad", "hex"):
        same = _sgn(cdc)[0] == _sgn(cdp)[0][parent_of]
        ctx.check("cells-nondegenerate", bool(same.all()), mech=mk("child-orientation-differs-from-parent"),
                  first_bad_child=lambda: int(np.nonzero(~same)[0][0]), **info)

    # ---- conformity on the dictionary topology
    topo_p = T.Topology(tp, OWN_FACETS[kind])
    topo_c = T.Topology(tc, OWN_FACETS[kind])
    if topo_p.max_cells_per_facet() > 2:
        raise Skip("parent-non-manifold")
    mx = topo_c.max_cells_per_facet()
    ctx.check("facets-at-most-two-cells", mx <= 2, mech=mk("facet-with-more-than-two-cells"), max_cells=mx, **info)
    if topo_p.components() > 1:
        ctx.reached("several-components")

    # child facet -> parent facet it lies on (None: interior of the parent cell)
    faces = OWN_FACETS[kind]
    onF = np.zeros((len(faces), len(faces), ntc), dtype=bool)       # [child local facet, parent face, child]
    for f, fv in enumerate(faces):
        for Fp in range(len(faces)):
            onF[f, Fp] = zero(S[Fp][fv, :], sc[Fp][None, :]).all(axis=0)
    fmap = {}
    fmap_src = {}
    two_faces = 0
    cf_idx, cF_idx, cc_idx = np.nonzero(onF)
    seen_cf = set()
    for f, Fp, c in zip(cf_idx.tolist(), cF_idx.tolist(), cc_idx.tolist()):
        if (f, c) in seen_cf:
            two_faces += 1
            continue
        seen_cf.add((f, c))
        key_c = topo_c.cell_facets[c][f]
        key_p = topo_p.cell_facets[int(parent_of[c])][Fp]
        old = fmap.get(key_c)
        if old is None:
            fmap[key_c] = key_p
            fmap_src[key_c] = (c, f, int(parent_of[c]), Fp)
        elif old != key_p:
            two_faces += 1
    bnd_p = topo_p.boundary_facet_keys()
    bnd_c = topo_c.boundary_facet_keys()
    stray = [kf for kf in bnd_c if fmap.get(kf) not in bnd_p]
    ctx.check("boundary-facets-preserved",
              not stray and len(bnd_c) == 2 ** ((d - 1) * k) * len(bnd_p) and two_faces == 0,
              mech=mk("boundary-facets"), n_child_boundary=len(bnd_c), n_parent_boundary=len(bnd_p),
              expected_factor=2 ** ((d - 1) * k), stray=lambda: stray[:3],
              stray_lies_on=lambda: [fmap.get(s) for s in stray[:3]], ambiguous=two_faces, **info)

    # every parent facet is tiled by 2^((d-1)k) child facets of the right total measure
    by_parent = {}
    for kc, kp in fmap.items():
        by_parent.setdefault(kp, []).append(kc)
    nsub = 2 ** ((d - 1) * k)
    count_bad = [kp for kp in topo_p.facet_cells if len(by_parent.get(kp, ())) != nsub]
    meas_bad = []
    if not count_bad and d >= 2:
        kcs = list(fmap)
        src = np.array([fmap_src[kc] for kc in kcs], dtype=np.int64)   # (n, 4): c, f, K, Fp
        # gather ordered facet vertices (own tables keep the cyclic order of quadrilateral faces)
        fv = np.array(faces, dtype=np.int64)                            # (nF, nvf)
        Xc = Ac[:, tc[fv[src[:, 1]].T, src[:, 0][None, :]]]             # (D, nvf, n)
        Xp = Ap[:, tp[fv[src[:, 3]].T, src[:, 2][None, :]]]
        if Xc.dtype != object and 2 * (2 * (B + 2) + 3) + 3 > 62:
            Xc, Xp = Xc.astype(object), Xp.astype(object)
        ac = facet_vector(kind, Xc)
        ap = facet_vector(kind, Xp)
        proj = _abs(_dot(ac, ap)).astype(object)
        full = _dot(ap, ap).astype(object)
        acc = {}
        ful = {}
        for i, kc in enumerate(kcs):
            kp = fmap[kc]
            acc[kp] = acc.get(kp, 0) + proj[i]
            ful[kp] = full[i]
        for kp, v in acc.items():
            if (v != ful[kp]) if tol == 0.0 else (abs(float(v) - float(ful[kp])) > rtol_meas * float(ful[kp])):
                meas_bad.append(kp)
    ctx.check("facets-subdivide-parent-facets", not count_bad and not meas_bad,
              mech=mk("parent-facet-not-tiled"), wrong_count=lambda: count_bad[:3],
              counts=lambda: [len(by_parent.get(kp, ())) for kp in count_bad[:3]], expected=nsub,
              wrong_measure=lambda: meas_bad[:3], **info)

    # ---- hanging nodes: no vertex lies in a closed cell it is not a vertex of
    hang = hanging_nodes(gc, Pc, tc, Ac, nonneg)
    if hang is None:
        ctx.drop("hanging-node-test-skipped:nonplanar-children")
    else:
        ctx.check("no-hanging-nodes", len(hang) == 0, mech=mk("vertex-inside-foreign-cell"),
                  first=lambda: hang[:3], **info)

    # ---- tags
    J = Judgement()
    J.parent_of, J.fmap, J.topo_c, J.topo_p, J.exact = parent_of, fmap, topo_c, topo_p, exact
    blocked = np.arange(ntc) % ntp
    if (blocked != parent_of).any():
        ctx.reached("child-layout-not-blocked")
    judge_tags(ctx, parent, child, k, records, kind, J, info, ntp, ntc)
    if k >= 2:
        ctx.reached("levels>=2")
    if second:
        ctx.reached("second-order-parent")
    return J


def _planar_ok(g, tol):
    if tol == 0.0:
        return bool(g.planar.all())
    return bool((g.planar_defect <= 1e-10).all())


def hanging_nodes(gc, Pc, tc, Ac, nonneg):
    from scipy.spatial import cKDTree
    if gc.kind == "hex" and not (gc.planar_defect <= 1e-10).all():
        return None
    V = Pc[:, tc]
    cen = V.mean(axis=1)
    rad = np.sqrt(((V - cen[:, None, :]) ** 2).sum(axis=0)).max(axis=0) * (1 + 1e-9)
    tree = cKDTree(Pc.T)
    lists = tree.query_ball_point(cen.T, rad)
    cs, vs = [], []
    for c, lst in enumerate(lists):
        own = set(tc[:, c].tolist())
        for v in lst:
            if v not in own:
                cs.append(c)
                vs.append(v)
    if not cs:
        return []
    cs = np.array(cs, dtype=np.int64)
    vs = np.array(vs, dtype=np.int64)
    X = Ac[:, vs][:, None, :]
    S, sc = gc.side(cs, X)
    inside = nonneg(S, sc[:, None, :]).all(axis=(0, 1))
    idx = np.nonzero(inside)[0]
    return [(int(vs[i]), int(cs[i])) for i in idx[:5]]


def judge_tags(ctx, parent, child, k, records, kind, J, info, ntp, ntc):
    cls = cls_name(parent)
    N1 = NCHILD[kind]
    msgs = [m for lv, m in records if lv >= logging.WARNING]
    # ---------------- subdomains
    psub = parent.subdomains
    if psub is not None:
        csub = child.subdomains
        if csub is None:
            warned = any("ubdomain" in m for m in msgs)
            ctx.check("dropped-tags-warned", warned, mech=f"subdomains-dropped-silently:{cls}", messages=msgs, **info)
            ctx.reached("subdomains-dropped-with-warning")
        else:
            ctx.check("subdomains-propagated", set(csub) == set(psub), mech=f"subdomain-names:{cls}",
                      got=sorted(csub), expected=sorted(psub), **info)
            for name, ixs in psub.items():
                Sp = index_set(ixs, ntp)
                if Sp is None:
                    ctx.drop("parent-subdomain-not-an-index-set")
                    continue
                if name not in csub:
                    continue
                want = set(np.nonzero(np.isin(J.parent_of, np.fromiter(Sp, dtype=np.int64, count=len(Sp))))[0]
                           .tolist())
                got = index_set(csub[name], ntc)
                ok = got is not None and got == want

                def mech(got=got, want=want, Sp=Sp):
                    if got is not None and got != want and got == sim_layout(Sp, ntp, N1, k, "blocked"):
                        if cls == "MeshLine1":
                            return "line1-subdomains-blocked-index-map-on-interleaved-children"
                        if cls == "MeshTet2":
                            return "tet2-subdomains-blocked-index-map-on-grouped-children"
                    return f"subdomains:{cls}"
                ctx.check("subdomains-propagated", ok, mech=mech, name=name,
                          parent_set=lambda Sp=Sp: sorted(Sp)[:20],
                          n_got=lambda got=got: None if got is None else len(got), n_expected=len(want),
                          wrongly_included=lambda got=got, want=want: sorted((got or set()) - want)[:10],
                          missing=lambda got=got, want=want: sorted(want - (got or set()))[:10], **info)
                if 0 < len(Sp) < ntp and sim_layout(Sp, ntp, N1, k, "blocked") != sim_layout(Sp, ntp, N1, k, "inter"):
                    ctx.nontrivial(cls, "subdomain", info["history"], k)
    # ---------------- boundaries
    pbnd = parent.boundaries
    if pbnd is not None:
        cbnd = child.boundaries
        nfp = np.asarray(parent.facets).shape[1]
        if cbnd is None:
            warned = any("oundar" in m for m in msgs)
            ctx.check("dropped-tags-warned", warned, mech=f"boundaries-dropped-silently:{cls}", messages=msgs, **info)
            if cls in BOUNDARY_SUPPORT:
                ctx.check("boundaries-propagated", False, mech=f"boundaries-dropped:{cls}", **info)
            else:
                ctx.reached("boundaries-dropped-with-warning")
        else:
            nfc = np.asarray(child.facets).shape[1]
            ctx.check("boundaries-propagated", set(cbnd) == set(pbnd), mech=f"boundary-names:{cls}",
                      got=sorted(cbnd), expected=sorted(pbnd), **info)
            int_keys = J.topo_p.interior_facet_keys()
            for name, ixs in pbnd.items():
                Sp = index_set(ixs, nfp)
                if Sp is None:
                    ctx.drop("parent-boundary-not-an-index-set")
                    continue
                if name not in cbnd:
                    continue
                pkeys = facet_keys_of(parent, Sp)
                want = {kc for kc, kp in J.fmap.items() if kp in pkeys}
                gi = index_set(cbnd[name], nfc)
                got = None if gi is None else facet_keys_of(child, gi)
                ok = got is not None and got == want
                ctx.check("boundaries-propagated", ok, mech=f"boundaries:{cls}", name=name,
                          parent_facets=lambda Sp=Sp: sorted(Sp)[:20],
                          n_got=lambda got=got: None if got is None else len(got), n_expected=len(want),
                          wrongly_included=lambda got=got, want=want: sorted((got or set()) - want)[:5],
                          missing=lambda got=got, want=want: sorted(want - (got or set()))[:5], **info)
                if pkeys & int_keys:
                    ctx.reached("interior-facet-tagged")
                if hasattr(ixs, "ori") and getattr(ixs, "ori", None) is not None:
                    ctx.reached("oriented-boundary-tagged")
                if 0 < len(Sp) < nfp:
                    ctx.nontrivial(cls, "boundary", info["history"], k)


# ------------------------------------------------------------------ workload: meshes
def bfs_subset(rng, t, nmax):
    """A vertex-connected region of <= nmax cells grown from a random cell (plus, sometimes, stray cells)."""
    nt = t.shape[1]
    if nt <= nmax:
        return np.arange(nt)
    v2c = {}
    for c in range(nt):
        for v in t[:, c]:
            v2c.setdefault(int(v), []).append(c)
    start = int(rng.integers(nt))
    seen = {start}
    queue = [start]
    while queue and len(seen) < nmax:
        c = queue.pop(0)
        nb = sorted({c2 for v in t[:, c] for c2 in v2c[int(v)]} - seen)
        rng.shuffle(nb)
        for c2 in nb:
            if len(seen) >= nmax:
                break
            seen.add(c2)
            queue.append(c2)
    return np.array(sorted(seen), dtype=np.int64)


def base_mesh(ctx, rng, kind, nmax, allow_inexact=True):
    """First-order parent of `kind` with <= nmax cells: returns (mesh, descriptor)."""
    if kind == "hex":
        mc = G.hex_mesh(rng, style=str(rng.choice(["tensor", "parallelepiped", "extruded"])))
    else:
        mc = G.first_order(rng, kind, renum=bool(rng.random() < 0.8))
    m = mc.mesh
    desc = dict(mc.desc)
    p = np.asarray(m.p).copy()
    t = np.asarray(m.t).astype(np.int64)
    if t.shape[1] > nmax:
        keep = bfs_subset(rng, t, nmax)
        if rng.random() < 0.3 and keep.size > 3:           # a few stray cells -> several components
            extra = rng.choice(t.shape[1], size=2, replace=False)
            keep = np.unique(np.concatenate([keep[:-2], extra]))
        p, t = G.clean(p, t[:, keep])
        desc["subset"] = int(t.shape[1])
    r = rng.random()
    if r < 0.12:
        s = float(2.0 ** int(rng.choice([-10, -3, 5, 10])))
        p = p * s
        desc["scaled"] = s
    elif r < 0.24:
        off = rng.integers(-1000, 1001, size=(p.shape[0], 1)).astype(float)
        p = p + off
        desc["offset"] = off.ravel().tolist()
    elif r < 0.36 and allow_inexact:
        R, shift = G.rigid_motion(rng, p.shape[0])
        if p.shape[0] > 1:
            p = R @ p + shift
            desc["rotated"] = True                           # float images of k/5, k/13: midpoints inexact
        else:
            p = p * (1.0 / 3.0)
            desc["scaled"] = "1/3"
    desc["ncells"] = int(t.shape[1])
    if kind == "tri" and rng.random() < 0.35:
        # cells kept in the local vertex order given (what loaded, oriented and second-order meshes have)
        for c in range(t.shape[1]):
            t[:, c] = t[rng.permutation(3), c]
        m = G.mesh_class(kind, 1)(p, t, sort_t=False)
        if np.array_equal(np.asarray(m.t), t):
            desc["unsorted_cells"] = True
            ctx.reached("unsorted-triangle-cells")
            return m, desc
    return G.mesh_class(kind, 1)(p, t), desc


def index_array(rng, idx):
    """The same index set in one of the shapes a user may hand over."""
    idx = np.asarray(idx, dtype=np.int64)
    form = int(rng.integers(6))
    if form == 0:
        return np.sort(idx).astype(np.int32), "int32-sorted"
    if form == 1:
        return rng.permutation(idx).astype(np.int64), "int64-unsorted"
    if form == 2:
        buf = np.zeros(2 * idx.size, dtype=np.int64)
        buf[::2] = rng.permutation(idx)
        return buf[::2], "strided-view"
    if form == 3:
        a = rng.permutation(idx).astype(np.int32)
        a.setflags(write=False)
        return a, "read-only"
    if form == 4:
        return np.sort(idx)[::-1].astype(np.int64), "descending"
    return np.sort(idx).astype(np.uint32 if idx.size else np.int32), "uint32"


def random_subset(rng, n):
    r = rng.random()
    if r < 0.06:
        return np.zeros(0, dtype=np.int64), "empty"
    if r < 0.12:
        return np.arange(n), "full"
    if r < 0.25:
        return np.array([int(rng.integers(n))]), "single"
    if r < 0.35 and n > 2:
        return np.delete(np.arange(n), int(rng.integers(n))), "all-but-one"
    size = int(rng.integers(1, max(2, n)))
    return rng.choice(n, size=min(size, n), replace=False), "random"


def add_tags(ctx, rng, m, want_boundaries=True, want_subdomains=True):
    """Random named cell subsets and facet subsets on mesh m; returns (mesh, descriptor)."""
    nt = m.t.shape[1]
    desc = {}
    if want_subdomains:
        subs = {}
        for j in range(int(rng.integers(1, 4))):
            if rng.random() < 0.2:
                ax = int(rng.integers(m.p.shape[0]))
                thr = float(np.median(m.p[ax]))
                subs[f"s{j}"] = (lambda x, ax=ax, thr=thr: x[ax] < thr)
                desc[f"s{j}"] = f"predicate x{ax}<{thr}"
            else:
                idx, how = random_subset(rng, nt)
                arr, form = index_array(rng, idx)
                subs[f"s{j}"] = arr
                desc[f"s{j}"] = f"{how}/{form}/{idx.size}"
        m = m.with_subdomains(subs)
    if want_boundaries:
        nf = m.facets.shape[1]
        bf = np.asarray(m.boundary_facets())
        bnds = {}
        for j in range(int(rng.integers(1, 4))):
            r = rng.random()
            if r < 0.15 and nt > 1:
                # oriented boundary around a cell subset (interior interface included)
                idx, _ = random_subset(rng, nt)
                if idx.size == 0:
                    idx = np.array([0])
                ob = m.facets_around(idx, flip=bool(rng.random() < 0.5))
                bnds[f"b{j}"] = ob
                desc[f"b{j}"] = f"facets_around/{len(ob)}"
            elif r < 0.30:
                ax = int(rng.integers(m.p.shape[0]))
                thr = float(np.median(m.p[ax]))
                bnds[f"b{j}"] = (lambda x, ax=ax, thr=thr: x[ax] <= thr)
                desc[f"b{j}"] = f"predicate x{ax}<={thr} (boundary facets only)"
            elif r < 0.55 and bf.size:
                idx, how = random_subset(rng, bf.size)
                arr, form = index_array(rng, bf[idx])
                bnds[f"b{j}"] = arr
                desc[f"b{j}"] = f"boundary-{how}/{form}/{idx.size}"
            else:
                idx, how = random_subset(rng, nf)
                arr, form = index_array(rng, idx)
                bnds[f"b{j}"] = arr
                desc[f"b{j}"] = f"any-{how}/{form}/{idx.size}"
        m = m.with_boundaries(bnds)
    return m, desc


def pick_k(rng, kind, nt, cap):
    N = NCHILD[kind]
    ks = [k for k in (1, 2, 3) if nt * N ** k <= cap]
    if not ks:
        return 1
    w = np.array([0.5, 0.35, 0.15][:len(ks)])
    return int(rng.choice(ks, p=w / w.sum()))


# ------------------------------------------------------------------ families
def uniform_case(kind):
    def fn(ctx, k_):
        rng = ctx.rng()
        nmax = ctx.scale({"line": 16, "tri": 48, "quad": 36, "tet": 24, "hex": 12}[kind],
                         {"line": 40, "tri": 120, "quad": 80, "tet": 60, "hex": 27}[kind])
        m, desc = base_mesh(ctx, rng, kind, nmax)
        m, tdesc = add_tags(ctx, rng, m)
        cap = ctx.scale({"line": 200, "tri": 1600, "quad": 1200, "tet": 1600, "hex": 800}[kind],
                        {"line": 400, "tri": 4000, "quad": 3000, "tet": 4000, "hex": 1800}[kind])
        k = pick_k(rng, kind, m.t.shape[1], cap)
        tag = dict(desc, tags=tdesc)
        child, recs = refine(m, k)
        J = judge(ctx, m, child, k, recs, kind, tag)
        ctx.sample({"mesh": cls_name(m), "desc": tag, "k": k, "cells": [int(m.t.shape[1]), int(child.t.shape[1])],
                    "exact_mode": None if J is None else bool(J.exact),
                    "child_subdomain_sizes": None if child.subdomains is None else
                    {n: int(len(v)) for n, v in child.subdomains.items()},
                    "child_boundaries": None if child.boundaries is None else
                    {n: int(len(v)) for n, v in child.boundaries.items()}}, per_family=1)
        if k >= 2 and k_ % 2 == 0:
            # the same refinement step by step: every intermediate call is judged as well
            cur = m
            for step in range(k):
                nxt, recs = refine(cur, 1)
                judge(ctx, cur, nxt, 1, recs, kind, tag, history="stepwise")
                cur = nxt
            ctx.reached("stepwise")
    return fn


def second_order_case(ctx, k_):
    rng = ctx.rng()
    kind = ("tri", "quad", "tet", "hex")[k_ % 4]
    nmax = ctx.scale({"tri": 24, "quad": 16, "tet": 12, "hex": 6}[kind],
                     {"tri": 60, "quad": 40, "tet": 30, "hex": 12}[kind])
    m1, desc = base_mesh(ctx, rng, kind, nmax, allow_inexact=bool(k_ % 3 == 0))
    m2 = G.mesh_class(kind, 2).from_mesh(m1)
    m2, tdesc = add_tags(ctx, rng, m2)
    cap = ctx.scale(800, 2000)
    k = pick_k(rng, kind, m2.t.shape[1], cap)
    tag = dict(desc, order=2, tags=tdesc)
    child, recs = refine(m2, k)
    judge(ctx, m2, child, k, recs, kind, tag)
    ctx.sample({"mesh": cls_name(m2), "desc": tag, "k": k,
                "child_boundaries": child.boundaries is not None, "warnings": [m for _, m in recs]}, per_family=1)


OPS = ("restrict", "mirrored", "translated", "scaled", "adaptive", "retag", "smoothed", "remove")


def history_case(ctx, k_):
    """refine -> operation -> refine (-> operation -> refine); every refined() call is judged against its
    own input, so a defect of the interleaved operation itself is not attributed to C12."""
    rng = ctx.rng()
    kind = ("line", "tri", "quad", "tet", "hex")[k_ % 5]
    nmax = ctx.scale({"line": 8, "tri": 12, "quad": 8, "tet": 6, "hex": 3}[kind],
                     {"line": 12, "tri": 24, "quad": 16, "tet": 10, "hex": 4}[kind])
    order2 = kind != "line" and rng.random() < 0.25
    m, desc = base_mesh(ctx, rng, kind, nmax, allow_inexact=False)
    if order2:
        m = G.mesh_class(kind, 2).from_mesh(m)
    m, tdesc = add_tags(ctx, rng, m)
    nsteps = int(rng.integers(2, 4))
    shape = []
    cap = ctx.scale(1000, 3000)
    for step in range(nsteps):
        if m.t.shape[1] * NCHILD[kind] > cap:
            break
        k = 1 if m.t.shape[1] * NCHILD[kind] ** 2 > cap or rng.random() < 0.7 else 2
        child, recs = refine(m, k)
        hist = "+".join(shape) if shape else "first"
        judge(ctx, m, child, k, recs, kind, dict(desc, tags=tdesc, order=2 if order2 else 1), history=hist)
        m = child
        if step == nsteps - 1:
            break
        op = str(rng.choice(OPS))
        try:
            m2 = apply_op(ctx, rng, m, op, kind, order2)
        except Skip:
            raise
        except Exception as e:  # noqa: BLE001  (the operation is not the subject of this property)
            ctx.drop(f"history-op-failed:{op}:{type(e).__name__}")
            break
        if m2 is None:
            continue
        m = m2
        shape.append(op)
        ctx.reached("history:" + op)
    ctx.sample({"mesh": cls_name(m), "desc": desc, "history": shape, "final_cells": int(m.t.shape[1])}, per_family=1)


def orient_signs(m, kind):
    """Signs of det DF (simplices: one per cell; tensor cells: at every reference corner), float arithmetic."""
    P = np.asarray(m.p)
    t = np.asarray(m.t)[:G.NVERT[kind]]
    V = P[:, t]
    if kind in ("line", "tri", "tet"):
        cols = [V[:, i + 1] - V[:, 0] for i in range(V.shape[0])]
        return np.sign(_det(cols))
    return np.stack([np.sign(_det([V[:, hi] - V[:, lo] for hi, lo in row])) for row in CORNER_AXES[kind]])


def apply_op(ctx, rng, m, op, kind, order2):
    nt = m.t.shape[1]
    D = m.p.shape[0]
    if op == "restrict":
        if nt < 3:
            return None
        idx = rng.choice(nt, size=int(rng.integers(max(1, nt // 3), nt)), replace=False)
        if order2:
            return None                                     # restrict() re-indexes doflocs by t only
        return m.restrict(np.sort(idx))
    if op == "remove":
        if nt < 3 or order2:
            return None
        idx = rng.choice(nt, size=max(1, nt // 5), replace=False)
        return m.remove_elements(idx)
    if op == "mirrored":
        n = [0.0] * D
        n[int(rng.integers(D))] = 1.0
        pt = tuple(float(x) for x in rng.integers(-2, 3, size=D) / 2)
        return m.mirrored(tuple(n), pt)
    if op == "translated":
        return m.translated(tuple(float(x) for x in rng.integers(-8, 9, size=D) / 4))
    if op == "scaled":
        return m.scaled([float(2.0 ** int(rng.integers(-2, 3))) for _ in range(D)])
    if op == "adaptive":
        if order2 or kind in ("quad", "hex"):
            return None
        idx = rng.choice(nt, size=max(1, nt // 4), replace=False)
        return m.refined(np.sort(idx))
    if op == "retag":
        m2, _ = add_tags(ctx, rng, m)
        return m2
    if op == "smoothed":
        if order2 or kind in ("line", "hex"):                 # smoothed hexahedra have non-planar faces
            return None
        m2 = m.smoothed()
        # PITFALL: Laplacian smoothing may fold cells over each other; such a mesh is not a mesh any more (a child
        # then lies in two parents) and is outside the quantifier: keep the result only if no Jacobian changed sign
        if not np.array_equal(orient_signs(m, kind), orient_signs(m2, kind)):
            ctx.drop("smoothing-folded-the-mesh")
            return None
        return m2
    raise ValueError(op)


def _directed():
    import skfem
    cases = []

    def add(name, kind, make, k=1):
        cases.append((name, kind, make, k))
    half = {"half": lambda x: x[0] < 0.5}
    add("A6:line-4-cells-first-cell", "line",
        lambda: skfem.MeshLine(np.linspace(0, 1, 5)).with_subdomains({"a": np.array([0])}))
    add("A7:tet2-half", "tet", lambda: skfem.MeshTet2().refined(1).with_subdomains(half))
    # PITFALL: MeshLine1.with_defaults() raises AttributeError ('params'); not a refinement defect, so the
    # line cases name their end points explicitly
    ends = {"left": lambda x: x[0] == 0, "right": lambda x: x[0] == 1}
    add("line-default", "line", lambda: skfem.MeshLine1().refined(2).with_boundaries(ends).with_subdomains(half), 3)
    add("tri-default", "tri", lambda: skfem.MeshTri1().refined(1).with_defaults().with_subdomains(half), 2)
    add("tri-symmetric", "tri", lambda: skfem.MeshTri1.init_symmetric().with_defaults().with_subdomains(half), 2)
    add("tri-sqsymmetric", "tri", lambda: skfem.MeshTri1.init_sqsymmetric().with_defaults().with_subdomains(half), 2)
    add("tri-lshaped", "tri", lambda: skfem.MeshTri1.init_lshaped().with_defaults()
        .with_subdomains({"neg": lambda x: x[0] < 0}), 2)
    add("tri-circle", "tri", lambda: skfem.MeshTri1.init_circle(1).with_subdomains({"neg": lambda x: x[0] < 0}))
    add("tri-tensor", "tri", lambda: skfem.MeshTri1.init_tensor(np.array([0, .25, 1.]), np.array([0, .5, .75, 1.]))
        .with_defaults().with_subdomains(half), 2)
    add("quad-default", "quad", lambda: skfem.MeshQuad1().refined(1).with_defaults().with_subdomains(half), 2)
    add("quad-tensor", "quad", lambda: skfem.MeshQuad1.init_tensor(np.array([0, .25, 1.]), np.array([0, .5, .75, 1.]))
        .with_defaults().with_subdomains(half), 2)
    add("tet-default", "tet", lambda: skfem.MeshTet1().with_defaults().with_subdomains(half), 2)
    add("tet-tensor", "tet", lambda: skfem.MeshTet1.init_tensor(np.array([0, .25, 1.]), np.array([0, .5, 1.]),
                                                                np.array([0, 1.])).with_defaults()
        .with_subdomains(half))
    add("tet-ball", "tet", lambda: skfem.MeshTet1.init_ball(1).with_subdomains({"neg": lambda x: x[0] < 0}))
    add("hex-default", "hex", lambda: skfem.MeshHex1().refined(1).with_defaults().with_subdomains(half))
    add("hex-tensor", "hex", lambda: skfem.MeshHex1.init_tensor(np.array([0, .25, 1.]), np.array([0, .5, 1.]),
                                                                np.array([0, 1.])).with_defaults()
        .with_subdomains(half))
    add("tri2-default", "tri", lambda: skfem.MeshTri2().with_defaults().with_subdomains(half), 2)
    add("quad2-default", "quad", lambda: skfem.MeshQuad2().refined(1).with_defaults().with_subdomains(half))
    add("tet2-default", "tet", lambda: skfem.MeshTet2().with_defaults().with_subdomains(half))
    add("hex2-default", "hex", lambda: skfem.MeshHex2().refined(1).with_defaults().with_subdomains(half))
    add("quad-to-tri", "tri", lambda: skfem.MeshQuad1().refined(1).with_defaults().with_subdomains(half).to_meshtri())
    third = {"third": lambda x: x[0] + x[-1] < 0.7}
    add("refdom-line", "line", lambda: skfem.MeshLine1.init_refdom().refined(1).with_subdomains(third), 2)
    add("refdom-tri", "tri", lambda: skfem.MeshTri1.init_refdom().refined(1).with_subdomains(third), 2)
    add("refdom-quad", "quad", lambda: skfem.MeshQuad1.init_refdom().refined(1).with_subdomains(third), 2)
    add("refdom-tet", "tet", lambda: skfem.MeshTet1.init_refdom().refined(1).with_subdomains(third), 2)
    add("refdom-hex", "hex", lambda: skfem.MeshHex1.init_refdom().refined(1).with_subdomains(third))
    add("hex-to-tet", "tet", lambda: skfem.MeshHex1().refined(1).to_meshtet().with_subdomains(third))
    add("wedge-to-tet", "tet", lambda: skfem.MeshWedge1().to_meshtet().with_subdomains(third), 2)
    add("tet2-from-tensor", "tet", lambda: skfem.MeshTet2.from_mesh(skfem.MeshTet1.init_tensor(
        np.array([0, .25, 1.]), np.array([0, .5, 1.]), np.array([0, .75, 1.]))).with_subdomains(third))
    add("line-k0", "line", lambda: skfem.MeshLine1().refined(1).with_boundaries(ends).with_subdomains(half), 0)
    return cases


def directed_case(ctx, k_):
    """Library constructors and the hand-reproduced witnesses."""
    name, kind, make, k = _directed()[k_]
    m = make()
    child, recs = refine(m, k)
    if k == 0:
        ctx.check("cell-count", child.t.shape[1] == m.t.shape[1] and np.array_equal(child.p, m.p)
                  and child.subdomains is not None and child.boundaries is not None, mech="refined(0)-changes-mesh",
                  case=name)
        return
    judge(ctx, m, child, k, recs, kind, {"directed": name})
    ctx.sample({"directed": name, "mesh": cls_name(m), "k": k, "cells": [int(m.t.shape[1]), int(child.t.shape[1])]},
               per_family=2)


def N_DIRECTED(ctx):
    return len(_directed())


def docs_case(ctx, k_):
    """Meshes shipped with the documentation (tags from the files), refined once."""
    import skfem
    from ..engine import REPO
    root = REPO if os.path.isdir(os.path.join(REPO, G.DOCS_MESHES)) else "/repo"   # data files, not judged code
    files = sorted(glob.glob(os.path.join(root, G.DOCS_MESHES, "*.msh")) +
                   glob.glob(os.path.join(root, G.DOCS_MESHES, "*.vtk")))
    if k_ >= len(files):
        return
    f = files[k_]
    try:
        m = skfem.Mesh.load(f)
    except Exception:  # noqa: BLE001
        ctx.drop("docs-mesh-unreadable")
        return
    try:
        kind = G.kind_of(m)
    except ValueError:
        ctx.drop("docs-mesh-unknown-kind")
        return
    if kind == "wedge" or m.t.shape[1] > ctx.scale(300, 1500):
        ctx.drop("docs-mesh-too-large")
        return
    if own_validity(ctx, m, kind, f):
        ctx.drop("docs-mesh-not-valid:" + os.path.basename(f))
        return
    if cls_name(m) in SECOND_ORDER:
        err, _ = second_order_nodes(m, kind)
        if err > 1e-12:
            ctx.drop("docs-mesh-curved")                     # outside the quantifier (straight-sided)
            return
    child, recs = refine(m, 1)
    judge(ctx, m, child, 1, recs, kind, {"file": os.path.basename(f)}, history="docs")
    ctx.reached("docs-meshes-refined")


FAMILIES = [Family("directed", directed_case, N_DIRECTED, N_DIRECTED, budget={"quick": 60, "thorough": 120})]
FAMILIES += [Family("uniform-" + kd, uniform_case(kd), quick=q, thorough=th, budget={"quick": 60, "thorough": 900})
             for kd, q, th in (("line", 200, 6000), ("tri", 320, 9600), ("quad", 240, 7200), ("tet", 160, 4800),
                               ("hex", 100, 3000))]
FAMILIES += [Family("second-order", second_order_case, 200, 6000, budget={"quick": 60, "thorough": 900}),
             Family("histories", history_case, 240, 7200, budget={"quick": 60, "thorough": 900}),
             Family("docs-meshes", docs_case, 24, 24, budget={"quick": 60, "thorough": 240})]

SUITE = True   # thorough tier also runs the repository suite with this oracle attached (rv/suite_monitors.py)
