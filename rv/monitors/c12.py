"""C12 Uniform refinement preserves domain, conformity and named regions.

Oracle (independent of every index layout inside skfem.mesh.*._uniform / Mesh.refined):

* all geometry is decided in exact integer arithmetic: every float coordinate is the dyadic
  rational it is, parent and child coordinates are brought to one common power-of-two scale
  (`to_int`) and every predicate is a sign of an integer determinant (int64 when the bit budget
  allows it, Python integers otherwise).  When the input coordinates carry so many significant
  bits that midpoints cannot be exact in float64 any more (rotated meshes, smoothed meshes,
  files), the same integer predicates are compared against 1e-12 x (natural scale of the
  predicate) instead of 0 and the case is counted under reach point `tolerant-mode`.
* the parent of a child cell is *found geometrically* (the one old cell whose closed convex
  hull contains all vertices of the child), never taken from the position of the child in `t`;
* conformity is decided on a dictionary topology (rv.refmodel.topology) built with the
  harness' own local facet tables;
* the expected tag sets are the children found geometrically inside tagged parents / the child
  facets found geometrically on tagged parent facets.

Oracle pitfalls found while building (library right, naive oracle wrong) are marked PITFALL.
"""
from __future__ import annotations

import glob
import itertools
import logging
import os
from contextlib import contextmanager

import numpy as np

from ..engine import Family, Skip
from ..exact import HEX_CORNERS, QUAD_CORNERS
from ..gen import meshes as G
from ..refmodel import topology as T

PID = "C12"
RULE = ("straight-sided meshes of the five refinable cell kinds (Delaunay/jittered/tensor/sheared/distorted/extruded, "
        "holes, several components, renumbered, locally permuted, scaled by 2^-30 .. 2^20, offset by +-1000 or +-2^20, "
        "rotated), their "
        "second-order classes, library constructors and the meshes under docs/examples/meshes, each with random named "
        "cell subsets and facet subsets (interior facets, oriented boundaries, empty/full/single sets; int32/int64/"
        "uint8/int16, unsorted, strided, read-only arrays, arrays with repeated entries, Python lists / tuples (empty "
        "too), views of the mesh's own boundary_facets() array, predicates over boundary / all facets) refined k = 1..3 times, also step by step and interleaved "
        "with restrict/mirror/translate/scale/adaptive refinement/smoothing/oriented()/to_meshtri/to_meshtet/m1 + m2/"
        "m1 @ m2/remove_duplicate_nodes/from_mesh/morphed/dict-npz-file round trips/with_defaults; parents carrying a "
        "point that no cell uses (trailing / interior index); the parent of every child cell and "
        "facet is found geometrically in exact integer arithmetic; distinct key = (mesh class, tag kinds, history "
        "shape, k); non-trivial iff some tag set is neither empty nor full and is not mapped to the same child set "
        "by the 'blocked' (i + j*nt) and the 'interleaved' (N*i + j) child layouts")
TRACK = ["skfem.mesh.mesh:Mesh.refined",
         "skfem.mesh.mesh_line_1:MeshLine1._uniform", "skfem.mesh.mesh_tri_1:MeshTri1._uniform",
         "skfem.mesh.mesh_quad_1:MeshQuad1._uniform", "skfem.mesh.mesh_tet_1:MeshTet1._uniform",
         "skfem.mesh.mesh_hex_1:MeshHex1._uniform", "skfem.mesh.mesh_tri_2:MeshTri2._uniform",
         "skfem.mesh.mesh_quad_2:MeshQuad2._uniform", "skfem.mesh.mesh_tet_2:MeshTet2._uniform",
         "skfem.mesh.mesh_hex_2:MeshHex2._uniform"]
REQUIRED_MONITORS = ["cell-count", "old-vertices-kept", "valid-mesh", "no-duplicate-vertices",
                     "children-inside-one-parent", "children-per-parent", "children-measure",
                     "cells-nondegenerate", "facets-at-most-two-cells", "boundary-facets-preserved",
                     "facets-subdivide-parent-facets", "no-hanging-nodes", "subdomains-propagated",
                     "boundaries-propagated", "dropped-tags-warned", "second-order-nodes-straight",
                     "tags-usable-as-indices"]
REQUIRED_REACH = ["exact-mode", "tolerant-mode", "levels>=2", "interior-facet-tagged", "oriented-boundary-tagged",
                  "boundaries-dropped-with-warning", "child-layout-not-blocked", "history:restrict",
                  "history:mirrored", "stepwise", "second-order-parent", "several-components", "docs-meshes-refined",
                  "unsorted-triangle-cells", "empty-tag-usability-judged", "tag-form:list", "tag-form:tuple",
                  "tag-form:repeated-entries", "tag-form:uint8", "tag:empty-python-sequence",
                  "tag:view-of-own-boundary_facets", "tag:predicate-over-all-facets",
                  "parent-with-unused-vertices:trailing", "parent-with-unused-vertices:interior"]
REQUIRED_REACH += ["nonplanar-hex-judged", "boundaries-dropped-with-warning:second-order-triangles-or-quadrilaterals"]
REQUIRED_REACH += ["scaled-by-2^-30", "scaled-by-2^20", "offset-by-2^20"]
REQUIRED_REACH += ["history:" + op for op in ("oriented", "join-add", "join-matmul", "dedup", "from-mesh",
                                              "morphed", "io-dict", "io-npz", "io-file", "defaults")]
ASSUMPTIONS = [
    "the vertex order conventions of the reference cells (rv.exact.QUAD_CORNERS / HEX_CORNERS, unit simplices) define "
    "what a cell is; Mesh.facets[:, i] defines which vertices facet index i designates (judged under C11)",
    "hexahedral meshes with planar faces (tensor, parallelepiped, extruded, sheared) get the exact plane-based "
    "containment / measure / hanging-node tests; hexahedra with straight edges and non-planar (bilinear) faces "
    "('jiggled') are judged combinatorially from exact midpoint identities (each child a positively oriented octant "
    "of one parent in reference coordinates, conformity on the dictionary topology, all tag clauses), without "
    "measure and plane tests",
    "named boundaries: 'the cell types that support it (segments, triangles, quadrilaterals)' is read as the "
    "first-order classes MeshLine1 / MeshTri1 / MeshQuad1, which implement a facet map; MeshTri2 / MeshQuad2 are "
    "triangles and quadrilaterals as well but refine through from_mesh and drop the names with the warning, which "
    "is accepted as 'propagation unsupported' and counted (reach boundaries-dropped-with-warning:second-order-"
    "triangles-or-quadrilaterals, tolerated[boundaries-propagated]); STRICT_SECOND_ORDER_BOUNDARIES = True judges "
    "the other reading; a silent drop or stale indices fail under both",
    "tags are index sets given as 1-D integer arrays of any integer dtype, Python lists / tuples of ints (possibly "
    "empty) or predicates; boolean masks, 2-D arrays and float arrays are not judged",
    "REPORT_ONLY lists mechanisms of library defects found by the strengthened workload and reported, not yet "
    "decided; their witnesses are counted under reach 'report-only:*' instead of failing the run",
    "second-order classes: the location of node j of cell c is doflocs[:, mesh.dofs.element_dofs[j, c]] "
    "(the library's documented ordering convention)",
]

# Genuine library defects found by a strengthened workload, reported to the maintainers of the harness but not yet
# decided (fix or known finding): witnesses of exactly these mechanisms are counted (reach 'report-only:<mech>',
# tolerated[...]) instead of failing the run.  Everything else stays a violation.
REPORT_ONLY = set()      # (the defects it held were repaired in the library: cd67d70, d8cb789)

TOL = 1e-12
SECOND_ORDER = ("MeshTri2", "MeshQuad2", "MeshTet2", "MeshHex2")
BOUNDARY_SUPPORT = ("MeshLine1", "MeshTri1", "MeshQuad1")   # classes for which the statement promises boundary tags
# DECISION (see ASSUMPTIONS): the statement's "cell types that support it (segments, triangles, quadrilaterals)" is
# read as the classes that implement a facet map, i.e. the first-order ones.  MeshTri2 / MeshQuad2 are triangles and
# quadrilaterals too, but refine through from_mesh (a bare mesh) and drop the names with the warning, which the
# statement's last clause allows "where propagation is unsupported".  With the flag set, the strict reading is
# judged instead: a dropped boundary on these two classes fails with mech 'boundaries-dropped:<class>'.
STRICT_SECOND_ORDER_BOUNDARIES = False
SECOND_ORDER_OF_SUPPORTING_TYPES = ("MeshTri2", "MeshQuad2")
NCHILD = {"line": 2, "tri": 4, "quad": 4, "tet": 8, "hex": 8}


# ------------------------------------------------------------------ own local tables
def _cube_faces(corners):
    d = len(corners[0])
    faces = []
    order = [(0,), (1,)] if d == 2 else [(0, 0), (1, 0), (1, 1), (0, 1)]   # cyclic in 3-D
    for ax in range(d):
        others = [i for i in range(d) if i != ax]
        for b in (0, 1):
            f = []
            for o in order:
                c = [None] * d
                c[ax] = b
                for i, v in zip(others, o):
                    c[i] = v
                f.append(corners.index(tuple(c)))
            faces.append(f)
    return faces


# simplices: facet j is the one opposite vertex j
OWN_FACETS = {"line": [[1], [0]], "tri": [[1, 2], [0, 2], [0, 1]],
              "tet": [[1, 2, 3], [0, 2, 3], [0, 1, 3], [0, 1, 2]],
              "quad": _cube_faces(QUAD_CORNERS), "hex": _cube_faces(HEX_CORNERS)}
CORNERS = {"quad": QUAD_CORNERS, "hex": HEX_CORNERS}


def _corner_axes(corners):
    """For each corner and axis i: (index of the corner with bit i = 1, with bit i = 0), other bits kept."""
    out = []
    for c in corners:
        row = []
        for i in range(len(c)):
            hi = list(c)
            lo = list(c)
            hi[i], lo[i] = 1, 0
            row.append((corners.index(tuple(hi)), corners.index(tuple(lo))))
        out.append(row)
    return out


CORNER_AXES = {k: _corner_axes(v) for k, v in CORNERS.items()}


# ------------------------------------------------------------------ exact integers
def to_int(P):
    """Exact integer image of a float array: returns (A, E) with P == A / 2**E elementwise, A an object
    array of Python ints."""
    P = np.asarray(P, dtype=np.float64)
    flat = P.ravel().tolist()
    rat = [x.as_integer_ratio() for x in flat]
    E = max((den.bit_length() for _, den in rat), default=1) - 1
    out = np.empty(len(rat), dtype=object)
    out[:] = [num << (E - den.bit_length() + 1) for num, den in rat]
    return out.reshape(P.shape), E


def bits_of(A):
    m = max((abs(int(x)) for x in A.ravel()), default=0)
    return int(m).bit_length()


def fast(A, need_bits):
    """int64 view of an integer object array when `need_bits` (the bit length of the largest
    intermediate of the computation that follows) fits, else the object array itself."""
    if need_bits <= 62:
        return A.astype(np.int64)
    return A


def _dot(n, w):
    s = n[0] * w[0]
    for i in range(1, len(n)):
        s = s + n[i] * w[i]
    return s


def _normal(edges, D, like):
    """Integer vector n with n . w == det[edges..., w]."""
    if D == 1:
        return [np.ones(like.shape[1:], dtype=like.dtype)]
    if D == 2:
        e = edges[0]
        return [-e[1], e[0]]
    a, b = edges
    return [a[1] * b[2] - a[2] * b[1], a[2] * b[0] - a[0] * b[2], a[0] * b[1] - a[1] * b[0]]


def _det(cols):
    D = len(cols)
    if D == 1:
        return cols[0][0]
    if D == 2:
        return cols[0][0] * cols[1][1] - cols[0][1] * cols[1][0]
    return _dot(_normal(cols[:2], 3, cols[0]), cols[2])


def _sgn(x):
    return (x > 0).astype(np.int64) - (x < 0).astype(np.int64)


def _abs(x):
    return x * _sgn(x)


def _f(x):
    return np.asarray(x).astype(np.float64)


class CellGeom:
    """Supporting hyperplanes of straight convex cells in integer coordinates."""

    def __init__(self, kind, A, t, slack=0.0):
        """`slack`: absolute rounding noise of one coordinate divided by TOL, in the integer unit; added to the
        cell diameter so that TOL * scale = |n| * (TOL * h + noise)."""
        self.kind = kind
        self.D = D = A.shape[0]
        self.t = t
        self.nvl, self.nt = t.shape
        self.faces = OWN_FACETS[kind]
        V = A[:, t]                                   # (D, nvl, nt)
        self.V = V
        ssum = V[:, 0]
        for i in range(1, self.nvl):
            ssum = ssum + V[:, i]
        self.N, self.A0, self.gref, self.fscale = [], [], [], []
        planar = np.ones(self.nt, dtype=bool)
        self.planar_defect = np.zeros(self.nt)
        Vf = _f(V)
        # natural length scale of a predicate value n.(x - a): |n| * (diameter of the cell)
        self.h = np.sqrt(((Vf.max(axis=1) - Vf.min(axis=1)) ** 2).sum(axis=0))
        for F in self.faces:
            a = V[:, F[0]]
            edges = [V[:, F[i]] - a for i in range(1, D)]
            n = _normal(edges, D, a)
            g = _dot(n, ssum - self.nvl * a)          # nvl * g(centroid): != 0 for a non-degenerate cell
            fs = np.sqrt(sum(_f(c) ** 2 for c in n)) * (self.h + slack)
            for extra in F[D:]:
                off = _dot(n, V[:, extra] - a)
                planar &= (off == 0)
                with np.errstate(divide="ignore", invalid="ignore"):
                    r = np.abs(_f(off)) / fs
                self.planar_defect = np.maximum(self.planar_defect, np.nan_to_num(r, nan=np.inf))
            self.N.append(n)
            self.A0.append(a)
            self.gref.append(g)
            self.fscale.append(fs)
        self.planar = planar
        self.flat = np.zeros(self.nt, dtype=bool)
        for g in self.gref:
            self.flat |= (g == 0)

    def side(self, cells, X):
        """X: (D, m, n) points, m per query, query j against cell cells[j].  Returns S (nF, m, n), oriented so
        that S >= 0 on the cell side of every face, and the per-face natural scale (nF, n) = |n| * diameter
        (float), so that S / scale is the signed distance to the face plane in units of the cell size."""
        S, sc = [], []
        for n, a, g, fs in zip(self.N, self.A0, self.gref, self.fscale):
            sg = _sgn(g[cells])
            val = None
            for i in range(self.D):
                term = n[i][cells][None, :] * (X[i] - a[i][cells][None, :])
                val = term if val is None else val + term
            S.append(val * sg[None, :])
            sc.append(fs[cells])
        return np.stack(S), np.stack(sc)

    # measures, scaled by a kind-dependent integer factor that is the same for parents and children
    def measure(self):
        k = self.kind
        V = self.V
        if k in ("line", "tri", "tet"):
            return _abs(_dot(self.N[0], V[:, 0] - self.A0[0]))         # d! * measure
        if k == "quad":
            a = V[:, 2] - V[:, 0]
            b = V[:, 3] - V[:, 1]
            return _abs(a[0] * b[1] - a[1] * b[0])                    # 2 * area
        return _abs(hex_volume_scaled(V))

    def corner_dets(self):
        """det DF at the reference corners of tensor cells (ncorner, nt)."""
        out = []
        for row in CORNER_AXES[self.kind]:
            cols = [self.V[:, hi] - self.V[:, lo] for hi, lo in row]
            out.append(_det(cols))
        return np.stack(out)


def hex_volume_scaled(V):
    """64 * 216 * integral of det DF over the reference cube by the tensor Simpson rule on {0, 1/2, 1}^3,
    which is exact because det DF of a trilinear map is at most quadratic in each variable."""
    tot = None
    for xi in itertools.product((0, 1, 2), repeat=3):
        w = 1
        for x in xi:
            w *= (1, 4, 1)[x]
        cols = []
        for k in range(3):
            col = None
            for v, c in enumerate(HEX_CORNERS):
                f = 1 if c[k] else -1
                for i in range(3):
                    if i != k:
                        f *= (xi[i] if c[i] else 2 - xi[i])
                if f:
                    col = f * V[:, v] if col is None else col + f * V[:, v]
            cols.append(col)                                           # 4 * dF/dxi_k
        d = w * _det(cols)
        tot = d if tot is None else tot + d
    return tot


def facet_vector(kind, X):
    """Integer vector of a facet given its vertices X (D, nvf, n): its length is c(kind) x the facet's measure and
    parallel facets have parallel vectors.  1-D: the scalar 1."""
    D = X.shape[0]
    if D == 1:
        one = np.ones(X.shape[2:], dtype=np.int64)
        return [one]
    if D == 2:
        return [X[0, 1] - X[0, 0], X[1, 1] - X[1, 0]]
    if X.shape[1] == 3:
        a, b = X[:, 1] - X[:, 0], X[:, 2] - X[:, 0]
    else:
        a, b = X[:, 2] - X[:, 0], X[:, 3] - X[:, 1]                    # diagonals of a cyclic planar quad
    return _normal([a, b], 3, a)


# ------------------------------------------------------------------ logging
class _ListHandler(logging.Handler):
    def __init__(self):
        super().__init__(level=logging.DEBUG)
        self.records = []

    def emit(self, record):
        self.records.append((record.levelno, record.getMessage()))


@contextmanager
def captured_warnings():
    """The CLI silences the library below ERROR; the property speaks about warnings, so they are
    recorded here (level WARNING, not DEBUG: DEBUG would switch on validation in every constructor)."""
    lg = logging.getLogger("skfem")
    h = _ListHandler()
    old = lg.level
    lg.addHandler(h)
    lg.setLevel(logging.WARNING)
    try:
        yield h.records
    finally:
        lg.removeHandler(h)
        lg.setLevel(old)


def refine(mesh, k):
    with captured_warnings() as recs:
        child = mesh.refined(k)
    return child, list(recs)


# ------------------------------------------------------------------ helpers on meshes
def cls_name(mesh):
    return type(mesh).__name__


def vertex_part(mesh, kind):
    """(float vertex coordinates (D, nv), vertex rows of t as int64)."""
    nvl = G.NVERT[kind]
    t = np.asarray(mesh.t)[:nvl].astype(np.int64)
    # second-order classes keep their other nodes after the vertices; first-order ones may carry points that no
    # cell uses (they are part of "the original vertices keep their indices and positions")
    nv = int(t.max()) + 1 if cls_name(mesh) in SECOND_ORDER else np.asarray(mesh.doflocs).shape[1]
    return np.asarray(mesh.doflocs)[:, :nv], t


def index_set(arr, n):
    """Set of ints designated by a tag array, or None if it is not a set of indices in [0, n)."""
    a = np.asarray(arr)
    if a.dtype == bool or a.ndim != 1:
        return None
    if a.size == 0:
        return set()
    if not np.issubdtype(a.dtype, np.integer):
        if not np.issubdtype(a.dtype, np.floating) or not np.all(a == np.round(a)):
            return None
    a = a.astype(np.int64)
    if a.min() < 0 or a.max() >= n:
        return None
    return set(a.tolist())


def facet_keys_of(mesh, ixs):
    F = np.asarray(mesh.facets)
    return {tuple(sorted({int(v) for v in F[:, i]})) for i in ixs}


def sim_layout(S, nt, N, k, layout):
    """Child index sets produced by k applications of a plausible index map (used for the non-triviality rule
    and for the predicates of the recorded mechanisms; not an oracle)."""
    S = set(S)
    for _ in range(k):
        if layout == "blocked":
            S = {i + j * nt for i in S for j in range(N)}
        else:
            S = {N * i + j for i in S for j in range(N)}
        nt *= N
    return S


# ------------------------------------------------------------------ the oracle
class Judgement:
    """Geometric relation between a parent mesh and a refined mesh (parent_of, fmap, topologies, exact flag)."""


def own_validity(ctx, mesh, kind, tag):
    """Structural validity with the harness' own eyes; returns list of problems."""
    probs = []
    nvl = G.NVERT[kind]
    t_full = np.asarray(mesh.t)
    if not np.issubdtype(t_full.dtype, np.integer):
        probs.append("t-not-integer")
        return probs
    if t_full.shape[0] != nvl:
        probs.append(f"t-rows:{t_full.shape[0]}")
        return probs
    t = t_full[:nvl].astype(np.int64)
    ncol = np.asarray(mesh.doflocs).shape[1]
    if t.size == 0:
        probs.append("no-cells")
        return probs
    if t.min() < 0 or t.max() >= ncol:
        probs.append("index-out-of-range")
        return probs
    nv = int(t.max()) + 1
    if np.unique(t).size != nv:
        probs.append("unused-vertex-index")
    srt = np.sort(t, axis=0)
    if (srt[1:] == srt[:-1]).any():
        probs.append("repeated-vertex-in-cell")
    if not np.isfinite(np.asarray(mesh.doflocs)).all():
        probs.append("non-finite-coordinate")
    if np.asarray(mesh.doflocs).shape[0] != G.DIM[kind]:
        probs.append("wrong-dimension")
    return probs


def second_order_nodes(mesh, kind):
    """max over cells and local nodes of |doflocs[node] - straight image of the reference node| / h."""
    from ..refmodel import geometry as GEO
    nvl = G.NVERT[kind]
    ed = np.asarray(mesh.dofs.element_dofs)
    ref = np.asarray(mesh.elem.doflocs, dtype=float)          # (nloc, d)
    P = np.asarray(mesh.doflocs)
    t = np.asarray(mesh.t)[:nvl]
    N = GEO.shape(kind, ref.T)                                # (nvl, nloc)
    V = P[:, t]                                               # (D, nvl, nt)
    want = np.einsum("vj,dvc->djc", N, V)                     # (D, nloc, nt)
    got = P[:, ed]                                            # (D, nloc, nt)
    h = np.linalg.norm(V.max(axis=1) - V.min(axis=1), axis=0)  # (nt,)
    noise = 16 * 2.0 ** -52 * float(np.abs(P).max())           # rounding of a mapped node: relative to |x|
    err = np.maximum(np.linalg.norm(got - want, axis=0) - noise, 0.0) / h[None, :]
    return float(err.max()), int(ed.max()) + 1


def judge(ctx, parent, child, k, records, kind, tag, history="single"):
    """All clauses of the statement for one call child = parent.refined(k)."""
    cls = cls_name(parent)
    d = G.DIM[kind]
    N1 = NCHILD[kind]
    mk = lambda name: f"{name}:{cls}"                                             # noqa: E731
    info = dict(cls=cls, k=k, case=tag, history=history)

    ctx.check("same-class", type(child) is type(parent), mech=mk("class-changed"), got=cls_name(child), **info)

    Pp, tp = vertex_part(parent, kind)
    ntp = tp.shape[1]
    second = cls in SECOND_ORDER
    # points of the parent that no cell refers to (what m1 @ m2, Mesh.load of a mixed file or remove_elements
    # leave behind).  PITFALL: the child legitimately inherits them; the clauses "every vertex used" / is_valid()
    # are judged only when the parent has none, otherwise only points the call itself created must be used.
    p_unused = np.zeros(0, dtype=np.int64)
    if not second:
        used_p = np.zeros(np.asarray(parent.doflocs).shape[1], dtype=bool)
        used_p[tp.ravel()] = True
        p_unused = np.nonzero(~used_p)[0]
    # ---- structure of the child
    probs = own_validity(ctx, child, kind, tag)
    if p_unused.size:
        ctx.reached("parent-with-unused-vertices:" + ("trailing" if p_unused.max() > tp.max() else "interior"))
        ctx.drop("parent-has-unused-vertices")
        probs = [p for p in probs if p != "unused-vertex-index"]
        if not probs:
            tcf = np.asarray(child.t).astype(np.int64)
            used_c = np.zeros(np.asarray(child.doflocs).shape[1], dtype=bool)
            used_c[tcf.ravel()] = True
            fresh = np.setdiff1d(np.nonzero(~used_c)[0], p_unused)
            if fresh.size:
                probs.append("new-unused-vertex:%s" % fresh[:4].tolist())
    elif not probs and not second:
        # PITFALL: Mesh.is_valid() is False for every second-order class (it compares all doflocs columns with
        # the vertex rows of t), also for the unrefined default meshes; used for first-order classes only.
        if np.asarray(child.doflocs).shape[1] != int(np.asarray(child.t).max()) + 1:
            probs.append("extra-doflocs-columns")
        try:
            if not child.is_valid():
                probs.append("is_valid()-false")
        except Exception as e:  # noqa: BLE001
            probs.append("is_valid()-raised:" + repr(e)[:80])
    ctx.check("valid-mesh", not probs, mech=mk("valid-mesh"), problems=probs, **info)
    if probs and probs[0] in ("t-not-integer", "no-cells", "index-out-of-range") or any(
            p.startswith("t-rows") for p in probs):
        return None
    Pc, tc = vertex_part(child, kind)
    ntc = tc.shape[1]
    nvp = Pp.shape[1]

    ctx.check("cell-count", ntc == N1 ** k * ntp, mech=mk("cell-count"), got=ntc, expected=N1 ** k * ntp, **info)

    kept = Pc.shape[1] >= nvp and np.array_equal(Pc[:, :nvp], Pp)
    ctx.check("old-vertices-kept", kept, mech=mk("old-vertices"),
              first_changed=lambda: (int(np.nonzero((Pc[:, :nvp] != Pp).any(axis=0))[0][0])
                                     if Pc.shape[1] >= nvp else "fewer-vertices"), **info)

    if second:
        err, ncols = second_order_nodes(child, kind)
        ctx.check("second-order-nodes-straight",
                  err <= 1e-12 and np.asarray(child.doflocs).shape[1] == ncols, mech=mk("second-order-nodes"),
                  rel_err=err, columns=np.asarray(child.doflocs).shape[1], dofs=ncols, **info)

    # ---- exact integer coordinates on one common scale
    A, E = to_int(np.hstack([Pp, Pc]))
    A = A - A.min(axis=1)[:, None]
    B = bits_of(A)
    # means of 2^j vertices stay exact in float64 iff the significant bits of the input (counted in units of
    # its own last bit, offsets included) plus j bits per level fit into the mantissa
    inbits = bits_of(to_int(Pp)[0])
    growth = k * (1 if kind in ("line", "tri", "tet") else d)
    exact = inbits + growth <= 52
    tol = 0.0 if exact else TOL
    ctx.reached("exact-mode" if exact else "tolerant-mode")
    Ai = fast(A, d * (B + 2) + 6)
    Ap, Ac = Ai[:, :nvp], Ai[:, nvp:]

    def nonneg(S, sc):
        if tol == 0.0:
            return S >= 0
        return _f(S) >= -tol * _f(sc)

    def zero(S, sc):
        if tol == 0.0:
            return S == 0
        return np.abs(_f(S)) <= tol * _f(sc)

    # duplicates (exact equality of coordinates; in tolerant mode additionally nothing closer than 1e-9 h)
    uniq = np.unique(Pc, axis=1).shape[1]
    ctx.check("no-duplicate-vertices", uniq == Pc.shape[1], mech=mk("duplicate-vertices"),
              vertices=Pc.shape[1], distinct=uniq, **info)
    if second:
        allp = np.asarray(child.doflocs)
        ctx.check("no-duplicate-vertices", np.unique(allp, axis=1).shape[1] == allp.shape[1],
                  mech=mk("duplicate-nodes"), **info)

    # PITFALL (tolerant mode only): the rounding error of a computed midpoint is relative to the magnitude of the
    # coordinates, not to the cell size (offset -955, h = 0.02 after smoothing: 4e-12 h); the distance tolerance
    # is therefore TOL * h + 8 ulp(max |x|), and the measure tolerance 1e-10 + 64 ulp(max |x|) / h_min.
    xmax = float(np.abs(Pc).max()) if Pc.size else 0.0
    noise_abs = 8 * 2.0 ** -52 * xmax * 2.0 ** E                   # integer units
    gp = CellGeom(kind, Ap, tp, slack=noise_abs / TOL)
    gc = CellGeom(kind, Ac, tc, slack=noise_abs / TOL)
    rtol_meas = 1e-10 + 8 * noise_abs / max(float(gc.h.min()), 1e-300)
    if kind == "hex" and not gp.flat.any() and not _planar_ok(gp, tol):
        # straight edges, bilinear faces: no supporting planes, judged combinatorially (note: the generic clauses
        # evaluated above this line have been counted for this call already)
        if k == 1:
            return judge_nonplanar_hex(ctx, parent, child, records, tag, history)
        return judge_nonplanar_hex_levels(ctx, parent, child, k, records, tag, history)
    if gp.flat.any():
        raise Skip("parent-not-straight-convex")       # generator outside the quantifier

    # ---- non-degenerate, not inverted
    if kind in ("quad", "hex"):
        cdp = gp.corner_dets()
        sp = _sgn(cdp)
        if not ((sp == sp[:1]).all() and (sp != 0).all()):
            raise Skip("parent-not-convex")
        cdc = gc.corner_dets()
        sc_ = _sgn(cdc)
        one_sign = (sc_ == sc_[:1]).all(axis=0) & (sc_[0] != 0)
        bad = np.nonzero(~one_sign)[0]
        ctx.check("cells-nondegenerate", bad.size == 0, mech=mk("child-corner-jacobians-change-sign"),
                  first_bad_child=lambda: int(bad[0]), corner_signs=lambda: sc_[:, bad[0]].tolist(), **info)
    else:
        bad = np.nonzero(gc.flat)[0]
        ctx.check("cells-nondegenerate", bad.size == 0, mech=mk("degenerate-child"),
                  first_bad_child=lambda: int(bad[0]), **info)
    if gc.flat.any():
        return None

    # ---- parent of each child, found geometrically
    Vpf = Pp[:, tp]
    lo, hi = Vpf.min(axis=1), Vpf.max(axis=1)                       # (D, ntp)
    cen = Pc[:, tc].mean(axis=1)                                    # (D, ntc)
    eps = 1e-9 * float((hi - lo).max())
    parent_of = -np.ones(ntc, dtype=np.int64)
    nmatch = np.zeros(ntc, dtype=np.int64)
    chunk = max(1, 2_000_000 // max(ntp, 1))
    pairs_c, pairs_p, pairs_S, pairs_sc = [], [], [], []
    for c0 in range(0, ntc, chunk):
        cc = cen[:, c0:c0 + chunk]
        cand = np.all((cc[:, :, None] >= lo[:, None, :] - eps) & (cc[:, :, None] <= hi[:, None, :] + eps), axis=0)
        ci, pi = np.nonzero(cand)
        ci = ci + c0
        if ci.size == 0:
            continue
        X = Ac[:, tc[:, ci]]                                        # (D, nvl, npairs)
        S, sc = gp.side(pi, X)                                      # (nF, nvl, n), (nF, n)
        inside = nonneg(S, sc[:, None, :]).all(axis=(0, 1))
        ci, pi, S, sc = ci[inside], pi[inside], S[:, :, inside], sc[:, inside]
        pairs_c.append(ci)
        pairs_p.append(pi)
        pairs_S.append(S)
        pairs_sc.append(sc)
    if pairs_c:
        ci = np.concatenate(pairs_c)
        pi = np.concatenate(pairs_p)
        S = np.concatenate(pairs_S, axis=2)
        sc = np.concatenate(pairs_sc, axis=1)
        nmatch = np.bincount(ci, minlength=ntc)
        parent_of[ci] = pi                                          # unique where nmatch == 1
    else:
        ci = pi = np.zeros(0, dtype=np.int64)
        S = sc = None
    orphans = np.nonzero(nmatch != 1)[0]
    ctx.check("children-inside-one-parent", orphans.size == 0, mech=mk("child-not-inside-one-parent"),
              n_bad=int(orphans.size), first_bad_child=lambda: int(orphans[0]),
              parents_containing_it=lambda: int(nmatch[orphans[0]]),
              child_vertices=lambda: Pc[:, tc[:, orphans[0]]].T.tolist(), **info)
    if orphans.size:
        return None
    order = np.argsort(ci)
    ci, pi, S, sc = ci[order], pi[order], S[:, :, order], sc[:, order]   # now indexed by child

    per_parent = np.bincount(parent_of, minlength=ntp)
    badp = np.nonzero(per_parent != N1 ** k)[0]
    ctx.check("children-per-parent", badp.size == 0, mech=mk("children-per-parent"),
              first_bad_parent=lambda: int(badp[0]), got=lambda: int(per_parent[badp[0]]), expected=N1 ** k, **info)

    need = (3 * B + 30) if kind == "hex" else d * (B + 2) + 6
    if kind == "hex" and need > 62:
        gpm = CellGeom(kind, A[:, :nvp], tp).measure()
        gcm = CellGeom(kind, A[:, nvp:], tc).measure()
    else:
        gpm, gcm = gp.measure(), gc.measure()
    sums = np.zeros(ntp, dtype=object)
    np.add.at(sums, parent_of, gcm.astype(object))
    gpm_o = gpm.astype(object)
    if tol == 0.0:
        badm = np.nonzero(sums != gpm_o)[0]
    else:
        # thin parents: a displacement of the size of the coordinate rounding changes the measure by noise * h^(d-1),
        # which relative to the measure is noise / altitude, not noise / h: scale by the aspect h^d / measure
        aspect = np.maximum(1.0, _f(gp.h) ** d / np.maximum(np.abs(_f(gpm_o)), 1e-300))
        rt = 1e-10 + (rtol_meas - 1e-10) * aspect
        if (rt > 1e-3).any():
            ctx.drop("children-measure:parent-thinner-than-coordinate-resolution")
        badm = np.nonzero((np.abs(_f(sums) - _f(gpm_o)) > rt * _f(gpm_o)) & (rt <= 1e-3))[0]
    ctx.check("children-measure", badm.size == 0, mech=mk("children-measure"),
              first_bad_parent=lambda: int(badm[0]),
              ratio=lambda: float(sums[badm[0]]) / float(gpm_o[badm[0]]), **info)
    if kind in ("quad", "hex"):
        same = _sgn(cdc)[0] == _sgn(cdp)[0][parent_of]
        ctx.check("cells-nondegenerate", bool(same.all()), mech=mk("child-orientation-differs-from-parent"),
                  first_bad_child=lambda: int(np.nonzero(~same)[0][0]), **info)

    # ---- conformity on the dictionary topology
    topo_p = T.Topology(tp, OWN_FACETS[kind])
    topo_c = T.Topology(tc, OWN_FACETS[kind])
    if topo_p.max_cells_per_facet() > 2:
        raise Skip("parent-non-manifold")
    mx = topo_c.max_cells_per_facet()
    ctx.check("facets-at-most-two-cells", mx <= 2, mech=mk("facet-with-more-than-two-cells"), max_cells=mx, **info)
    if topo_p.components() > 1:
        ctx.reached("several-components")

    # child facet -> parent facet it lies on (None: interior of the parent cell)
    faces = OWN_FACETS[kind]
    onF = np.zeros((len(faces), len(faces), ntc), dtype=bool)       # [child local facet, parent face, child]
    for f, fv in enumerate(faces):
        for Fp in range(len(faces)):
            onF[f, Fp] = zero(S[Fp][fv, :], sc[Fp][None, :]).all(axis=0)
    fmap = {}
    fmap_src = {}
    two_faces = 0
    cf_idx, cF_idx, cc_idx = np.nonzero(onF)
    seen_cf = set()
    for f, Fp, c in zip(cf_idx.tolist(), cF_idx.tolist(), cc_idx.tolist()):
        if (f, c) in seen_cf:
            two_faces += 1
            continue
        seen_cf.add((f, c))
        key_c = topo_c.cell_facets[c][f]
        key_p = topo_p.cell_facets[int(parent_of[c])][Fp]
        old = fmap.get(key_c)
        if old is None:
            fmap[key_c] = key_p
            fmap_src[key_c] = (c, f, int(parent_of[c]), Fp)
        elif old != key_p:
            two_faces += 1
    bnd_p = topo_p.boundary_facet_keys()
    bnd_c = topo_c.boundary_facet_keys()
    stray = [kf for kf in bnd_c if fmap.get(kf) not in bnd_p]
    ctx.check("boundary-facets-preserved",
              not stray and len(bnd_c) == 2 ** ((d - 1) * k) * len(bnd_p) and two_faces == 0,
              mech=mk("boundary-facets"), n_child_boundary=len(bnd_c), n_parent_boundary=len(bnd_p),
              expected_factor=2 ** ((d - 1) * k), stray=lambda: stray[:3],
              stray_lies_on=lambda: [fmap.get(s) for s in stray[:3]], ambiguous=two_faces, **info)

    # every parent facet is tiled by 2^((d-1)k) child facets of the right total measure
    by_parent = {}
    for kc, kp in fmap.items():
        by_parent.setdefault(kp, []).append(kc)
    nsub = 2 ** ((d - 1) * k)
    count_bad = [kp for kp in topo_p.facet_cells if len(by_parent.get(kp, ())) != nsub]
    meas_bad = []
    if not count_bad and d >= 2:
        kcs = list(fmap)
        src = np.array([fmap_src[kc] for kc in kcs], dtype=np.int64)   # (n, 4): c, f, K, Fp
        # gather ordered facet vertices (own tables keep the cyclic order of quadrilateral faces)
        fv = np.array(faces, dtype=np.int64)                            # (nF, nvf)
        Xc = Ac[:, tc[fv[src[:, 1]].T, src[:, 0][None, :]]]             # (D, nvf, n)
        Xp = Ap[:, tp[fv[src[:, 3]].T, src[:, 2][None, :]]]
        if Xc.dtype != object and 2 * (2 * (B + 2) + 3) + 3 > 62:
            Xc, Xp = Xc.astype(object), Xp.astype(object)
        ac = facet_vector(kind, Xc)
        ap = facet_vector(kind, Xp)
        proj = _abs(_dot(ac, ap)).astype(object)
        full = _dot(ap, ap).astype(object)
        acc = {}
        ful = {}
        for i, kc in enumerate(kcs):
            kp = fmap[kc]
            acc[kp] = acc.get(kp, 0) + proj[i]
            ful[kp] = full[i]
        for kp, v in acc.items():
            if (v != ful[kp]) if tol == 0.0 else (abs(float(v) - float(ful[kp])) > rtol_meas * float(ful[kp])):
                meas_bad.append(kp)
    ctx.check("facets-subdivide-parent-facets", not count_bad and not meas_bad,
              mech=mk("parent-facet-not-tiled"), wrong_count=lambda: count_bad[:3],
              counts=lambda: [len(by_parent.get(kp, ())) for kp in count_bad[:3]], expected=nsub,
              wrong_measure=lambda: meas_bad[:3], **info)

    # ---- hanging nodes: no vertex lies in a closed cell it is not a vertex of
    hang = hanging_nodes(gc, Pc, tc, Ac, nonneg)
    if hang is None:
        ctx.drop("hanging-node-test-skipped:nonplanar-children")
    else:
        ctx.check("no-hanging-nodes", len(hang) == 0, mech=mk("vertex-inside-foreign-cell"),
                  first=lambda: hang[:3], **info)

    # ---- tags
    J = Judgement()
    J.parent_of, J.fmap, J.topo_c, J.topo_p, J.exact = parent_of, fmap, topo_c, topo_p, exact
    blocked = np.arange(ntc) % ntp
    if (blocked != parent_of).any():
        ctx.reached("child-layout-not-blocked")
    judge_tags(ctx, parent, child, k, records, kind, J, info, ntp, ntc)
    if k >= 2:
        ctx.reached("levels>=2")
    if second:
        ctx.reached("second-order-parent")
    return J


def judge_nonplanar_hex(ctx, parent, child, records, tag, history="single"):
    """One call child = parent.refined(1) of a hexahedral mesh with NON-PLANAR faces (straight edges, bilinear
    faces).  No supporting planes exist, so instead of the plane predicates the octant structure is decided
    combinatorially from exact midpoint identities: in dyadic arithmetic with three spare bits every vertex of a
    correct child is the exact mean of 1, 2, 4 or 8 vertices of one parent cell, i.e. the image of a point of the
    lattice {0, 1/2, 1}^3 under that cell's trilinear map.  Decided: each child is a positively oriented octant
    of one parent (containment and orientation in reference coordinates), 8 distinct octants per parent, new
    points = all edge / face / cell midpoints, once each, conformity on the dictionary topology, and all tag
    clauses with the parent / facet maps found this way.  Measure and plane-based tests are not evaluated."""
    kind, k = "hex", 1
    cls = cls_name(parent)
    mk = lambda name: f"{name}:{cls}:nonplanar"                                 # noqa: E731
    info = dict(cls=cls, k=1, case=tag, history=history, nonplanar=True)
    ctx.check("same-class", type(child) is type(parent), mech=mk("class-changed"), got=cls_name(child), **info)
    Pp, tp = vertex_part(parent, kind)
    ntp = tp.shape[1]
    if bits_of(to_int(Pp)[0]) + 3 > 52:
        raise Skip("nonplanar-hex-midpoints-not-exact")
    used_p = np.zeros(Pp.shape[1], dtype=bool)
    used_p[tp.ravel()] = True
    probs = own_validity(ctx, child, kind, tag)
    if used_p.all() and not probs and cls not in SECOND_ORDER:
        if np.asarray(child.doflocs).shape[1] != int(np.asarray(child.t).max()) + 1:
            probs.append("extra-doflocs-columns")
        if not child.is_valid():
            probs.append("is_valid()-false")
    elif not used_p.all():
        probs = [p for p in probs if p != "unused-vertex-index"]
    ctx.check("valid-mesh", not probs, mech=mk("valid-mesh"), problems=probs, **info)
    if probs:
        return None
    Pc, tc = vertex_part(child, kind)
    ntc, nvp = tc.shape[1], Pp.shape[1]
    ctx.check("cell-count", ntc == 8 * ntp, mech=mk("cell-count"), got=ntc, expected=8 * ntp, **info)
    kept = Pc.shape[1] >= nvp and np.array_equal(Pc[:, :nvp], Pp)
    ctx.check("old-vertices-kept", kept, mech=mk("old-vertices"), **info)
    uniq = np.unique(Pc, axis=1).shape[1]
    ctx.check("no-duplicate-vertices", uniq == Pc.shape[1], mech=mk("duplicate-vertices"),
              vertices=Pc.shape[1], distinct=uniq, **info)
    if not kept or uniq != Pc.shape[1]:
        return None
    A, _ = to_int(np.hstack([Pp, Pc]))
    Ap, Ac = A[:, :nvp], A[:, nvp:]
    # 8 x image of the lattice point r in {0, 1, 2}^3 (twice the reference coordinates) of parent cell K
    lattice = list(itertools.product((0, 1, 2), repeat=3))
    where = {}                                           # 8 * point -> list of (K, r)
    for K in range(ntp):
        V = [tuple(int(x) for x in Ap[:, tp[j, K]]) for j in range(8)]
        for r in lattice:
            acc = [0, 0, 0]
            for j, c in enumerate(HEX_CORNERS):
                w = 1
                for i in range(3):
                    w *= r[i] if c[i] else 2 - r[i]
                if w:
                    for i in range(3):
                        acc[i] += w * V[j][i]
            where.setdefault(tuple(acc), []).append((K, r))
    ctx.reached("nonplanar-hex-judged")
    place = [where.get(tuple(8 * int(x) for x in Ac[:, v]), []) for v in range(Ac.shape[1])]
    usedc = np.zeros(Ac.shape[1], dtype=bool)
    usedc[tc.ravel()] = True
    stray = [v for v in np.nonzero(usedc)[0].tolist() if not place[v]]
    ctx.check("children-inside-one-parent", not stray, mech=mk("child-vertex-is-no-midpoint-of-parent-vertices"),
              n_bad=len(stray), first=lambda: stray[:4], coords=lambda: Pc[:, stray[:2]].T.tolist(), **info)
    if stray:
        return None
    # new points: every edge / face / cell midpoint of the parent exactly once (no duplicates was checked above)
    expected_new = {key for key, lst in where.items() if any(1 in r for _, r in lst)}
    got_new = {tuple(8 * int(x) for x in Ac[:, v]) for v in range(nvp, Ac.shape[1]) if usedc[v]}
    ctx.check("children-per-parent", got_new == expected_new, mech=mk("new-vertices-are-not-the-midpoints"),
              missing=len(expected_new - got_new), extra=len(got_new - expected_new), **info)
    # each child: an oriented octant of one parent
    HC = np.array(HEX_CORNERS, dtype=np.int64)
    parent_of = -np.ones(ntc, dtype=np.int64)
    Rc = np.zeros((ntc, 8, 3), dtype=np.int64)
    bad = []
    for c in range(ntc):
        cand = None
        for j in range(8):
            Ks = {K for K, _ in place[int(tc[j, c])]}
            cand = Ks if cand is None else cand & Ks
        if not cand or len(cand) != 1:
            bad.append((c, "vertices-in-%d-parents" % (len(cand) if cand else 0)))
            continue
        K = next(iter(cand))
        rs = []
        for j in range(8):
            rr = [r for KK, r in place[int(tc[j, c])] if KK == K]
            rs.append(rr[0])
        R = np.array(rs, dtype=np.int64)
        o = R[7]
        M = np.stack([R[4] - o, R[5] - o, R[6] - o], axis=1)          # images of e_0, e_1, e_2
        ok = (np.abs(M).sum(axis=0) == 1).all() and (np.abs(M).sum(axis=1) == 1).all() \
            and round(float(np.linalg.det(M))) == 1 and np.array_equal(R, o[None, :] + HC @ M.T)
        if not ok:
            bad.append((c, "not-an-oriented-octant", R.tolist()))
            continue
        parent_of[c] = K
        Rc[c] = R
    ctx.check("cells-nondegenerate", not bad, mech=mk("child-not-an-oriented-octant-of-one-parent"),
              n_bad=len(bad), first=lambda: bad[:2], **info)
    if bad:
        return None
    octant = Rc.min(axis=1)                                            # in {0, 1}^3
    per = {}
    for c in range(ntc):
        per.setdefault(int(parent_of[c]), set()).add(tuple(octant[c].tolist()))
    badp = [K for K in range(ntp) if len(per.get(K, ())) != 8]
    per_parent = np.bincount(parent_of, minlength=ntp)
    ctx.check("children-per-parent", not badp and (per_parent == 8).all(), mech=mk("children-per-parent"),
              first_bad_parent=lambda: badp[:3], **info)
    # ---- conformity on the dictionary topology
    faces = OWN_FACETS[kind]
    topo_p = T.Topology(tp, faces)
    topo_c = T.Topology(tc, faces)
    if topo_p.max_cells_per_facet() > 2:
        raise Skip("parent-non-manifold")
    mx = topo_c.max_cells_per_facet()
    ctx.check("facets-at-most-two-cells", mx <= 2, mech=mk("facet-with-more-than-two-cells"), max_cells=mx, **info)
    fmap, clash = {}, 0
    for c in range(ntc):
        K = int(parent_of[c])
        for f, fv in enumerate(faces):
            R = Rc[c, fv]                                              # (4, 3)
            for ax in range(3):
                for b in (0, 1):
                    if (R[:, ax] == 2 * b).all():
                        key_c, key_p = topo_c.cell_facets[c][f], topo_p.cell_facets[K][2 * ax + b]
                        if fmap.setdefault(key_c, key_p) != key_p:
                            clash += 1
    bnd_p, bnd_c = topo_p.boundary_facet_keys(), topo_c.boundary_facet_keys()
    strayf = [kf for kf in bnd_c if fmap.get(kf) not in bnd_p]
    ctx.check("boundary-facets-preserved", not strayf and len(bnd_c) == 4 * len(bnd_p) and clash == 0,
              mech=mk("boundary-facets"), n_child_boundary=len(bnd_c), n_parent_boundary=len(bnd_p),
              stray=lambda: strayf[:3], ambiguous=clash, **info)
    by_parent = {}
    for kc, kp in fmap.items():
        by_parent.setdefault(kp, []).append(kc)
    count_bad = [kp for kp in topo_p.facet_cells if len(by_parent.get(kp, ())) != 4]
    ctx.check("facets-subdivide-parent-facets", not count_bad, mech=mk("parent-facet-not-tiled"),
              wrong_count=lambda: count_bad[:3], **info)
    # without duplicate points and with every child an octant, a hanging node can only show as a child facet
    # (inside a parent or on an interior parent facet) that has a cell on one side only
    int_p = topo_p.interior_facet_keys()
    one_sided = [kc for kc, cells in topo_c.facet_cells.items()
                 if len({c for c, _ in cells}) == 1 and (kc not in fmap or fmap[kc] in int_p)]
    ctx.check("no-hanging-nodes", not one_sided, mech=mk("one-sided-interior-child-facet"),
              first=lambda: one_sided[:3], **info)
    J = Judgement()
    J.parent_of, J.fmap, J.topo_c, J.topo_p, J.exact = parent_of, fmap, topo_c, topo_p, True
    if ((np.arange(ntc) % ntp) != parent_of).any():
        ctx.reached("child-layout-not-blocked")
    judge_tags(ctx, parent, child, k, records, kind, J, info, ntp, ntc)
    return J


def judge_nonplanar_hex_levels(ctx, parent, child, k, records, tag, history):
    """refined(k), k >= 2, of a hexahedral mesh with non-planar faces: the same call level by level (each level
    judged by judge_nonplanar_hex), and the k-level result must be the mesh the single levels produce (second
    execution that must agree: refined(k) is k times refined(1))."""
    cur, J = parent, None
    for _ in range(k):
        nxt, recs = refine(cur, 1)
        J = judge_nonplanar_hex(ctx, cur, nxt, recs, tag, history=history + "/level")
        if J is None:
            return None
        cur = nxt

    def same_tags(a, b):
        if (a is None) != (b is None):
            return False
        return a is None or (set(a) == set(b) and all(np.array_equal(np.sort(np.asarray(a[n]).ravel()),
                                                                       np.sort(np.asarray(b[n]).ravel())) for n in a))
    ok = (np.array_equal(np.asarray(child.p), np.asarray(cur.p)) and np.array_equal(np.asarray(child.t), np.asarray(cur.t))
          and same_tags(child.subdomains, cur.subdomains) and same_tags(child.boundaries, cur.boundaries))
    ctx.check("cell-count", ok, mech=f"refined(k)-differs-from-k-times-refined(1):{cls_name(parent)}", k=k, case=tag)
    ctx.reached("levels>=2")
    return J


def _planar_ok(g, tol):
    if tol == 0.0:
        return bool(g.planar.all())
    return bool((g.planar_defect <= 1e-10).all())


def hanging_nodes(gc, Pc, tc, Ac, nonneg):
    from scipy.spatial import cKDTree
    if gc.kind == "hex" and not (gc.planar_defect <= 1e-10).all():
        return None
    V = Pc[:, tc]
    cen = V.mean(axis=1)
    rad = np.sqrt(((V - cen[:, None, :]) ** 2).sum(axis=0)).max(axis=0) * (1 + 1e-9)
    usedv = np.unique(tc)                      # a point no cell refers to is not a node of the mesh
    tree = cKDTree(Pc[:, usedv].T)
    lists = tree.query_ball_point(cen.T, rad)
    cs, vs = [], []
    for c, lst in enumerate(lists):
        own = set(tc[:, c].tolist())
        for v in usedv[lst].tolist():
            if v not in own:
                cs.append(c)
                vs.append(v)
    if not cs:
        return []
    cs = np.array(cs, dtype=np.int64)
    vs = np.array(vs, dtype=np.int64)
    X = Ac[:, vs][:, None, :]
    S, sc = gc.side(cs, X)
    inside = nonneg(S, sc[:, None, :]).all(axis=(0, 1))
    idx = np.nonzero(inside)[0]
    return [(int(vs[i]), int(cs[i])) for i in idx[:5]]


def gated(ctx, monitor, cond, mech, **detail):
    """ctx.check, except that a failure whose mechanism is listed in REPORT_ONLY is counted instead of recorded."""
    if not cond:
        m = mech() if callable(mech) else mech
        if m in REPORT_ONLY:
            ctx.ok(monitor)
            ctx.tolerated(monitor)
            ctx.reached("report-only:" + m)
            ctx.notes.setdefault("report_only:" + m, repr({k: (v() if callable(v) else v)
                                                           for k, v in detail.items()})[:800])
            return False
        mech = m
    return ctx.check(monitor, cond, mech=mech, **detail)


def tag_usable(ctx, ptag, ctag, table, what, cls, name, info):
    """A named set is something that selects columns of t / facets.  Judged when the parent's tag was such a thing
    (1-D integer ndarray of any integer dtype, or a list / tuple of ints, possibly empty): the child's tag must
    again have an integer dtype (also when it is empty: np.unique([]) or a / 2 in an index map produce float64,
    which no indexing accepts) or be an empty list / tuple, and `table[:, tag]` must evaluate."""
    pa = np.asarray(ptag)
    seq = isinstance(ptag, (list, tuple))
    if pa.ndim != 1 or pa.dtype == bool:
        return
    if not (np.issubdtype(pa.dtype, np.integer) or (seq and pa.size == 0)):
        return
    ca = np.asarray(ctag)
    problems = []
    if not (np.issubdtype(ca.dtype, np.integer) or (isinstance(ctag, (list, tuple)) and ca.size == 0)):
        problems.append("dtype:" + str(ca.dtype))
    try:
        table[:, ctag]
    except Exception as e:  # noqa: BLE001
        problems.append("indexing-raises:" + type(e).__name__)

    def mech():
        if (cls == "MeshLine1" and what == "subdomain" and seq and pa.size == 0 and isinstance(ctag, np.ndarray)
                and ca.size == 0 and ca.dtype == np.float64):
            return "line1-empty-list-subdomain-becomes-float64-array"
        return f"{what}-tag-not-usable-as-index:{cls}"
    gated(ctx, "tags-usable-as-indices", not problems, mech, name=name, problems=problems,
          parent_tag_type=type(ptag).__name__, parent_dtype=str(pa.dtype), child_tag_type=type(ctag).__name__,
          child_dtype=str(ca.dtype), child_shape=ca.shape, **info)
    if pa.size == 0:
        ctx.reached("empty-tag-usability-judged")


def judge_tags(ctx, parent, child, k, records, kind, J, info, ntp, ntc):
    cls = cls_name(parent)
    N1 = NCHILD[kind]
    msgs = [m for lv, m in records if lv >= logging.WARNING]
    # ---------------- subdomains
    psub = parent.subdomains
    if psub is not None:
        csub = child.subdomains
        if csub is None:
            warned = any("ubdomain" in m for m in msgs)
            ctx.check("dropped-tags-warned", warned, mech=f"subdomains-dropped-silently:{cls}", messages=msgs, **info)
            ctx.reached("subdomains-dropped-with-warning")
        else:
            ctx.check("subdomains-propagated", set(csub) == set(psub), mech=f"subdomain-names:{cls}",
                      got=sorted(csub), expected=sorted(psub), **info)
            for name, ixs in psub.items():
                Sp = index_set(ixs, ntp)
                if Sp is None:
                    ctx.drop("parent-subdomain-not-an-index-set")
                    continue
                if name not in csub:
                    continue
                want = set(np.nonzero(np.isin(J.parent_of, np.fromiter(Sp, dtype=np.int64, count=len(Sp))))[0]
                           .tolist())
                tag_usable(ctx, ixs, csub[name], np.asarray(child.t), "subdomain", cls, name, info)
                got = index_set(csub[name], ntc)
                ok = got is not None and got == want

                def mech(got=got, want=want, Sp=Sp, ixs=ixs):
                    if (cls == "MeshLine1" and isinstance(ixs, np.ndarray) and ixs.dtype.kind in "iu" and Sp
                            and N1 ** k * (max(Sp) + 1) - 1 > np.iinfo(ixs.dtype).max):
                        # 2 * ixs is computed in the tag's own dtype: the largest child index does not fit
                        return "line1-subdomain-index-map-overflows-the-tag-dtype"
                    if got is not None and got != want and got == sim_layout(Sp, ntp, N1, k, "blocked"):
                        if cls == "MeshLine1":
                            return "line1-subdomains-blocked-index-map-on-interleaved-children"
                        if cls == "MeshTet2":
                            return "tet2-subdomains-blocked-index-map-on-grouped-children"
                    return f"subdomains:{cls}"
                gated(ctx, "subdomains-propagated", ok, mech, name=name,
                      parent_set=lambda Sp=Sp: sorted(Sp)[:20], parent_dtype=str(np.asarray(ixs).dtype),
                          n_got=lambda got=got: None if got is None else len(got), n_expected=len(want),
                          wrongly_included=lambda got=got, want=want: sorted((got or set()) - want)[:10],
                          missing=lambda got=got, want=want: sorted(want - (got or set()))[:10], **info)
                if 0 < len(Sp) < ntp and sim_layout(Sp, ntp, N1, k, "blocked") != sim_layout(Sp, ntp, N1, k, "inter"):
                    ctx.nontrivial(cls, "subdomain", info["history"], k)
    # ---------------- boundaries
    pbnd = parent.boundaries
    if pbnd is not None:
        cbnd = child.boundaries
        nfp = np.asarray(parent.facets).shape[1]
        if cbnd is None:
            warned = any("oundar" in m for m in msgs)
            ctx.check("dropped-tags-warned", warned, mech=f"boundaries-dropped-silently:{cls}", messages=msgs, **info)
            if cls in BOUNDARY_SUPPORT or (STRICT_SECOND_ORDER_BOUNDARIES and cls in SECOND_ORDER_OF_SUPPORTING_TYPES):
                ctx.check("boundaries-propagated", False, mech=f"boundaries-dropped:{cls}", **info)
            else:
                ctx.reached("boundaries-dropped-with-warning")
                if cls in SECOND_ORDER_OF_SUPPORTING_TYPES:
                    # accepted under the reading chosen above; counted so that the evidence shows how often
                    ctx.tolerated("boundaries-propagated")
                    ctx.reached("boundaries-dropped-with-warning:second-order-triangles-or-quadrilaterals")
        else:
            nfc = np.asarray(child.facets).shape[1]
            ctx.check("boundaries-propagated", set(cbnd) == set(pbnd), mech=f"boundary-names:{cls}",
                      got=sorted(cbnd), expected=sorted(pbnd), **info)
            int_keys = J.topo_p.interior_facet_keys()
            for name, ixs in pbnd.items():
                Sp = index_set(ixs, nfp)
                if Sp is None:
                    ctx.drop("parent-boundary-not-an-index-set")
                    continue
                if name not in cbnd:
                    continue
                pkeys = facet_keys_of(parent, Sp)
                want = {kc for kc, kp in J.fmap.items() if kp in pkeys}
                tag_usable(ctx, ixs, cbnd[name], np.asarray(child.facets), "boundary", cls, name, info)
                gi = index_set(cbnd[name], nfc)
                got = None if gi is None else facet_keys_of(child, gi)
                ok = got is not None and got == want
                ctx.check("boundaries-propagated", ok, mech=f"boundaries:{cls}", name=name,
                          parent_facets=lambda Sp=Sp: sorted(Sp)[:20],
                          n_got=lambda got=got: None if got is None else len(got), n_expected=len(want),
                          wrongly_included=lambda got=got, want=want: sorted((got or set()) - want)[:5],
                          missing=lambda got=got, want=want: sorted(want - (got or set()))[:5], **info)
                if pkeys & int_keys:
                    ctx.reached("interior-facet-tagged")
                if hasattr(ixs, "ori") and getattr(ixs, "ori", None) is not None:
                    ctx.reached("oriented-boundary-tagged")
                if 0 < len(Sp) < nfp:
                    ctx.nontrivial(cls, "boundary", info["history"], k)


# ------------------------------------------------------------------ workload: meshes
def bfs_subset(rng, t, nmax):
    """A vertex-connected region of <= nmax cells grown from a random cell (plus, sometimes, stray cells)."""
    nt = t.shape[1]
    if nt <= nmax:
        return np.arange(nt)
    v2c = {}
    for c in range(nt):
        for v in t[:, c]:
            v2c.setdefault(int(v), []).append(c)
    start = int(rng.integers(nt))
    seen = {start}
    queue = [start]
    while queue and len(seen) < nmax:
        c = queue.pop(0)
        nb = sorted({c2 for v in t[:, c] for c2 in v2c[int(v)]} - seen)
        rng.shuffle(nb)
        for c2 in nb:
            if len(seen) >= nmax:
                break
            seen.add(c2)
            queue.append(c2)
    return np.array(sorted(seen), dtype=np.int64)


def base_mesh(ctx, rng, kind, nmax, allow_inexact=True):
    """First-order parent of `kind` with <= nmax cells: returns (mesh, descriptor)."""
    if kind == "hex":
        mc = G.hex_mesh(rng, style=str(rng.choice(["tensor", "parallelepiped", "extruded", "jiggled"],
                                                   p=[.3, .25, .25, .2])))
    else:
        mc = G.first_order(rng, kind, renum=bool(rng.random() < 0.8))
    m = mc.mesh
    desc = dict(mc.desc)
    p = np.asarray(m.p).copy()
    t = np.asarray(m.t).astype(np.int64)
    if t.shape[1] > nmax:
        keep = bfs_subset(rng, t, nmax)
        if rng.random() < 0.3 and keep.size > 3:           # a few stray cells -> several components
            extra = rng.choice(t.shape[1], size=2, replace=False)
            keep = np.unique(np.concatenate([keep[:-2], extra]))
        p, t = G.clean(p, t[:, keep])
        desc["subset"] = int(t.shape[1])
    r = rng.random()
    if r < 0.12:
        # powers of two keep every coordinate an exact dyadic: a hidden ABSOLUTE threshold in a refinement routine
        # (rounding to n decimals, atol, isclose) shows at 2^-30 (cells of 1e-9) or 2^20 and not in between
        e = int(rng.choice([-30, -10, -3, 5, 10, 20]))
        s = float(2.0 ** e)
        p = p * s
        desc["scaled"] = s
        if abs(e) >= 20:
            ctx.reached("scaled-by-2^%d" % e)
    elif r < 0.24:
        if rng.random() < 0.5:
            off = rng.integers(-1000, 1001, size=(p.shape[0], 1)).astype(float)
        else:
            # cells of size 2^-6 or so at 2^20: 26 + few significant bits, midpoints still exact
            off = rng.choice([-1.0, 1.0], size=(p.shape[0], 1)) * 2.0 ** 20 + rng.integers(-3, 4, size=(p.shape[0], 1))
            ctx.reached("offset-by-2^20")
        p = p + off
        desc["offset"] = off.ravel().tolist()
    elif r < 0.36 and allow_inexact:
        R, shift = G.rigid_motion(rng, p.shape[0])
        if p.shape[0] > 1:
            p = R @ p + shift
            desc["rotated"] = True                           # float images of k/5, k/13: midpoints inexact
        else:
            p = p * (1.0 / 3.0)
            desc["scaled"] = "1/3"
    desc["ncells"] = int(t.shape[1])
    if kind == "tri" and rng.random() < 0.35:
        # cells kept in the local vertex order given (what loaded, oriented and second-order meshes have)
        for c in range(t.shape[1]):
            t[:, c] = t[rng.permutation(3), c]
        m = G.mesh_class(kind, 1)(p, t, sort_t=False)
        if np.array_equal(np.asarray(m.t), t):
            desc["unsorted_cells"] = True
            ctx.reached("unsorted-triangle-cells")
            return m, desc
    return G.mesh_class(kind, 1)(p, t), desc


def index_array(rng, idx):
    """The same index set in one of the shapes a user may hand over."""
    idx = np.asarray(idx, dtype=np.int64)
    form = int(rng.integers(11))
    if form == 6:
        return [int(i) for i in rng.permutation(idx)], "list"
    if form == 7:
        return tuple(int(i) for i in rng.permutation(idx)), "tuple"
    if form == 8:
        return [np.int64(i) for i in rng.permutation(idx)], "list-of-numpy-scalars"
    if form == 9 and idx.size:
        rep = np.concatenate([idx, idx[rng.integers(0, idx.size, size=int(rng.integers(1, idx.size + 2)))]])
        return rng.permutation(rep).astype(np.int64 if rng.random() < 0.5 else np.int32), "repeated-entries"
    if form == 10:
        top = int(idx.max()) if idx.size else 0
        dt = np.uint8 if top < 2 ** 8 else (np.uint16 if top < 2 ** 16 else np.uint32)
        if rng.random() < 0.5:
            dt = np.int16 if top < 2 ** 15 else np.int32
        return rng.permutation(idx).astype(dt), np.dtype(dt).name
    if form == 0:
        return np.sort(idx).astype(np.int32), "int32-sorted"
    if form == 1:
        return rng.permutation(idx).astype(np.int64), "int64-unsorted"
    if form == 2:
        buf = np.zeros(2 * idx.size, dtype=np.int64)
        buf[::2] = rng.permutation(idx)
        return buf[::2], "strided-view"
    if form == 3:
        a = rng.permutation(idx).astype(np.int32)
        a.setflags(write=False)
        return a, "read-only"
    if form == 4:
        return np.sort(idx)[::-1].astype(np.int64), "descending"
    return np.sort(idx).astype(np.uint32 if idx.size else np.int32), "uint32"


def random_subset(rng, n):
    r = rng.random()
    if r < 0.06:
        return np.zeros(0, dtype=np.int64), "empty"
    if r < 0.12:
        return np.arange(n), "full"
    if r < 0.25:
        return np.array([int(rng.integers(n))]), "single"
    if r < 0.35 and n > 2:
        return np.delete(np.arange(n), int(rng.integers(n))), "all-but-one"
    size = int(rng.integers(1, max(2, n)))
    return rng.choice(n, size=min(size, n), replace=False), "random"


def add_tags(ctx, rng, m, want_boundaries=True, want_subdomains=True):
    """Random named cell subsets and facet subsets on mesh m; returns (mesh, descriptor)."""
    nt = m.t.shape[1]
    desc = {}
    if want_subdomains:
        subs = {}
        for j in range(int(rng.integers(1, 4))):
            if rng.random() < 0.2:
                ax = int(rng.integers(m.p.shape[0]))
                thr = float(np.median(m.p[ax]))
                subs[f"s{j}"] = (lambda x, ax=ax, thr=thr: x[ax] < thr)
                desc[f"s{j}"] = f"predicate x{ax}<{thr}"
            else:
                idx, how = random_subset(rng, nt)
                arr, form = index_array(rng, idx)
                subs[f"s{j}"] = arr
                desc[f"s{j}"] = f"{how}/{form}/{idx.size}"
                ctx.reached("tag-form:" + form)
                if isinstance(arr, (list, tuple)) and not len(arr):
                    ctx.reached("tag:empty-python-sequence")
        m = m.with_subdomains(subs)
    if want_boundaries:
        nf = m.facets.shape[1]
        bf = np.asarray(m.boundary_facets())
        bnds = {}
        for j in range(int(rng.integers(1, 4))):
            r = rng.random()
            if r < 0.15 and nt > 1:
                # oriented boundary around a cell subset (interior interface included)
                idx, _ = random_subset(rng, nt)
                if idx.size == 0:
                    idx = np.array([0])
                ob = m.facets_around(idx, flip=bool(rng.random() < 0.5))
                bnds[f"b{j}"] = ob
                desc[f"b{j}"] = f"facets_around/{len(ob)}"
            elif r < 0.30:
                ax = int(rng.integers(m.p.shape[0]))
                thr = float(np.median(m.p[ax]))
                bnds[f"b{j}"] = (lambda x, ax=ax, thr=thr: x[ax] <= thr)
                desc[f"b{j}"] = f"predicate x{ax}<={thr} (boundary facets only)"
            elif r < 0.38:
                # a predicate over ALL facets (interior ones included)
                ax = int(rng.integers(m.p.shape[0]))
                thr = float(np.median(m.p[ax]))
                pred = (lambda x, ax=ax, thr=thr: x[ax] <= thr)
                m = m.with_boundaries({f"b{j}": pred}, boundaries_only=False)
                desc[f"b{j}"] = f"predicate x{ax}<={thr} (all facets)/{len(m.boundaries[f'b{j}'])}"
                ctx.reached("tag:predicate-over-all-facets")
            elif r < 0.46 and bf.size > 1:
                # a VIEW of the array boundary_facets() returned (no copy): the tag aliases whatever the mesh keeps
                own = m.boundary_facets()
                a = int(rng.integers(0, own.size - 1))
                view = own[a::int(rng.integers(1, 3))]
                bnds[f"b{j}"] = view
                desc[f"b{j}"] = f"view-of-boundary_facets()/{view.size}"
                ctx.reached("tag:view-of-own-boundary_facets")
            elif r < 0.60 and bf.size:
                idx, how = random_subset(rng, bf.size)
                arr, form = index_array(rng, bf[idx])
                bnds[f"b{j}"] = arr
                desc[f"b{j}"] = f"boundary-{how}/{form}/{idx.size}"
                ctx.reached("tag-form:" + form)
            else:
                idx, how = random_subset(rng, nf)
                arr, form = index_array(rng, idx)
                bnds[f"b{j}"] = arr
                desc[f"b{j}"] = f"any-{how}/{form}/{idx.size}"
                ctx.reached("tag-form:" + form)
        m = m.with_boundaries(bnds)
    return m, desc


def pick_k(rng, kind, nt, cap):
    N = NCHILD[kind]
    ks = [k for k in (1, 2, 3) if nt * N ** k <= cap]
    if not ks:
        return 1
    w = np.array([0.5, 0.35, 0.15][:len(ks)])
    return int(rng.choice(ks, p=w / w.sum()))


# ------------------------------------------------------------------ families
def uniform_case(kind):
    def fn(ctx, k_):
        rng = ctx.rng()
        nmax = ctx.scale({"line": 16, "tri": 48, "quad": 36, "tet": 24, "hex": 12}[kind],
                         {"line": 40, "tri": 120, "quad": 80, "tet": 60, "hex": 27}[kind])
        m, desc = base_mesh(ctx, rng, kind, nmax)
        if k_ % 10 in (3, 7):
            # a point that no cell uses (every _uniform appends its new points after ALL existing ones)
            desc["unused_vertex"] = "trailing" if k_ % 10 == 7 else "interior"
            m = with_unused_vertex(rng, m, desc["unused_vertex"])
        m, tdesc = add_tags(ctx, rng, m)
        cap = ctx.scale({"line": 200, "tri": 1600, "quad": 1200, "tet": 1600, "hex": 800}[kind],
                        {"line": 400, "tri": 4000, "quad": 3000, "tet": 4000, "hex": 1800}[kind])
        k = pick_k(rng, kind, m.t.shape[1], cap)
        tag = dict(desc, tags=tdesc)
        child, recs = refine(m, k)
        J = judge(ctx, m, child, k, recs, kind, tag)
        ctx.sample({"mesh": cls_name(m), "desc": tag, "k": k, "cells": [int(m.t.shape[1]), int(child.t.shape[1])],
                    "exact_mode": None if J is None else bool(J.exact),
                    "child_subdomain_sizes": None if child.subdomains is None else
                    {n: int(len(v)) for n, v in child.subdomains.items()},
                    "child_boundaries": None if child.boundaries is None else
                    {n: int(len(v)) for n, v in child.boundaries.items()}}, per_family=1)
        if k >= 2 and k_ % 2 == 0:
            # the same refinement step by step: every intermediate call is judged as well
            cur = m
            for step in range(k):
                nxt, recs = refine(cur, 1)
                judge(ctx, cur, nxt, 1, recs, kind, tag, history="stepwise")
                cur = nxt
            ctx.reached("stepwise")
    return fn


def second_order_case(ctx, k_):
    rng = ctx.rng()
    kind = ("tri", "quad", "tet", "hex")[k_ % 4]
    nmax = ctx.scale({"tri": 24, "quad": 16, "tet": 12, "hex": 6}[kind],
                     {"tri": 60, "quad": 40, "tet": 30, "hex": 12}[kind])
    m1, desc = base_mesh(ctx, rng, kind, nmax, allow_inexact=bool(k_ % 3 == 0))
    m2 = G.mesh_class(kind, 2).from_mesh(m1)
    m2, tdesc = add_tags(ctx, rng, m2)
    cap = ctx.scale(800, 2000)
    k = pick_k(rng, kind, m2.t.shape[1], cap)
    tag = dict(desc, order=2, tags=tdesc)
    child, recs = refine(m2, k)
    judge(ctx, m2, child, k, recs, kind, tag)
    ctx.sample({"mesh": cls_name(m2), "desc": tag, "k": k,
                "child_boundaries": child.boundaries is not None, "warnings": [m for _, m in recs]}, per_family=1)


OPS = ("restrict", "mirrored", "translated", "scaled", "adaptive", "retag", "smoothed", "remove",
       "oriented", "to-simplex", "join-add", "join-matmul", "dedup", "from-mesh", "morphed", "io-dict", "io-npz",
       "io-file", "defaults")


def history_case(ctx, k_):
    """refine -> operation -> refine (-> operation -> refine); every refined() call is judged against its
    own input, so a defect of the interleaved operation itself is not attributed to C12."""
    rng = ctx.rng()
    kind = ("line", "tri", "quad", "tet", "hex")[k_ % 5]
    nmax = ctx.scale({"line": 8, "tri": 12, "quad": 8, "tet": 6, "hex": 3}[kind],
                     {"line": 12, "tri": 24, "quad": 16, "tet": 10, "hex": 4}[kind])
    order2 = kind != "line" and rng.random() < 0.25
    m, desc = base_mesh(ctx, rng, kind, nmax, allow_inexact=False)
    if order2:
        m = G.mesh_class(kind, 2).from_mesh(m)
    m, tdesc = add_tags(ctx, rng, m)
    nsteps = int(rng.integers(2, 4))
    shape = []
    cap = ctx.scale(1000, 3000)
    for step in range(nsteps):
        if m.t.shape[1] * NCHILD[kind] > cap:
            break
        k = 1 if m.t.shape[1] * NCHILD[kind] ** 2 > cap or rng.random() < 0.7 else 2
        child, recs = refine(m, k)
        hist = "+".join(shape) if shape else "first"
        judge(ctx, m, child, k, recs, kind, dict(desc, tags=tdesc, order=2 if order2 else 1), history=hist)
        m = child
        if step == nsteps - 1:
            break
        # the first operation is dealt out (every operation on every kind in turn), later ones are drawn
        op = OPS[(k_ // 5) % len(OPS)] if step == 0 else str(rng.choice(OPS))
        try:
            m2 = apply_op(ctx, rng, m, op, kind, order2)
            if m2 is not None and not parent_admissible(ctx, m2):
                m2 = None
        except Skip:
            raise
        except Exception as e:  # noqa: BLE001  (the operation is not the subject of this property)
            ctx.drop(f"history-op-failed:{op}:{type(e).__name__}")
            break
        if m2 is None:
            continue
        m = m2
        kind = G.kind_of(m)                                   # to-simplex changes it
        order2 = cls_name(m) in SECOND_ORDER                   # from-mesh changes it
        if m.subdomains is None and m.boundaries is None and op not in ("retag",):
            m, tdesc = add_tags(ctx, rng, m)                   # joins and conversions build a bare mesh
        shape.append(op)
        ctx.reached("history:" + op)
    ctx.sample({"mesh": cls_name(m), "desc": desc, "history": shape, "final_cells": int(m.t.shape[1])}, per_family=1)


def orient_signs(m, kind):
    """Signs of det DF (simplices: one per cell; tensor cells: at every reference corner), float arithmetic."""
    P = np.asarray(m.p)
    t = np.asarray(m.t)[:G.NVERT[kind]]
    V = P[:, t]
    if kind in ("line", "tri", "tet"):
        cols = [V[:, i + 1] - V[:, 0] for i in range(V.shape[0])]
        return np.sign(_det(cols))
    return np.stack([np.sign(_det([V[:, hi] - V[:, lo] for hi, lo in row])) for row in CORNER_AXES[kind]])


def parent_admissible(ctx, m):
    """The result of an interleaved operation is a parent only if it is a mesh: the points its cells use are
    pairwise distinct (PITFALL: joins may legitimately leave coincident points)."""
    kind = G.kind_of(m)
    P, t = vertex_part(m, kind)
    used = np.unique(t)
    if not np.isfinite(np.asarray(m.doflocs)).all():
        # smoothed() of a mesh with points no cell uses: 0/0 at a point without neighbours (no defect, cf. C18)
        ctx.drop("operation-result-has-non-finite-unused-points")
        return False
    if cls_name(m) in SECOND_ORDER and np.unique(np.asarray(m.doflocs), axis=1).shape[1] != np.asarray(m.doflocs).shape[1]:
        # from_mesh of a mesh with points no cell uses (one of the meshes `@` returns): the second-order mesh carries
        # placeholder nodes for them, all at the origin - inherited by every child; not a parent for the node clauses
        ctx.drop("second-order-parent-with-coincident-unused-nodes")
        return False
    if np.unique(P[:, used], axis=1).shape[1] != used.size:
        ctx.drop("operation-result-has-coincident-vertices")
        return False
    return True


def with_unused_vertex(rng, m, where):
    """First-order mesh with one more point that no cell uses, outside the bounding box (so that no new vertex
    can coincide with it): "trailing" index or "interior" index (cells renumbered)."""
    p = np.asarray(m.p, dtype=float)
    t = np.asarray(m.t).astype(np.int64)
    d, nv = p.shape
    lo, hi = p.min(axis=1), p.max(axis=1)
    ext = float((hi - lo).max())
    x = hi + ext * np.array([1.0, 0.5, 0.25])[:d]
    if where == "trailing":
        p2, t2 = np.hstack((p, x[:, None])), t
    else:
        j = int(rng.integers(0, nv))
        p2 = np.hstack((p[:, :j], x[:, None], p[:, j:]))
        t2 = t + (t >= j)
    kw = {"sort_t": False} if (cls_name(m) == "MeshTri1" and not m.sort_t) else {}
    return type(m)(p2, t2, **kw)


def apply_op(ctx, rng, m, op, kind, order2):
    import skfem
    nt = m.t.shape[1]
    D = m.p.shape[0]
    if op == "oriented":
        if order2 or kind not in ("line", "tri", "tet"):
            return None
        return m.oriented()
    if op == "to-simplex":
        if order2 or kind not in ("quad", "hex"):
            return None
        out = (m.to_meshtri(style="x") if rng.random() < 0.6 else m.to_meshtri()) if kind == "quad" else m.to_meshtet()
        # PITFALL: to_meshtet splits every hexahedron by one template in ITS local vertex order; neighbours numbered
        # differently get crossing face diagonals, i.e. a non-conforming tetrahedral mesh (more one-sided facets
        # than the surface has).  Such a result is no parent for this property.
        if len(out.boundary_facets()) != (1 if kind == "quad" else 2) * len(m.boundary_facets()):
            ctx.drop("to-simplex-result-not-conforming")
            return None
        return out
    if op in ("join-add", "join-matmul"):
        if order2 or nt > 150:
            return None
        # a translated copy beyond a gap of one diameter (touching copies with non-matching faces would be a
        # non-conforming parent)
        ext = float(np.ptp(np.asarray(m.p)[0]))
        shift = [0.0] * D
        shift[0] = 2.0 * ext if ext > 0 else 1.0
        other = m.translated(tuple(shift))
        if op == "join-add":
            return m + other
        a, b = m @ other
        return b if rng.random() < 0.5 else a                  # each carries the other's points, unused
    if op == "dedup":
        if order2 or nt < 2:
            return None
        # crack the mesh (cells of a random half get their own copies of their vertices), tag it, merge again
        p = np.asarray(m.p)
        t = np.asarray(m.t).astype(np.int64)
        half = rng.choice(nt, size=nt // 2, replace=False)
        vs = np.unique(t[:, half])
        remap = np.arange(p.shape[1])
        remap[vs] = p.shape[1] + np.arange(vs.size)
        t2 = t.copy()
        t2[:, half] = remap[t[:, half]]
        kw = {"sort_t": False} if (cls_name(m) == "MeshTri1" and not m.sort_t) else {}
        cracked, _ = add_tags(ctx, rng, type(m)(np.hstack((p, p[:, vs])), t2, **kw))
        return cracked.remove_duplicate_nodes()
    if op == "from-mesh":
        if kind == "line":
            return None
        return G.mesh_class(kind, 1 if order2 else 2).from_mesh(m)
    if op == "morphed":
        # an affine dyadic shear / stretch keeps straight sides, planar faces and exact midpoints
        if D == 1:
            return m.morphed(lambda p: 2.0 * p[0] + 1.0)
        return m.morphed(lambda p: p[0] + 0.5 * p[1], lambda p: p[1] - 0.25 * p[0] if D == 2 else p[1] + 0.25 * p[2])
    if op == "io-dict":
        return type(m).from_dict(m.to_dict())
    if op in ("io-npz", "io-file"):
        import tempfile
        with tempfile.TemporaryDirectory() as tmp:
            if op == "io-npz":
                m.save_npz(os.path.join(tmp, "m.npz"))
                return type(m).load_npz(os.path.join(tmp, "m.npz"))
            f = os.path.join(tmp, "m.msh" if rng.random() < 0.5 else "m.vtk")
            import contextlib
            import io
            try:
                with contextlib.redirect_stdout(io.StringIO()), contextlib.redirect_stderr(io.StringIO()):
                    m.save(f)                  # meshio prints its warnings and errors
                    out = skfem.Mesh.load(f)
            except SystemExit as e:            # meshio's reader front end exits instead of raising
                raise RuntimeError("meshio: %r" % (e,))
        return out if type(out) is type(m) else None
    if op == "defaults":
        return m.with_defaults()
    if op == "restrict":
        if nt < 3:
            return None
        idx = rng.choice(nt, size=int(rng.integers(max(1, nt // 3), nt)), replace=False)
        if order2:
            return None                                     # restrict() re-indexes doflocs by t only
        return m.restrict(np.sort(idx))
    if op == "remove":
        if nt < 3 or order2:
            return None
        idx = rng.choice(nt, size=max(1, nt // 5), replace=False)
        return m.remove_elements(idx)
    if op == "mirrored":
        n = [0.0] * D
        n[int(rng.integers(D))] = 1.0
        pt = tuple(float(x) for x in rng.integers(-2, 3, size=D) / 2)
        return m.mirrored(tuple(n), pt)
    if op == "translated":
        return m.translated(tuple(float(x) for x in rng.integers(-8, 9, size=D) / 4))
    if op == "scaled":
        return m.scaled([float(2.0 ** int(rng.integers(-2, 3))) for _ in range(D)])
    if op == "adaptive":
        if order2 or kind in ("quad", "hex"):
            return None
        idx = rng.choice(nt, size=max(1, nt // 4), replace=False)
        return m.refined(np.sort(idx))
    if op == "retag":
        m2, _ = add_tags(ctx, rng, m)
        return m2
    if op == "smoothed":
        if order2 or kind in ("line", "hex"):                 # smoothed hexahedra have non-planar faces
            return None
        m2 = m.smoothed()
        # PITFALL: Laplacian smoothing may fold cells over each other; such a mesh is not a mesh any more (a child
        # then lies in two parents) and is outside the quantifier: keep the result only if no Jacobian changed sign
        if not np.array_equal(orient_signs(m, kind), orient_signs(m2, kind)):
            ctx.drop("smoothing-folded-the-mesh")
            return None
        return m2
    raise ValueError(op)


def _directed():
    import skfem
    cases = []

    def add(name, kind, make, k=1):
        cases.append((name, kind, make, k))
    half = {"half": lambda x: x[0] < 0.5}
    add("A6:line-4-cells-first-cell", "line",
        lambda: skfem.MeshLine(np.linspace(0, 1, 5)).with_subdomains({"a": np.array([0])}))
    add("A7:tet2-half", "tet", lambda: skfem.MeshTet2().refined(1).with_subdomains(half))
    # PITFALL: MeshLine1.with_defaults() raises AttributeError ('params'); not a refinement defect, so the
    # line cases name their end points explicitly
    ends = {"left": lambda x: x[0] == 0, "right": lambda x: x[0] == 1}
    add("line-default", "line", lambda: skfem.MeshLine1().refined(2).with_boundaries(ends).with_subdomains(half), 3)
    add("tri-default", "tri", lambda: skfem.MeshTri1().refined(1).with_defaults().with_subdomains(half), 2)
    add("tri-symmetric", "tri", lambda: skfem.MeshTri1.init_symmetric().with_defaults().with_subdomains(half), 2)
    add("tri-sqsymmetric", "tri", lambda: skfem.MeshTri1.init_sqsymmetric().with_defaults().with_subdomains(half), 2)
    add("tri-lshaped", "tri", lambda: skfem.MeshTri1.init_lshaped().with_defaults()
        .with_subdomains({"neg": lambda x: x[0] < 0}), 2)
    add("tri-circle", "tri", lambda: skfem.MeshTri1.init_circle(1).with_subdomains({"neg": lambda x: x[0] < 0}))
    add("tri-tensor", "tri", lambda: skfem.MeshTri1.init_tensor(np.array([0, .25, 1.]), np.array([0, .5, .75, 1.]))
        .with_defaults().with_subdomains(half), 2)
    add("quad-default", "quad", lambda: skfem.MeshQuad1().refined(1).with_defaults().with_subdomains(half), 2)
    add("quad-tensor", "quad", lambda: skfem.MeshQuad1.init_tensor(np.array([0, .25, 1.]), np.array([0, .5, .75, 1.]))
        .with_defaults().with_subdomains(half), 2)
    add("tet-default", "tet", lambda: skfem.MeshTet1().with_defaults().with_subdomains(half), 2)
    add("tet-tensor", "tet", lambda: skfem.MeshTet1.init_tensor(np.array([0, .25, 1.]), np.array([0, .5, 1.]),
                                                                np.array([0, 1.])).with_defaults()
        .with_subdomains(half))
    add("tet-ball", "tet", lambda: skfem.MeshTet1.init_ball(1).with_subdomains({"neg": lambda x: x[0] < 0}))
    add("hex-default", "hex", lambda: skfem.MeshHex1().refined(1).with_defaults().with_subdomains(half))
    add("hex-tensor", "hex", lambda: skfem.MeshHex1.init_tensor(np.array([0, .25, 1.]), np.array([0, .5, 1.]),
                                                                np.array([0, 1.])).with_defaults()
        .with_subdomains(half))
    add("tri2-default", "tri", lambda: skfem.MeshTri2().with_defaults().with_subdomains(half), 2)
    add("quad2-default", "quad", lambda: skfem.MeshQuad2().refined(1).with_defaults().with_subdomains(half))
    add("tet2-default", "tet", lambda: skfem.MeshTet2().with_defaults().with_subdomains(half))
    add("hex2-default", "hex", lambda: skfem.MeshHex2().refined(1).with_defaults().with_subdomains(half))
    add("quad-to-tri", "tri", lambda: skfem.MeshQuad1().refined(1).with_defaults().with_subdomains(half).to_meshtri())
    third = {"third": lambda x: x[0] + x[-1] < 0.7}
    add("refdom-line", "line", lambda: skfem.MeshLine1.init_refdom().refined(1).with_subdomains(third), 2)
    add("refdom-tri", "tri", lambda: skfem.MeshTri1.init_refdom().refined(1).with_subdomains(third), 2)
    add("refdom-quad", "quad", lambda: skfem.MeshQuad1.init_refdom().refined(1).with_subdomains(third), 2)
    add("refdom-tet", "tet", lambda: skfem.MeshTet1.init_refdom().refined(1).with_subdomains(third), 2)
    add("refdom-hex", "hex", lambda: skfem.MeshHex1.init_refdom().refined(1).with_subdomains(third))
    add("hex-to-tet", "tet", lambda: skfem.MeshHex1().refined(1).to_meshtet().with_subdomains(third))
    add("wedge-to-tet", "tet", lambda: skfem.MeshWedge1().to_meshtet().with_subdomains(third), 2)
    add("tet2-from-tensor", "tet", lambda: skfem.MeshTet2.from_mesh(skfem.MeshTet1.init_tensor(
        np.array([0, .25, 1.]), np.array([0, .5, 1.]), np.array([0, .75, 1.]))).with_subdomains(third))
    # tag spellings: Python sequences (empty too), small integer dtypes on a mesh with more cells than they count
    add("line-list-tags", "line", lambda: skfem.MeshLine(np.linspace(0, 1, 9)).with_subdomains(
        {"none": [], "some": [5, 0, 2], "tup": (1, 7)}).with_boundaries({"ends": [0, 8], "mid": (4,)}), 2)
    add("line-uint8-tags-200-cells", "line", lambda: skfem.MeshLine(np.linspace(0, 1, 201)).with_subdomains(
        {"u8": np.array([130, 199, 3], dtype=np.uint8), "i16": np.array([130, 199, 3], dtype=np.int16)}), 2)
    add("quad-list-tags", "quad", lambda: skfem.MeshQuad1().refined(1).with_subdomains(
        {"none": [], "some": [3, 0], "tup": (1,)}).with_boundaries({"none": [], "some": [0, 5, 3], "tup": (1, 2)}), 2)
    add("tri-uint8-tags-288-cells", "tri", lambda: skfem.MeshTri1.init_tensor(np.linspace(0, 1, 13), np.linspace(0, 1, 13))
        .with_subdomains({"u8": np.array([255, 130, 7], dtype=np.uint8)})
        .with_boundaries({"u8": np.array([255, 200, 0], dtype=np.uint8)}), 1)
    # conversions that carry tags to the simplicial mesh (to_meshtri) or build a bare one (to_meshtet, tagged after)
    add("quad-to-tri-x-tagged", "tri", lambda: skfem.MeshQuad1.init_tensor(np.array([0, .25, 1.]), np.array([0, .5, .75, 1.]))
        .with_defaults().with_boundaries({"inner": np.array([1, 4, 7])}).with_subdomains({**half, "two": np.array([4, 1])})
        .to_meshtri(style="x"), 2)
    add("quad-to-tri-tagged", "tri", lambda: skfem.MeshQuad1().refined(2).with_defaults()
        .with_subdomains({**half, "few": np.array([9, 2, 5])}).to_meshtri(), 2)
    add("hex-to-tet-tagged", "tet", lambda: skfem.MeshHex1.init_tensor(np.array([0, .25, 1.]), np.array([0, .5, 1.]),
                                                                       np.array([0, .75, 1.])).to_meshtet()
        .with_subdomains({**third, "few": np.array([40, 3, 17])}).with_boundaries({"bottom": lambda x: x[2] == 0}))
    add("line-k0", "line", lambda: skfem.MeshLine1().refined(1).with_boundaries(ends).with_subdomains(half), 0)
    return cases


def directed_case(ctx, k_):
    """Library constructors and the hand-reproduced witnesses."""
    name, kind, make, k = _directed()[k_]
    m = make()
    child, recs = refine(m, k)
    if k == 0:
        ctx.check("cell-count", child.t.shape[1] == m.t.shape[1] and np.array_equal(child.p, m.p)
                  and child.subdomains is not None and child.boundaries is not None, mech="refined(0)-changes-mesh",
                  case=name)
        return
    judge(ctx, m, child, k, recs, kind, {"directed": name})
    ctx.sample({"directed": name, "mesh": cls_name(m), "k": k, "cells": [int(m.t.shape[1]), int(child.t.shape[1])]},
               per_family=2)


def N_DIRECTED(ctx):
    return len(_directed())


def docs_case(ctx, k_):
    """Meshes shipped with the documentation (tags from the files), refined once."""
    import skfem
    from ..engine import REPO
    root = REPO if os.path.isdir(os.path.join(REPO, G.DOCS_MESHES)) else "/repo"   # data files, not judged code
    files = sorted(glob.glob(os.path.join(root, G.DOCS_MESHES, "*.msh")) +
                   glob.glob(os.path.join(root, G.DOCS_MESHES, "*.vtk")))
    if k_ >= len(files):
        return
    f = files[k_]
    try:
        m = skfem.Mesh.load(f)
    except Exception:  # noqa: BLE001
        ctx.drop("docs-mesh-unreadable")
        return
    try:
        kind = G.kind_of(m)
    except ValueError:
        ctx.drop("docs-mesh-unknown-kind")
        return
    if kind == "wedge" or m.t.shape[1] > ctx.scale(300, 1500):
        ctx.drop("docs-mesh-too-large")
        return
    if own_validity(ctx, m, kind, f):
        ctx.drop("docs-mesh-not-valid:" + os.path.basename(f))
        return
    if cls_name(m) in SECOND_ORDER:
        err, _ = second_order_nodes(m, kind)
        if err > 1e-12:
            ctx.drop("docs-mesh-curved")                     # outside the quantifier (straight-sided)
            return
    child, recs = refine(m, 1)
    judge(ctx, m, child, 1, recs, kind, {"file": os.path.basename(f)}, history="docs")
    ctx.reached("docs-meshes-refined")


FAMILIES = [Family("directed", directed_case, N_DIRECTED, N_DIRECTED, budget={"quick": 60, "thorough": 120})]
FAMILIES += [Family("uniform-" + kd, uniform_case(kd), quick=q, thorough=th, budget={"quick": 60, "thorough": 900})
             for kd, q, th in (("line", 200, 6000), ("tri", 320, 9600), ("quad", 240, 7200), ("tet", 160, 4800),
                               ("hex", 100, 3000))]
FAMILIES += [Family("second-order", second_order_case, 200, 6000, budget={"quick": 60, "thorough": 900}),
             Family("histories", history_case, 240, 7200, budget={"quick": 60, "thorough": 900}),
             Family("docs-meshes", docs_case, 24, 24, budget={"quick": 60, "thorough": 240})]

SUITE = True   # thorough tier also runs the repository suite with this oracle attached (rv/suite_monitors.py)
