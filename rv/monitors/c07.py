"""C07 DOF lookup returns exactly the DOFs that control the selected entities.

Oracles: (1) all spellings of one selection agree; (2) reference closure from the dictionary topology and
the decoded element_dofs table (entity -> numbers); (3) name filters against the *true* name of every global
DOF, determined independently of any ordering convention of `dofnames` (which component of the delivered
basis function is non-zero, which entity kind its row stands for); (4) trace independence observed on
executions: a random vector supported outside the returned set has zero trace on the selected facets, and
for nodal elements every returned DOF changes the trace; (5) argument-free query and complement.
"""
from __future__ import annotations

import numpy as np

from ..engine import Family, Skip
from ..gen import elements as EL
from ..gen import meshes as G
from ..refmodel import topology as T
from ..refmodel import geometry as GEO
from .c04 import decode_rows
from . import c03

PID = "C07"
RULE = ("random meshes (all cell kinds, renumbered) x registry elements incl. vector/DG/composite wrappers (3-D records "
        "with edge DOFs and composites mixing edge- and facet-based components included) x random facet / cell / vertex "
        "subsets (boundary and interior) x spellings (index array int32/int64/unsorted, midpoint predicate, tag name, "
        "list/tuple/set of these) x name filters; distinct key = (element record, selector kind, filter kind); "
        "non-trivial iff the returned set is neither empty nor everything")
TRACK = ["skfem.assembly.basis.abstract_basis:AbstractBasis.get_dofs", "skfem.assembly.dofs:Dofs.get_facet_dofs",
         "skfem.assembly.dofs:Dofs.get_element_dofs", "skfem.assembly.dofs:Dofs.get_vertex_dofs",
         "skfem.assembly.dofs:Dofs._dofnames_to_rows", "skfem.assembly.dofs:Dofs._by_name",
         "skfem.assembly.dofs:DofsView.flatten", "skfem.assembly.dofs:DofsView.keep", "skfem.assembly.dofs:DofsView.drop",
         "skfem.mesh.mesh:Mesh._expand_facets", "skfem.mesh.mesh:Mesh.normalize_facets",
         "skfem.mesh.mesh:Mesh.normalize_elements", "skfem.mesh.mesh:Mesh.normalize_nodes"]
REQUIRED_MONITORS = ["facet-closure", "element-closure", "vertex-closure", "spellings-agree", "name-filter",
                     "by-kind-dicts", "skip-keep-drop-consistent", "boundary-default", "complement",
                     "trace-independent-of-complement", "returned-dofs-control-trace"]
REQUIRED_REACH = ["3d-edge-dofs", "composite-edge-and-facet", "interior-facets-selected", "spelling:predicate",
                  "spelling:name", "spelling:collection", "filter:all-name", "filter:skip", "empty-selections",
                  "python-int-collections", "predicate-tags-and-oriented-selector", "large-coordinate-offset",
                  "filter:empty-name-list", "filter:names-in-tuple", "filter:names-in-set", "filter:names-in-dict-keys",
                  "query-sequence-on-one-basis", "by-kind-dicts-after-filter"]


def entity_maps(mesh, elem, kind, dim):
    """entity -> set(global dof), per-DOF (entity kind, true row) decoded from element_dofs via the dictionary topology."""
    import skfem
    dofs = skfem.assembly.Dofs(mesh, elem)
    ed = np.asarray(dofs.element_dofs)
    topo = T.from_mesh(mesh)
    layout = decode_rows(elem, topo, kind, dim)
    if layout is None:
        raise Skip("1d-facet-dofs")
    t = np.asarray(mesh.t)
    ent2dofs = {}
    dofinfo = {}
    for c in range(topo.nt):
        for r, (ek, s, j) in enumerate(layout):
            if ek == "v":
                ent = ("v", int(t[s, c]))
            elif ek == "e":
                ent = ("e", topo.cell_edges[c][s])
            elif ek == "f":
                ent = ("f", topo.cell_facets[c][s])
            else:
                ent = ("i", c)
            g = int(ed[r, c])
            ent2dofs.setdefault(ent, set()).add(g)
            dofinfo.setdefault(g, (ek, r, c))
    return dofs, ed, topo, layout, ent2dofs, dofinfo


def comp_true_name(e, ek, j, dim):
    """Name of the j-th DOF on an entity of kind ek for a non-composite element; None when the element's own
    `dofnames` list is ambiguous about edge-vs-facet order (both present with different names)."""
    names = list(e.dofnames)
    nn, ne, nf, ni = e.nodal_dofs, (e.edge_dofs if dim == 3 else 0), (e.facet_dofs if dim >= 2 else 0), e.interior_dofs
    if len(names) < nn + ne + nf + ni:
        return None
    if ek == "v":
        return names[j]
    if ek == "i":
        return names[nn + ne + nf + j]
    if ne and nf:
        a = names[nn:nn + ne + nf]
        if len(set(a)) != 1:
            return None
        return a[0]
    return names[nn + j]


def true_names(mesh, elem, kind, dim, layout):
    """True dofname per local row, by observing which component of the delivered basis function is non-zero."""
    mapping = mesh.mapping()
    X = GEO.random_ref_points(np.random.default_rng(0), kind, 3)
    X = np.hstack([X, np.array(GEO.REF_CENTROID[kind])[:, None]])
    names = []
    from skfem import ElementComposite, ElementVector, ElementDG
    if isinstance(elem, ElementComposite):
        counts = {}
        for r, (ek, s, j) in enumerate(layout):
            fs = elem.gbasis(mapping, X, r, tind=np.array([0]))
            nz = [i for i, f in enumerate(fs) if np.abs(np.array(f)).max() > 0
                  or any(getattr(f, a) is not None and np.abs(getattr(f, a)).max() > 0 for a in ("grad", "div", "curl"))]
            if len(nz) != 1:
                names.append(None)
                continue
            n = nz[0]
            key = (n, ek, s)
            jj = counts.get(key, 0)
            counts[key] = jj + 1
            sub = elem.elems[n]
            if isinstance(sub, ElementVector):
                base = comp_true_name(sub.elem, ek, jj // sub.dim, dim)
                nm = None if base is None else f"{base}^{jj % sub.dim + 1}"
            else:
                nm = comp_true_name(sub, ek, jj, dim)
            names.append(None if nm is None else f"{nm}^{n + 1}")
        return names
    if isinstance(elem, ElementVector):
        for r, (ek, s, j) in enumerate(layout):
            base = comp_true_name(elem.elem, ek, j // elem.dim, dim)
            names.append(None if base is None else f"{base}^{j % elem.dim + 1}")
        return names
    if isinstance(elem, ElementDG):
        # all DOFs are interior; the wrapper lists the wrapped element's names entity by entity
        inner = elem.elem
        topo_dummy = None
        lay = decode_rows(inner, topo_dummy, kind, dim)
        for (ek, s, j) in lay:
            names.append(comp_true_name(inner, ek, j, dim))
        return names
    for r, (ek, s, j) in enumerate(layout):
        names.append(comp_true_name(elem, ek, j, dim))
    return names


def midpoint_predicate(mids, h):
    """Predicate selecting exactly the entities whose midpoints are the given columns."""
    mids = np.asarray(mids)

    def test(x):
        x = np.asarray(x)
        if mids.shape[1] == 0:
            return np.zeros(x.shape[1], dtype=bool)
        d = np.abs(x[:, :, None] - mids[:, None, :]).max(axis=0)
        return d.min(axis=1) < 1e-9 * h
    return test


def one_case(ctx, k, kind):
    import skfem
    rng = ctx.rng()
    recs = [r for r in EL.all_for_kind(kind) if r.mesh_req == "any" or r.family == "global"]
    rec = recs[k % len(recs)]
    rnd = k // len(recs)
    if rec.mesh_req != "any":
        from .c09 import wellshaped
        mc = wellshaped(rng, kind, rec.mesh_req == "axis-parallel")
    else:
        mc = G.first_order(rng, kind, renum=True)
        tries = 0
        while mc.mesh.t.shape[1] > ctx.scale(40, 120) and tries < 6:
            tries += 1
            mc = G.first_order(ctx.rng("again", tries), kind)
    if mc.mesh.t.shape[1] > 200:
        raise Skip("mesh-too-large")
    if rec.mesh_req == "any" and rng.random() < 0.25:
        # map-like coordinates: a 10 m grid half a million metres from the origin (selection by coordinates must
        # still single out one vertex / facet / cell)
        m_ = mc.mesh
        off = np.array([500000.0, 4649776.0, 1024.0][:m_.p.shape[0]])[:, None]
        mc = G.MeshCase(type(m_)(np.asarray(m_.p) * 10.0 + off, np.asarray(m_.t)), mc.kind, mc.order,
                        dict(mc.desc, coordinates="x10+5e5"), affine_cells=mc.affine_cells, straight=mc.straight,
                        planar_faces=mc.planar_faces)
        ctx.reached("large-coordinate-offset")
    mesh0 = mc.mesh
    dim = mc.dim
    nf = mesh0.facets.shape[1]
    nt = mesh0.t.shape[1]
    nv = mesh0.p.shape[1]
    h = float(np.abs(mesh0.p).max()) + 1.0
    f2t = np.asarray(mesh0.f2t)
    # selections
    F = np.sort(rng.choice(nf, size=max(1, int(nf * rng.uniform(0.1, 0.4))), replace=False))
    if rnd % 2 == 0:
        F = F[f2t[1, F] == -1] if (f2t[1, F] == -1).any() else F
    if (f2t[1, F] >= 0).any():
        ctx.reached("interior-facets-selected")
    F2 = np.setdiff1d(np.sort(rng.choice(nf, size=max(1, nf // 5), replace=False)), F)
    E = np.sort(rng.choice(nt, size=max(1, nt // 3), replace=False))
    V = np.sort(rng.choice(nv, size=max(1, nv // 4), replace=False))
    mesh = mesh0.with_boundaries({"selF": F.astype(np.int32), "selF2": F2.astype(np.int32)}) \
                .with_subdomains({"selE": E.astype(np.int32)})
    elem = rec.make()
    basis = skfem.CellBasis(mesh, elem)
    dofs, ed, topo, layout, ent2dofs, dofinfo = entity_maps(mesh, elem, kind, dim)
    N = int(basis.N)
    facets = np.asarray(mesh.facets)
    fkeys = [tuple(sorted({int(v) for v in facets[:, f]})) for f in range(nf)]
    if elem.edge_dofs and dim == 3:
        ctx.reached("3d-edge-dofs")
        if rec.name.startswith("Composite(") and elem.facet_dofs:
            ctx.reached("composite-edge-and-facet")
    tag = dict(elem=rec.name, mesh=type(mesh).__name__, desc=mc.desc)
    base = rec.name.split("(")[0]

    def closure_facets(Fsel):
        out = set()
        for f in Fsel:
            key = fkeys[int(f)]
            out |= ent2dofs.get(("f", key), set())
            for v in key:
                out |= ent2dofs.get(("v", v), set())
            if dim == 3:
                for a in key:
                    for b in key:
                        if a < b and (a, b) in topo.edge_cells:
                            out |= ent2dofs.get(("e", (a, b)), set())
        return out

    # ---- (2) closures
    got = basis.get_dofs(F.astype(np.int32))
    want = closure_facets(F)
    ctx.check("facet-closure", set(got.flatten().tolist()) == want, mech=f"facet-closure:{base}",
              missing=lambda: sorted(want - set(got.flatten().tolist()))[:6],
              extra=lambda: sorted(set(got.flatten().tolist()) - want)[:6], **tag)
    wantE = {int(g) for g in ed[:, E].ravel()}
    gotE = basis.get_dofs(elements=E.astype(np.int64))
    ctx.check("element-closure", set(gotE.flatten().tolist()) == wantE, mech=f"element-closure:{base}", **tag)
    wantV = set()
    for v in V:
        wantV |= ent2dofs.get(("v", int(v)), set())
    gotV = basis.get_dofs(nodes=V.astype(np.int32))
    ctx.check("vertex-closure", set(gotV.flatten().tolist()) == wantV, mech=f"vertex-closure:{base}", **tag)
    if 0 < len(want) < N:
        ctx.nontrivial(rec.name, "facets", "closure")
    if 0 < len(wantE) < N:
        ctx.nontrivial(rec.name, "elements", "closure")

    # ---- (5) default and complement
    bnd = [f for f in range(nf) if f2t[1, f] == -1]
    wantB = closure_facets(bnd)
    gotB = basis.get_dofs()
    ctx.check("boundary-default", set(gotB.flatten().tolist()) == wantB, mech=f"boundary-default:{base}", **tag)
    comp = basis.complement_dofs(got)
    ctx.check("complement", set(comp.tolist()) == set(range(N)) - want and len(set(comp.tolist())) == len(comp),
              mech="complement", **tag)
    comp2 = basis.complement_dofs(got.flatten(), gotV.flatten())
    ctx.check("complement", set(comp2.tolist()) == set(range(N)) - want - wantV, mech="complement-two", **tag)

    # complement on bases restricted to a part of the mesh: the universe is still 0..N-1
    import warnings
    for bname, bb in (("cell-subset", skfem.CellBasis(mesh, rec.make(), elements=E.astype(np.int32))),
                      ("facet-basis", skfem.FacetBasis(mesh, rec.make(), facets=F.astype(np.int32))
                       if (rec.facet_basis and kind not in ("wedge",)) else None)):
        if bb is None:
            continue
        cc = bb.complement_dofs(got)
        ctx.check("complement", set(cc.tolist()) == set(range(N)) - want, mech=f"complement-on-restricted-basis:{bname}", **tag)
    # union of two views (the deprecated | / + operators)
    got2 = basis.get_dofs(F2.astype(np.int32)) if F2.size else None
    if got2 is not None:
        with warnings.catch_warnings():
            warnings.simplefilter("ignore")
            for opname, un in (("or", got | got2), ("add", got + got2)):
                ctx.check("spellings-agree", set(un.flatten().tolist()) == closure_facets(np.concatenate([F, F2])),
                          mech=f"view-union:{opname}", **tag)
    # a tag name defined twice designates the latest definition
    if F2.size:
        m2 = mesh.with_boundaries({"selF": F2.astype(np.int32)})
        g = skfem.CellBasis(m2, rec.make()).get_dofs("selF")
        ctx.check("spellings-agree", set(g.flatten().tolist()) == closure_facets(F2), mech="redefined-tag-name", **tag)
        m3 = mesh.with_subdomains({"selE": E[:1].astype(np.int32)})
        g = skfem.CellBasis(m3, rec.make()).get_dofs(elements="selE")
        ctx.check("spellings-agree", set(g.flatten().tolist()) == {int(x) for x in ed[:, E[:1]].ravel()},
                  mech="redefined-subdomain-name", **tag)

    # ---- (1) spellings
    mids = np.asarray(mesh.p)[:, facets].mean(axis=1)
    pred = midpoint_predicate(mids[:, F], h)
    sp = {"int64-unsorted": F[rng.permutation(F.size)].astype(np.int64),
          "predicate": pred, "name": "selF", "list-of-arrays": [F[:F.size // 2].astype(np.int32), F[F.size // 2:].astype(np.int32)],
          "tuple-name": ("selF",), "set-name": {"selF"}}
    for nm, val in sp.items():
        if nm in ("list-of-arrays",) and (F.size < 2):
            continue
        g = basis.get_dofs(val)
        ctx.check("spellings-agree", set(g.flatten().tolist()) == want, mech=f"spelling:facets:{nm}", spelling=nm, **tag)
        ctx.reached("spelling:" + ("predicate" if nm == "predicate" else "name" if nm == "name" else "collection"))
    both = closure_facets(np.concatenate([F, F2]))
    for nm, val in {"list-names": ["selF", "selF2"], "set-names": {"selF", "selF2"},
                    "tuple-mixed": ("selF", F2.astype(np.int32))}.items():
        g = basis.get_dofs(val)
        ctx.check("spellings-agree", set(g.flatten().tolist()) == both, mech=f"spelling:facets:{nm}", spelling=nm, **tag)
    if F.size == 1:
        g = basis.get_dofs(int(F[0]))
        ctx.check("spellings-agree", set(g.flatten().tolist()) == want, mech="spelling:facets:int", **tag)
    cm = np.asarray(mesh.p)[:, np.asarray(mesh.t)].mean(axis=1)
    spE = {"predicate": midpoint_predicate(cm[:, E], h), "name": "selE", "list": [E[:1].astype(np.int32), E[1:].astype(np.int32)] if E.size > 1 else None,
           "set-name": {"selE"}, "tuple-name": ("selE",)}
    for nm, val in spE.items():
        if val is None:
            continue
        g = basis.get_dofs(elements=val)
        ctx.check("spellings-agree", set(g.flatten().tolist()) == wantE, mech=f"spelling:elements:{nm}", spelling=nm, **tag)
    g = basis.get_dofs(elements=True)
    ctx.check("spellings-agree", set(g.flatten().tolist()) == set(range(N)), mech="spelling:elements:True", **tag)
    P = np.asarray(mesh.p)
    spV = {"predicate": midpoint_predicate(P[:, V], h), "list": [V[:1].astype(np.int32), V[1:].astype(np.int32)] if V.size > 1 else None}
    for nm, val in spV.items():
        if val is None:
            continue
        g = basis.get_dofs(nodes=val)
        ctx.check("spellings-agree", set(g.flatten().tolist()) == wantV, mech=f"spelling:nodes:{nm}", spelling=nm, **tag)
    g = basis.get_dofs(nodes=tuple(float(x) for x in P[:, V[0]]))
    ctx.check("spellings-agree", set(g.flatten().tolist()) == ent2dofs.get(("v", int(V[0])), set()),
              mech="spelling:nodes:point-tuple", **tag)

    # ---- (1b) degenerate and plain-Python spellings
    def tolerated(call, exc):
        try:
            return call(), None
        except exc as e_:
            return None, e_
    emptyi = np.array([], dtype=np.int32)
    for what, kwname, universe_pred in (("facets", None, lambda x: x[0] > 1e30), ("elements", "elements", lambda x: x[0] > 1e30),
                                         ("nodes", "nodes", lambda x: x[0] > 1e30)):
        for nm, val in (("empty-array", emptyi), ("predicate-matching-nothing", universe_pred)):
            g = basis.get_dofs(val) if kwname is None else basis.get_dofs(**{kwname: val})
            ctx.check("spellings-agree", g.flatten().size == 0, mech=f"empty-selection-not-empty:{what}:{nm}",
                      returned=int(g.flatten().size), **tag)
    m0 = mesh.with_boundaries({"nothing": emptyi}).with_subdomains({"nocell": emptyi})
    b0_ = skfem.CellBasis(m0, rec.make())
    ctx.check("spellings-agree", b0_.get_dofs("nothing").flatten().size == 0 and
              b0_.get_dofs(elements="nocell").flatten().size == 0, mech="empty-tag-not-empty", **tag)
    ctx.reached("empty-selections")
    f0 = int(F[0])
    for nm, val, ref_ in (("int-zero", 0, closure_facets([0])), ("int", f0, closure_facets([f0]))):
        ctx.check("spellings-agree", set(basis.get_dofs(val).flatten().tolist()) == ref_, mech=f"spelling:facets:{nm}", **tag)
    e0 = int(E[0])
    for nm, val in (("int-zero", 0), ("int", e0)):
        g, ex_ = tolerated(lambda: basis.get_dofs(elements=val), (NotImplementedError, TypeError))
        if ex_ is None:
            ctx.check("spellings-agree", set(g.flatten().tolist()) == {int(x) for x in ed[:, [val]].ravel()},
                      mech=f"spelling:elements:{nm}", **tag)
        else:
            ctx.drop("spelling-rejected:elements:int")
    # plain Python collections of ints, unsorted and with a repeated entry
    Fl = [int(x) for x in F[rng.permutation(F.size)]] + [int(F[0])]
    for nm, val in (("list-of-ints", Fl), ("tuple-of-ints", tuple(Fl)), ("set-of-ints", set(Fl))):
        g, ex_ = tolerated(lambda: basis.get_dofs(val), (NotImplementedError, TypeError, ValueError))
        if ex_ is None:
            ctx.check("spellings-agree", set(g.flatten().tolist()) == want, mech=f"spelling:facets:{nm}", **tag)
        else:
            ctx.drop(f"spelling-rejected:facets:{nm}")
    El = [int(x) for x in E[rng.permutation(E.size)]] + [int(E[0])]
    for nm, val in (("list-of-ints", El), ("set-of-ints", set(El))):
        g, ex_ = tolerated(lambda: basis.get_dofs(elements=val), (NotImplementedError, TypeError, ValueError))
        if ex_ is None:
            ctx.check("spellings-agree", set(g.flatten().tolist()) == wantE, mech=f"spelling:elements:{nm}", **tag)
        else:
            ctx.drop(f"spelling-rejected:elements:{nm}")
    ctx.reached("python-int-collections")
    # tags defined by predicates; the oriented facet set around a cell set
    mp = mesh.with_boundaries({"predtag": pred}, boundaries_only=False).with_subdomains({"predsub": midpoint_predicate(cm[:, E], h)})
    bp = skfem.CellBasis(mp, rec.make())
    ctx.check("spellings-agree", set(bp.get_dofs("predtag").flatten().tolist()) == want, mech="tag-defined-by-predicate:facets", **tag)
    ctx.check("spellings-agree", set(bp.get_dofs(elements="predsub").flatten().tolist()) == wantE,
              mech="tag-defined-by-predicate:elements", **tag)
    mb = mesh.with_boundaries({"predbnd": pred})          # default boundaries_only=True: selected AND on the boundary
    Fb = np.array([f for f in F if f2t[1, int(f)] == -1], dtype=np.int64)
    ctx.check("spellings-agree", set(skfem.CellBasis(mb, rec.make()).get_dofs("predbnd").flatten().tolist()) == closure_facets(Fb),
              mech="tag-defined-by-predicate:boundaries-only", **tag)
    ob = mesh.facets_around(E.astype(np.int32))
    ctx.check("spellings-agree", set(basis.get_dofs(ob).flatten().tolist()) == closure_facets(np.unique(np.asarray(ob))),
              mech="oriented-boundary-as-selector", nfacets=int(np.asarray(ob).size), **tag)
    ctx.reached("predicate-tags-and-oriented-selector")
    # unions of views of different selector kinds
    with warnings.catch_warnings():
        warnings.simplefilter("ignore")
        for nm, un, ref_ in (("facets|elements", got | gotE, want | wantE), ("elements|facets", gotE | got, want | wantE),
                             ("elements|nodes", gotE | gotV, wantE | wantV), ("nodes+facets", gotV + got, wantV | want)):
            ctx.check("spellings-agree", set(un.flatten().tolist()) == ref_, mech=f"view-union-mixed:{nm}", **tag)

    # ---- (3) names
    names = true_names(mesh, elem, kind, dim, layout)
    if all(n is not None for n in names):
        dofname = {}
        for g_, (ek, r, c) in dofinfo.items():
            dofname[g_] = names[r]
        allnames = sorted(set(names))
        for sel, view, wantset in (("facets", got, want), ("elements", gotE, wantE)):
            for nm in allnames:
                wantn = {g_ for g_ in wantset if dofname[g_] == nm}
                gotn = set(view.all(nm).tolist())
                ctx.check("name-filter", gotn == wantn, mech=(
                    "dofnames-read-as-nodal-facet-edge-but-declared-nodal-edge-facet"
                    if (dim == 3 and elem.edge_dofs and elem.facet_dofs and (rec.name.startswith(("Composite(", "DG(")))
                        ) else f"name-filter:{base}"),
                    name=nm, selector=sel, got=lambda: sorted(gotn)[:8], want=lambda: sorted(wantn)[:8], **tag)
                ctx.reached("filter:all-name")
                if wantn and wantn != wantset:
                    ctx.nontrivial(rec.name, sel, "name:" + nm)
            # the empty list of names is a filter too (a programmatically built list may be empty)
            try:
                e_all = set(np.asarray(view.all([])).tolist())
                e_keep = set(view.keep([]).flatten().tolist())
                e_drop = set(view.drop([]).flatten().tolist())
                ctx.check("skip-keep-drop-consistent", e_all == set() and e_keep == set() and e_drop == wantset,
                          mech=f"empty-name-list:{base}", selector=sel, all_=len(e_all), keep=len(e_keep), drop=len(e_drop),
                          want=len(wantset), **tag)
                ctx.reached("filter:empty-name-list")
            except Exception as ex:
                ctx.check("skip-keep-drop-consistent", False, mech=f"empty-name-list-raises:{base}", error=repr(ex)[:200], **tag)
            # list of names, keep / drop / skip consistency
            if len(allnames) >= 2:
                a = allnames[0]
                rest = [n for n in allnames if n != a]
                keepset = set(view.keep([a]).flatten().tolist())
                dropset = set(view.drop([a]).flatten().tolist())
                ctx.check("skip-keep-drop-consistent", keepset == set(view.all(a).tolist()) and
                          keepset | dropset == wantset and not (keepset & dropset),
                          mech=f"keep-drop:{base}", name=a, selector=sel, **tag)
                if sel == "facets":
                    skipped = set(basis.get_dofs(F.astype(np.int32), skip=[a]).flatten().tolist())
                    ctx.check("skip-keep-drop-consistent", skipped == dropset, mech=f"skip:{base}", name=a, **tag)
                    ctx.reached("filter:skip")
                many = set(view.all(rest).tolist())
                ctx.check("skip-keep-drop-consistent", many == dropset, mech=f"all-list:{base}", names=rest, selector=sel, **tag)
                # the names in every container a caller may hold them in: the same filter as the list
                for cname, mk_ in (("tuple", tuple), ("set", set), ("frozenset", frozenset), ("dict-keys", lambda l: dict.fromkeys(l).keys()),
                                   ("numpy-array", lambda l: np.array(l)), ("tuple-of-numpy-str", lambda l: tuple(np.array(l)))):
                    try:
                        ck = set(view.keep(mk_([a])).flatten().tolist())
                        cd = set(view.drop(mk_([a])).flatten().tolist())
                        ca = set(np.asarray(view.all(mk_(rest))).tolist())
                        cs = set(basis.get_dofs(F.astype(np.int32), skip=mk_([a])).flatten().tolist()) if sel == "facets" else dropset
                    except Exception as ex:  # noqa: BLE001  (refusing a container is not a wrong answer)
                        ctx.tolerated("skip-keep-drop-consistent")
                        ctx.drop(f"name-container-refused:{cname}:{type(ex).__name__}")
                        continue
                    ctx.check("skip-keep-drop-consistent", ck == keepset and cd == dropset and ca == dropset and cs == dropset,
                              mech=f"names-in-a-{cname}-filter-differently-from-a-list", selector=sel, name=a,
                              keep=len(ck), drop=len(cd), all_rest=len(ca), skip=len(cs), want_keep=len(keepset), want_drop=len(dropset), **tag)
                    ctx.reached("filter:names-in-" + cname)
                if sel == "facets":
                    # a sequence of queries on ONE basis object: each answer is that of a fresh basis (an earlier query with
                    # skip= or a name filter leaves nothing behind)
                    fresh = lambda: skfem.CellBasis(mesh, rec.make())
                    seq = [("skip-first", lambda b: b.get_dofs(skip=[a])), ("plain", lambda b: b.get_dofs()),
                           ("skip-other", lambda b: b.get_dofs(skip=[allnames[-1]])), ("plain-again", lambda b: b.get_dofs()),
                           ("facets-skip", lambda b: b.get_dofs(F.astype(np.int32), skip=[a])), ("facets-plain", lambda b: b.get_dofs(F.astype(np.int32)))]
                    one = fresh()
                    for qname, qf in seq:
                        g1 = set(qf(one).flatten().tolist())
                        g2 = set(qf(fresh()).flatten().tolist())
                        ctx.check("skip-keep-drop-consistent", g1 == g2, mech=f"query-depends-on-earlier-queries-on-the-basis:{qname}",
                                  got=len(g1), fresh=len(g2), name=a, **tag)
                    ctx.reached("query-sequence-on-one-basis")
            # chains of filters compose as set operations (a filter that removed every name of an entity kind must
            # stay removed under the next one)
            if len(allnames) >= 1:
                a = allnames[0]
                named = lambda nm: {g_ for g_ in wantset if dofname[g_] == nm}
                other = allnames[-1]
                chains = {
                    "drop-then-keep-same": (lambda vw: vw.drop([a]).keep([a]), set()),
                    "keep-then-drop-same": (lambda vw: vw.keep([a]).drop([a]), set()),
                    "keep-then-keep-same": (lambda vw: vw.keep([a]).keep([a]), named(a)),
                    "drop-then-all-same": (lambda vw: vw.drop([a]), wantset - named(a)),
                    "drop-then-drop-other": (lambda vw: vw.drop([a]).drop([other]), wantset - named(a) - named(other)),
                    "keep-then-keep-other": (lambda vw: vw.keep([a]).keep([other]), named(a) if other == a else set()),
                    "drop-then-keep-other": (lambda vw: vw.drop([a]).keep([other]), set() if other == a else named(other)),
                }
                for cname, (fn, wantc) in chains.items():
                    gotc = set(fn(view).flatten().tolist())
                    ctx.check("skip-keep-drop-consistent", gotc == wantc, mech=f"filter-chain:{cname}", selector=sel,
                              names=[a, other], got=lambda: sorted(gotc)[:6], want=lambda: sorted(wantc)[:6], **tag)
                # skip= at query time followed by a filter, for every selector kind
                for selname, q, wset in (("facets", lambda **kw: basis.get_dofs(F.astype(np.int32), **kw), want),
                                         ("elements", lambda **kw: basis.get_dofs(elements=E.astype(np.int32), **kw), wantE),
                                         ("nodes", lambda **kw: basis.get_dofs(nodes=V.astype(np.int32), **kw), wantV)):
                    if sel != "facets":
                        break
                    nm_of = lambda ws, nm: {g_ for g_ in ws if dofname.get(g_) == nm}
                    sk = q(skip=[a])
                    ctx.check("skip-keep-drop-consistent", set(sk.flatten().tolist()) == wset - nm_of(wset, a),
                              mech=f"skip-ignored:{selname}", selector=selname, name=a, **tag)
                    ctx.check("skip-keep-drop-consistent", set(sk.keep([a]).flatten().tolist()) == set(),
                              mech=f"filter-chain:skip-then-keep-same:{selname}", selector=selname, name=a, **tag)
                    ctx.reached("filter:skip")
            # per-kind dictionaries of a FILTERED view: only the kept names, each with its own DOFs
            if len(allnames) >= 2:
                for fname, fview, keepnames in (("keep-first", view.keep([allnames[0]]), {allnames[0]}),
                                                ("keep-last", view.keep([allnames[-1]]), {allnames[-1]}),
                                                ("drop-first", view.drop([allnames[0]]), set(allnames[1:]))):
                    fk = {"v": fview.nodal, "f": fview.facet, "e": fview.edge, "i": fview.interior}
                    okf, badf = True, None
                    for ek, dct in fk.items():
                        for nm, arr in dct.items():
                            wantn = {g_ for g_ in wantset if dofname[g_] == nm and dofinfo[g_][0] == ek} if nm in keepnames else set()
                            if set(np.asarray(arr).tolist()) != wantn:
                                okf, badf = False, (ek, nm, sorted(set(np.asarray(arr).tolist()))[:6], sorted(wantn)[:6])
                                break
                        if not okf:
                            break
                    ctx.check("by-kind-dicts", okf, mech=f"by-kind-dicts-of-a-filtered-view:{fname}", first_bad=badf, selector=sel, **tag)
                ctx.reached("by-kind-dicts-after-filter")
            # per-kind dictionaries
            bykind = {"v": view.nodal, "f": view.facet, "e": view.edge, "i": view.interior}
            for ek, dct in bykind.items():
                for nm, arr in dct.items():
                    wantn = {g_ for g_ in wantset if dofname[g_] == nm and dofinfo[g_][0] == ek}
                    ctx.check("by-kind-dicts", set(np.asarray(arr).tolist()) == wantn, mech=(
                        "dofnames-read-as-nodal-facet-edge-but-declared-nodal-edge-facet"
                        if (dim == 3 and elem.edge_dofs and elem.facet_dofs and rec.name.startswith(("Composite(", "DG(")))
                        else f"by-kind:{base}"), kind_of_entity=ek, name=nm, selector=sel, **tag)
                wantk = {g_ for g_ in wantset if dofinfo[g_][0] == ek}
                gotk = set(np.concatenate([np.asarray(a_) for a_ in dct.values()]).tolist()) if dct else set()
                ctx.check("by-kind-dicts", gotk == wantk, mech=f"by-kind-union:{base}", kind_of_entity=ek, selector=sel, **tag)
    else:
        ctx.drop("dofnames-ambiguous-or-unmodelled")

    # ---- (4) trace independence, observed through cell-side evaluation on the selected facets
    comp_recs = c03.component_records(rec)
    claims = [r.conforming for r in comp_recs]
    if all(c is not None for c in claims) and not rec.name.startswith("DG(") and kind != "wedge" and dim > 1 \
            and not any(r.family == "global" and not r.c1 and r.name not in ("ElementTriP1G", "ElementTriP2G", "ElementQuad2G")
                        for r in comp_recs):
        Fs = F[:min(F.size, 12)]
        wantFs = closure_facets(Fs)
        x = rng.standard_normal(N)
        x[sorted(wantFs)] = 0.0
        nvf = len(dict.fromkeys(int(v) for v in mesh.facets[:, Fs[0]]))
        W = c03.facet_weights(rng, nvf, 4)
        DFfun = c03.mesh_geometry(mesh, kind, 1)
        fallback = rec.name == "ElementTriN3"
        comps, mags, DF, _ = c03.eval_side(mesh, kind, rec.make, x, Fs, 0, W, DFfun, fallback)
        n = c03.outward_normal(mesh, kind, Fs, DF)
        # natural scale: the magnitude sum_i |phi_i| of the local basis at the same points (the vector itself has
        # no contribution left on the facet when the property holds)
        _, mags1, _, _ = c03.eval_side(mesh, kind, rec.make, np.ones(N), Fs, 0, W, DFfun, fallback)
        worst = 0.0
        for ci, cr in enumerate(comp_recs):
            tr = trace_of(cr, comps[ci], n)
            worst = max(worst, float((np.abs(tr) / (mags1[ci] * float(np.abs(x).max()) + 1e-300)).max()))
        ctx.check("trace-independent-of-complement", worst <= (1e-6 if any(r.family == "global" for r in comp_recs) else 1e-9),
                  mech=f"trace-depends-on-outside:{base}", worst=worst, **tag)
        Fi = np.array([f for f in Fs if f2t[1, int(f)] != -1], dtype=Fs.dtype)
        if Fi.size and len({len(dict.fromkeys(int(v) for v in mesh.facets[:, f])) for f in Fi}) == 1:
            # seen from the second neighbour of the interior facets as well
            x1 = rng.standard_normal(N)
            x1[sorted(closure_facets(Fi))] = 0.0
            comps1, _, DF1, _ = c03.eval_side(mesh, kind, rec.make, x1, Fi, 1, W, DFfun, fallback)
            n1 = c03.outward_normal(mesh, kind, Fi, DF1, side=1)
            _, mags11, _, _ = c03.eval_side(mesh, kind, rec.make, np.ones(N), Fi, 1, W, DFfun, fallback)
            worst1 = 0.0
            for ci, cr in enumerate(comp_recs):
                tr = trace_of(cr, comps1[ci], n1)
                worst1 = max(worst1, float((np.abs(tr) / (mags11[ci] * float(np.abs(x1).max()) + 1e-300)).max()))
            ctx.check("trace-independent-of-complement", worst1 <= (1e-6 if any(r.family == "global" for r in comp_recs) else 1e-9),
                      mech=f"trace-depends-on-outside:second-neighbour:{base}", worst=worst1, **tag)
            ctx.reached("trace-from-second-neighbour")
        ctx.nontrivial(rec.name, "trace", "independence")
        if rec.nodal and rec.family == "h1":
            # every returned DOF changes the trace
            bad = []
            # a few DOFs of every entity kind (the lowest numbers are vertex DOFs only)
            bykind_ = {}
            for g_ in sorted(wantFs):
                bykind_.setdefault(dofinfo[g_][0], []).append(g_)
            probe = []
            for ek_, lst in bykind_.items():
                probe += [lst[int(i)] for i in rng.permutation(len(lst))[:4]]
                ctx.reached("trace-control-probed:" + ek_)
            for g_ in probe:
                y = np.zeros(N)
                y[g_] = 1.0
                cc, mm, _, _ = c03.eval_side(mesh, kind, rec.make, y, Fs, 0, W, DFfun, fallback)
                if np.abs(cc[0]["value"]).max() < 1e-9:
                    # the facet-centroid/edge points may all be zeros of this function only by accident: re-sample
                    W2 = c03.facet_weights(ctx.rng("resample", g_), nvf, 6)
                    cc, _, _, _ = c03.eval_side(mesh, kind, rec.make, y, Fs, 0, W2, DFfun, fallback)
                    if np.abs(cc[0]["value"]).max() < 1e-9:
                        bad.append(g_)
            ctx.check("returned-dofs-control-trace", not bad, mech=f"returned-dof-without-trace:{base}", dofs=bad, **tag)
    ctx.sample(dict(tag, facets=F.tolist()[:8], n_returned=len(want), N=N), per_family=1)


def default_tags(ctx, k):
    """The names the library itself gives to the sides of a box-shaped mesh ('left', 'right', 'bottom', ...; the doctests'
    `get_dofs('left')`): the name selects the boundary facets lying in that side - the same set as the index array of the
    facets whose vertices all have the extreme coordinate, and the same DOFs - wherever the box lies and however it is graded."""
    import skfem
    rng = ctx.rng()
    kind = ("tri", "quad", "tet", "hex")[k % 4]
    d = 2 if kind in ("tri", "quad") else 3
    off = [(0.0, 0.0, 0.0), (500000.0, 4649776.0, 1024.0), (-3.0e7, 0.0, 2.0 ** 23), (0.0, 4.6e6, 0.0)][(k // 4) % 4][:d]
    graded = (k // 16) % 2 == 1

    def axis(n, o):
        w = rng.choice([0.25, 0.5, 1.0, 2.0], size=n) if not graded else 2.0 ** -np.arange(n)[::int(rng.choice([-1, 1]))]
        return o + np.concatenate([[0.0], np.cumsum(w)]) * float(rng.choice([1.0, 10.0]))
    axes = [axis(int(rng.integers(2, 5 if d == 3 else 8)), o) for o in off]
    cls = {"tri": skfem.MeshTri, "quad": skfem.MeshQuad, "tet": skfem.MeshTet, "hex": skfem.MeshHex}[kind]
    mesh = cls.init_tensor(*axes)
    if (k // 32) % 2 == 1 and mesh.t.shape[1] <= 60:
        mesh = mesh.refined(1)
    mesh = mesh.with_defaults()
    tagsd = mesh.boundaries or {}
    P, F = np.asarray(mesh.p), np.asarray(mesh.facets)
    bset = set(np.asarray(mesh.boundary_facets()).tolist())
    names = {"left": (0, "min"), "right": (0, "max"), "bottom": (1, "min"), "top": (1, "max"), "front": (2, "min"), "back": (2, "max")}
    elem = {"tri": skfem.ElementTriP2, "quad": skfem.ElementQuad2, "tet": skfem.ElementTetP2, "hex": skfem.ElementHex2}[kind]()
    basis = skfem.CellBasis(mesh, elem)
    tag = dict(mesh=type(mesh).__name__, offset=list(off), graded=graded, cells=int(mesh.t.shape[1]))
    for name, (ax, which) in names.items():
        if ax >= d:
            continue
        ext = P[ax].min() if which == "min" else P[ax].max()
        own = np.array(sorted(f_ for f_ in bset if (P[ax, F[:, f_]] == ext).all()), dtype=np.int64)
        got = np.sort(np.asarray(tagsd.get(name, np.zeros(0, dtype=np.int64))).astype(np.int64))
        ctx.check("spellings-agree", np.array_equal(got, own), mech=f"default-tag-is-not-the-side:{name}", tagged=int(got.size),
                  side=int(own.size), interior=int(len(set(got.tolist()) - bset)), **tag)
        if name in tagsd and own.size:
            d1 = set(basis.get_dofs(name).flatten().tolist())
            d2 = set(basis.get_dofs(facets=own.astype(np.int32)).flatten().tolist())
            ctx.check("spellings-agree", d1 == d2, mech=f"default-tag-dofs-differ-from-the-side:{name}", by_name=len(d1), by_index=len(d2), **tag)
    ctx.reached("default-side-tags")
    if any(off):
        ctx.reached("default-side-tags:far-from-origin")
    if graded:
        ctx.reached("default-side-tags:graded")
    ctx.nontrivial("default-tags", kind, bool(any(off)), graded)


def trace_of(cr, comp, n):
    v = comp["value"]
    if cr.conforming == "value":
        while v.ndim > 2:
            v = np.abs(v).max(axis=0)
        return v
    if cr.conforming == "normal":
        return np.einsum("ifq,ifq->fq", v, n)
    if cr.conforming == "tangential":
        if v.shape[0] == 2:
            return v[0] * n[1] - v[1] * n[0]
        return np.abs(np.cross(np.moveaxis(n, 0, -1), np.moveaxis(v, 0, -1))).max(axis=-1)
    if cr.conforming == "nn":
        return np.einsum("ifq,ijfq,jfq->fq", n, v, n)
    raise ValueError(cr.conforming)


def fam(kind):
    return lambda ctx, k: one_case(ctx, k, kind)


def ncases(kind, mq, mt):
    return lambda ctx: len([r for r in EL.all_for_kind(kind) if r.mesh_req == "any" or r.family == "global"]) * \
        (mq if ctx.tier == "quick" else mt)


FAMILIES = [Family("dofs-" + kd, fam(kd), ncases(kd, mq, mt), ncases(kd, mq, mt), budget={"quick": 30, "thorough": 600})
            for kd, mq, mt in (("line", 1, 20), ("tri", 1, 24), ("quad", 1, 24), ("tet", 2, 30), ("hex", 2, 24), ("wedge", 1, 10))]
FAMILIES.append(Family("default-tags", default_tags, 64, 640))
REQUIRED_REACH += ["default-side-tags", "default-side-tags:far-from-origin", "default-side-tags:graded"]
