"""C16 Threaded assembly equals serial assembly under every schedule.

Code under judgement: BilinearForm._assemble (nthreads > 0 branch), BilinearForm._threaded_kernel,
BilinearForm._kernel.  Observation is done by rv/c16_harness.py (integrand wrapper with gates, a
logging ndarray view handed to the real `_threaded_kernel`, `_assemble` return hook, sys.monitoring
yield injection); nothing under /repo is touched.

Oracle = sequential ownership model, independent of how the library partitions the pairs:
  * every local index pair (i, j) is handed to the integrand exactly once, with the complete operand
    tuples of that pair;
  * every slot of the shared block is stored exactly once, by the thread that had computed the pair
    the slot belongs to (slot -> pair is decoded from the row/column index arrays of the serial
    result, not from the library's `data[j, i]` convention), never by two different threads;
  * the value found in a slot right after the store is bitwise the serial value of that slot;
  * the returned COO triplets / CSR matrix are bitwise those of nthreads=0;
  * basis arrays, dx, element_dofs, the caller's keyword arguments and the parameter dictionary seen by
    the integrand have the same content afterwards;
  * when `_assemble` returns no worker is alive and no worker event follows the return.

Further workloads (same oracle unless said otherwise): big-blocks (100..900 pairs, thread counts around 128/256),
numpy-parallel (thousands of cells: kernels of different workers inside NumPy at the same time), parameter-kinds
(caller-made DiscreteField / tuple of a composite basis / complex keyword arguments), join-timeouts-expire (controlled
schedules while every finite Thread.join timeout of the assembling thread expires at once), entry-points (asm() over
lists of bases with w.idx, elemental/coo_data, partial, block, CompositeBasis operands, bases without cells/facets:
results-only oracle = bitwise the result of the nthreads=0 twin through the same entry point, no worker exception,
no worker alive on return, operand tables unchanged).

Oracle pitfalls met while building (kept as comments where they bite):
  * thread idents are re-used by later workers once an empty-chunk worker has exited -> workers are
    keyed by Thread object;
  * a schedule is a list of worker indices; which thread is "worker w" is decided at its first gate by the
    first pair it presents (taken from a free probe run), never by spawn order;
  * a sequential start/join implementation would make most schedules infeasible; infeasible schedules
    time out in the scheduler (watchdog) and count as inconclusive, not as violations (tried: exit 2);
  * DiscreteField is an ndarray subclass that carries grad/div/curl/hess as attributes: a checksum of the
    array alone would miss the derivative tables (digest_obj walks `astuple`);
  * `field.value` emits a DeprecationWarning through the process-global warnings registry on every call; the
    integrands here use np.array(field) (under -W error a worker would die of it, see fam_observe);
  * a store that does not go through ndarray.__setitem__ of the view (np.copyto, out=) is invisible to the
    logging view: "slot never written" is only claimed when the returned block does NOT hold the right
    non-zero value there; otherwise the store accounting of the run is dropped (tried: exit 2, not 1);
  * hundreds of threads: 2*N+5 threads for N = 900 pairs can hit "can't start new thread" on correct code: the
    big-block thread counts are capped (BIG_THREAD_CAP) and that RuntimeError is dropped, not judged;
  * Form.block builds fresh `.zeros()` operands per call and CompositeBasis builds its tables on first use: the
    object-identity bookkeeping of the harness would fill/alter exactly the caches under test, hence results-only there;
  * under "expired join timeouts" an implementation may legitimately give up with TimeoutError: tolerated, counted;
  * a worker that raises does not make `assemble` raise (threading.excepthook prints, zeros stay in the block);
    the harness records worker exceptions itself instead of relying on the return value.
"""
from __future__ import annotations

import sys
from collections import Counter

import numpy as np

from ..engine import CaseTimeout, Family, Skip
from ..gen import meshes as G
from .. import c16_harness as H

PID = "C16"
ENUM_LIMIT = 5000
RULE = ("config = (mesh, trial element, test element, cell/facet basis, integrand, dtype, keyword parameters) x "
        "nthreads in 1..Nu*Nv+2 (the sweep adds 2*Nu*Nv+5 and the decorator / numpy-integer spellings); per "
        "(config, nthreads) a free probe run yields the per-worker pair sequences, then "
        "(a) controlled schedules: ALL interleavings of the per-worker gate sequences when their multinomial count "
        f"<= {ENUM_LIMIT} (kernel granularity: one gate per integrand call; fine granularity: a second gate between "
        "compute and store), else structured + random samples (quick tier of the sampled-large family: limit "
        "200); (b) free-running runs with sys.monitoring LINE/"
        "PY_RETURN yield injection (sleep(0) / 0-200 us) and shortened GIL switch interval; (c) free-running: local "
        "blocks of 100-900 pairs with thread counts around 128/256, meshes of thousands of cells (kernels overlap "
        "inside NumPy), further keyword-parameter kinds, other entry points (asm lists/idx, elemental, partial, block, "
        "CompositeBasis, empty bases) against the nthreads=0 twin; (d) controlled schedules with all finite join "
        "timeouts expiring.  One distinct non-trivial "
        "case = (Nu, Nv, nthreads, granularity, hash of the global gate-passage order) of a run in which >= 2 workers "
        "that each computed >= 1 pair were alive at the same time")
ASSUMPTIONS = [
    "interleavings inside NumPy's C loops (GIL released) are not controllable; explored are kernel-granularity, "
    "compute/store-granularity and bytecode-line-granularity switches",
    "the integrands of the workload are pure functions of their arguments (a user integrand that mutates shared "
    "state is outside the property)",
    "exhaustive enumeration is per (config, nthreads, granularity) and only where the interleaving count is <= "
    f"{ENUM_LIMIT}; everything else is sampled",
]
TRACK = ["skfem.assembly.form.bilinear_form:BilinearForm._assemble",
         "skfem.assembly.form.bilinear_form:BilinearForm._threaded_kernel",
         "skfem.assembly.form.bilinear_form:BilinearForm._kernel"]
REQUIRED_MONITORS = ["pairs-computed-exactly-once", "operands-are-the-pair", "slots-written-exactly-once",
                     "writes-disjoint-across-workers", "writer-computed-the-pair", "stored-value-equals-serial",
                     "coo-bitwise-equal-serial", "csr-bitwise-equal-serial", "shared-inputs-unchanged",
                     "workers-joined-before-return", "no-worker-exception", "reused-form-equals-serial"]
REQUIRED_REACH = ["two-workers-alive-at-once", "empty-chunk:more-threads-than-pairs",
                  "kernels-of-different-workers-interleaved", "enumeration-exhaustive", "enumeration-sampled",
                  "store-gate-used", "yield-injected", "rectangular-local-block", "complex-dtype",
                  "schedule-realised", "nthreads=1", "nthreads=pairs+2", "workers-spawned:decorator",
                  "workers-spawned:numpy-int", "one-form-object-many-bases",
                  "local-function-zero-value-nonzero-gradient", "slow-integrand",
                  "big-block:pairs>127", "big-block:local-functions>127", "big-block:local-functions>255", "big-block:pairs>255", "big-block:workers>255", "zero-size-basis",
                  "entry-point-yield-injected", "parameter-kind:params-df", "parameter-kind:params-tuple",
                  "parameter-kind:params-complex", "numpy-parallel:thousands-of-cells",
                  "kernels-of-different-workers-overlap-in-time", "join-timeouts-expire:active"]
REQUIRED_REACH += ["entry-point-threaded:" + e for e in
                   ("asm-lists-idx", "asm-lists-to-list", "elemental", "coo_data", "partial", "block", "composite-mul",
                    "composite-matmul", "composite-rectangular")]


# --------------------------------------------------------------------------- integrands
def _val(f):
    # not `f.value`: that property goes through warnings.warn (a process-global registry) on every call
    a = np.array(f)
    while a.ndim > 2:
        a = a.sum(axis=0)
    return a


def _der(f):
    g = f.grad
    if g is None:
        return 0.0
    while g.ndim > 2:
        g = g.sum(axis=0)
    return g


def _split(args, nu):
    return args[:nu], args[nu:-1], args[-1]


def make_form(name, nu):
    """Integrands take (*u_components, *v_components, w).  All are non-symmetric in (u, v) whenever the test
    function has a gradient, so a transposed local block changes the matrix."""
    def U(us):
        return sum((k + 1) * _val(u) for k, u in enumerate(us))

    def V(vs):
        return sum((2 * k + 1) * _val(v) for k, v in enumerate(vs))

    def dV(vs):
        return sum((k + 1) * _der(v) for k, v in enumerate(vs))

    def dU(us):
        return sum((k + 2) * _der(u) for k, u in enumerate(us))

    if name == "convect":
        def form(*args):
            us, vs, w = _split(args, nu)
            return U(us) * dV(vs) + 2.0 * U(us) * V(vs)
    elif name == "mass-x":
        def form(*args):
            us, vs, w = _split(args, nu)
            return (1.0 + w.x[0]) * U(us) * V(vs) + 0.25 * dU(us) * V(vs)
    elif name == "h-weighted":
        def form(*args):
            us, vs, w = _split(args, nu)
            return w.h * U(us) * dV(vs) + dU(us) * dV(vs) + U(us) * V(vs)
    elif name == "params":
        def form(*args):
            us, vs, w = _split(args, nu)
            f = w["f"]
            f = f[0] if isinstance(f, tuple) else f
            return w["c"] * U(us) * dV(vs) + _val(f) * U(us) * V(vs) + np.array(w["g"]) * dU(us) * V(vs)
    elif name == "complex":
        def form(*args):
            us, vs, w = _split(args, nu)
            return (1.0 + 2.0j) * U(us) * dV(vs) + 1.0j * w.x[0] * U(us) * V(vs) + U(us) * V(vs)
    elif name == "params-df":
        # a field the caller interpolated himself (basis.interpolate(x)): value and gradient are used
        def form(*args):
            us, vs, w = _split(args, nu)
            f = w["f"]
            return (w["c"] * U(us) * dV(vs) + _val(f) * U(us) * V(vs) + _der(f) * dU(us) * V(vs)
                    + np.array(w["g"]) * U(us) * V(vs))
    elif name == "params-tuple":
        # composite basis: the interpolated field is a tuple, the *second* component is used as well
        def form(*args):
            us, vs, w = _split(args, nu)
            f = w["f"]
            return (_val(f[0]) * U(us) * V(vs) + _val(f[1]) * U(us) * dV(vs) + _der(f[1]) * dU(us) * V(vs)
                    + _der(f[0]) * U(us) * V(vs) + w["c"] * U(us) * V(vs))
    elif name == "params-complex":
        def form(*args):
            us, vs, w = _split(args, nu)
            f = w["f"]
            f = f[0] if isinstance(f, tuple) else f
            return w["c"] * U(us) * dV(vs) + _val(f) * U(us) * V(vs) + np.array(w["g"]) * dU(us) * V(vs)
    elif name == "facet-normal":
        def form(*args):
            us, vs, w = _split(args, nu)
            return w.n[0] * U(us) * V(vs) + U(us) * dV(vs) + 0.5 * U(us) * V(vs)
    else:
        raise ValueError(name)
    form.__name__ = "c16_" + name.replace("-", "_")
    return form


# --------------------------------------------------------------------------- configurations
# (mesh kind, trial element expr, test element expr or None (= single-basis call), basis kind)
SMALL = [  # Nu*Nv <= 6: complete enumeration is affordable for most thread counts
    ("line", "ElementLineP0()", "ElementLineP0()", "cell"),            # 1 x 1
    ("line", "ElementLineP0()", "ElementLineP1()", "cell"),            # trial 1, test 2
    ("line", "ElementLineP1()", "ElementLineP0()", "cell"),            # trial 2, test 1
    ("line", "ElementLineP1()", None, "cell"),                         # 2 x 2, same basis object
    ("line", "ElementLineP1()", "ElementLineP1()", "cell"),            # 2 x 2, two basis objects
    ("tri", "ElementTriP0()", "ElementTriP1()", "cell"),               # 1 x 3
    ("tri", "ElementTriCR()", "ElementTriP0()", "cell"),               # 3 x 1
    ("line", "ElementLineP2()", "ElementLineP1()", "cell"),            # 3 x 2
    ("line", "ElementLineP1()", "ElementLineMini()", "cell"),          # 2 x 3
    ("quad", "ElementQuad0()", "ElementQuad0()", "facet"),             # 1 x 1 on facets
    ("tri", "ElementTriP0()", "ElementTriP1()", "facet"),              # 1 x 3 on facets
    ("tet", "ElementTetP0()", "ElementTetP0()", "cell"),               # 1 x 1
]
LARGE = [  # sampled schedules and free-running stress
    ("tri", "ElementTriP1()", None, "cell"),                           # 3 x 3
    ("tri", "ElementTriP1()", "ElementTriP1()", "cell"),
    ("line", "ElementLineP1()*ElementLineP0()", None, "cell"),         # composite 3 x 3, two components
    ("line", "ElementLinePp(3)", "ElementLineP1()", "cell"),           # 4 x 2
    ("tri", "ElementTriP2()", "ElementTriP1()", "cell"),               # 6 x 3
    ("tri", "ElementTriP1()", "ElementTriP2()", "cell"),               # 3 x 6
    ("tri", "ElementTriRT1()", "ElementTriP0()", "cell"),              # H(div) trial, 3 x 1
    ("tri", "ElementTriP1()", "ElementTriP1()", "facet"),
    ("quad", "ElementQuad1()", None, "cell"),                          # 4 x 4
    ("quad", "ElementQuad2()", "ElementQuad1()", "cell"),              # 9 x 4
    ("quad", "ElementQuad1()", "ElementQuad0()", "facet"),             # 4 x 1
    ("tet", "ElementTetP1()", "ElementTetP0()", "cell"),               # 4 x 1
    ("tet", "ElementTetP1()", None, "cell"),                           # 4 x 4
    ("tri", "ElementVector(ElementTriP1())", None, "cell"),            # 6 x 6
    ("tri", "ElementTriP2()", None, "cell"),                           # 6 x 6
    ("tri", "ElementTriP2()*ElementTriP1()", "ElementTriP1()*ElementTriP0()", "cell"),  # 9 x 4 composite
    ("hex", "ElementHex1()", "ElementHex0()", "cell"),                 # 8 x 1
    ("hex", "ElementHex1()", None, "cell"),                            # 8 x 8
    ("wedge", "ElementWedge1()", None, "cell"),                        # 6 x 6
    ("tri", "ElementTriMini()", "ElementTriP1()", "cell"),             # 4 x 3
    ("tri", "ElementTriP1()", "ElementTriP0()", "interior"),           # trial on side 0, test on side 1: 3 x 1
    ("quad", "ElementQuad1()", "ElementQuad1()", "interior"),          # 4 x 4 across interior facets
]
BIG = [  # > 64 pairs (free-running only): a flattened pair index / chunk arithmetic in a narrow integer type shows
    ("tet", "ElementTetP2()", None, "cell"),                           # 10 x 10 = 100
    ("tri", "ElementTriArgyris()", None, "cell"),                      # 21 x 21 = 441
    ("hex", "ElementHex2()", None, "cell"),                            # 27 x 27 = 729
    ("hex", "ElementHex2()", "ElementHex1()", "cell"),                 # 27 x 8 = 216, rectangular
    ("tet", "ElementVector(ElementTetP2())", None, "cell"),            # 30 x 30 = 900
    # more than 128 (and, with degree 16, more than 256) LOCAL functions on one side: local indices beyond a signed / an
    # unsigned byte, at the price of a few hundred pairs
    ("quad", "ElementQuadP(11)", "ElementQuad1()", "cell"),            # 144 x 4 = 576
    ("quad", "ElementQuad1()", "ElementQuadP(11)", "cell"),            # 4 x 144 = 576
    ("quad", "ElementQuadP(16)", "ElementQuad0()", "cell"),            # 289 x 1 = 289
]
BIG_THREAD_CAP = 460    # OS threads alive at once: ~1500 can fail with "can't start new thread" on correct code
FORMS_REAL = ["convect", "mass-x", "h-weighted", "params"]


def _elem(expr):
    import skfem.element as E
    return eval(expr, dict(E.__dict__))  # fixed internal strings only


def _mesh(rng, kind, size):
    """size: 'tiny' (a handful of cells, for schedule enumeration) or 'mid'."""
    tiny = size == "tiny"
    if kind == "line":
        return G.line_mesh(rng, n=int(rng.integers(2, 5)) if tiny else int(rng.integers(6, 40)))
    if kind == "tri":
        return G.tri_mesh(rng, n=int(rng.integers(5, 8)) if tiny else int(rng.integers(12, 60)),
                          style="random" if tiny else None)
    if kind == "quad":
        return G.quad_mesh(rng, n=(2, 2) if tiny else None)
    if kind == "tet":
        return G.tet_mesh(rng, style="default" if tiny else None)
    if kind == "hex":
        return G.hex_mesh(rng)
    if kind == "wedge":
        return G.wedge_mesh(rng)
    raise ValueError(kind)


class Config:
    pass


def build_config(rng, spec, size, formname=None, dtype=None, max_cells=None, intorder=None):
    import skfem
    kind, uexpr, vexpr, bkind = spec
    try:
        mc = _mesh(rng, kind, size)
    except TypeError:
        mc = G.first_order(rng, kind)
    mesh = mc.mesh
    if max_cells is not None and mesh.t.shape[1] > max_cells:
        # large local blocks: the number of pairs is the subject, two or three cells are enough
        keep = np.sort(rng.choice(mesh.t.shape[1], size=int(rng.integers(2, max_cells + 1)), replace=False))
        elements = keep.astype(np.int64)
    elif size == "tiny" and mesh.t.shape[1] > 24:
        # enumeration only needs the local structure; keep the numerics cheap
        keep = np.sort(rng.choice(mesh.t.shape[1], size=int(rng.integers(2, 9)), replace=False))
        elements = keep.astype(np.int64)
    else:
        elements = None
    cfg = Config()
    try:
        ue = _elem(uexpr)
        if bkind == "cell" and intorder is not None:
            ub = skfem.CellBasis(mesh, ue, elements=elements, intorder=intorder)
        elif bkind == "cell":
            ub = skfem.CellBasis(mesh, ue) if elements is None else skfem.CellBasis(mesh, ue, elements=elements)
        elif bkind == "facet":
            ub = skfem.FacetBasis(mesh, ue)
        else:
            ub = skfem.InteriorFacetBasis(mesh, ue, side=0)
        if vexpr is None:
            vb, vb_arg = ub, None
        elif bkind == "interior":
            vb = skfem.InteriorFacetBasis(mesh, _elem(vexpr), side=1, quadrature=ub.quadrature)
            vb_arg = vb
        else:
            vb = ub.with_element(_elem(vexpr))
            vb_arg = vb
    except CaseTimeout:
        raise
    except Exception as e:
        # Building the bases is not the subject of C16 (seen: InteriorFacetBasis on strongly distorted 'tri2quad'
        # quadrilaterals -> "Newton iteration didn't converge" in MappingIsoparametric.invF; that belongs to
        # C10/C14).  The case is dropped and counted.
        raise Skip("basis-construction-failed:" + type(e).__name__ + ":" + str(e)[:60])
    if dtype is None:
        dtype = [np.float64, np.float64, np.complex128, np.complex64, np.float32][int(rng.integers(5))]
    if formname is None:
        if np.dtype(dtype).kind == "c":
            formname = "complex"
        else:
            pool = list(FORMS_REAL) + (["facet-normal"] if bkind != "cell" else [])
            formname = pool[int(rng.integers(len(pool)))]
    if formname in ("complex", "params-complex") and np.dtype(dtype).kind != "c":
        dtype = np.complex128
    if formname not in ("complex", "params-complex") and np.dtype(dtype).kind == "c":
        formname = "complex"
    kwargs = {}
    if formname == "params":
        kwargs = {"c": float(rng.integers(1, 9)) / 4.0,
                  "f": (rng.integers(-8, 9, size=ub.N) / 8.0),
                  "g": (rng.integers(-8, 9, size=ub.dx.shape) / 8.0)}
    elif formname in ("params-df", "params-tuple"):
        f = ub.interpolate(rng.integers(-8, 9, size=ub.N) / 8.0)
        if (formname == "params-tuple") != isinstance(f, tuple):
            raise Skip("interpolated-field-kind-does-not-fit-form")
        kwargs = {"c": float(rng.integers(1, 9)) / 4.0, "f": f,
                  "g": (rng.integers(-8, 9, size=ub.dx.shape) / 8.0)}
    elif formname == "params-complex":
        kwargs = {"c": complex(rng.integers(1, 9) / 4.0, rng.integers(-4, 5) / 4.0),
                  "f": (rng.integers(-8, 9, size=ub.N) / 8.0) + 1j * (rng.integers(-8, 9, size=ub.N) / 8.0),
                  "g": (rng.integers(-8, 9, size=ub.dx.shape) / 8.0) * (1.0 - 0.5j)}
    cfg.mesh, cfg.ub, cfg.vb, cfg.vb_arg = mesh, ub, vb, vb_arg
    cfg.Nu, cfg.Nv = int(ub.Nbfun), int(vb.Nbfun)
    cfg.npairs = cfg.Nu * cfg.Nv
    cfg.nt = int(ub.dx.shape[0])
    cfg.dtype = dtype
    cfg.formname = formname
    cfg.raw = make_form(formname, len(ub.basis[0]))
    cfg.kwargs = kwargs
    cfg.desc = {"mesh": type(mesh).__name__, "ncells": int(mesh.t.shape[1]), "nt_assembled": cfg.nt,
                "trial": uexpr, "test": vexpr or "(same basis object)", "basis": bkind, "Nu": cfg.Nu, "Nv": cfg.Nv,
                "form": formname, "dtype": np.dtype(dtype).name, "kwargs": sorted(kwargs)}
    cfg.shared0 = shared_digests(cfg)
    return cfg


def shared_digests(cfg):
    d = {"ubasis.basis": H.digest_obj(cfg.ub.basis), "ubasis.dx": H.digest_obj(cfg.ub.dx),
         "ubasis.element_dofs": H.digest_obj(np.asarray(cfg.ub.element_dofs)),
         "kwargs": H.digest_obj(cfg.kwargs)}
    if cfg.vb is not cfg.ub:
        d["vbasis.basis"] = H.digest_obj(cfg.vb.basis)
        d["vbasis.dx"] = H.digest_obj(cfg.vb.dx)
        d["vbasis.element_dofs"] = H.digest_obj(np.asarray(cfg.vb.element_dofs))
    return d


# --------------------------------------------------------------------------- serial reference
def serial_reference(cfg):
    """nthreads=0 with the *unwrapped* integrand, plus the slot -> pair decoding from its index arrays."""
    import skfem
    form = skfem.BilinearForm(cfg.raw, dtype=cfg.dtype, nthreads=0)
    args = (cfg.ub,) if cfg.vb_arg is None else (cfg.ub, cfg.vb_arg)
    indices, data, shape, local_shape = form._assemble(*args, **dict(cfg.kwargs))
    A = form.assemble(*args, **dict(cfg.kwargs))
    ref = Config()
    ref.indices, ref.data, ref.shape, ref.local_shape, ref.A = np.array(indices), np.array(data), shape, local_shape, A
    nt = cfg.nt
    sz = data.size
    ref.sz = sz
    ref.ok_layout = nt > 0 and sz == cfg.npairs * nt
    ref.pair_of_block = {}
    ref.decoded = False
    if ref.ok_layout:
        ud = np.asarray(cfg.ub.element_dofs)
        vd = np.asarray(cfg.vb.element_dofs)
        rows, cols = ref.indices[0], ref.indices[1]
        decoded = True
        for b in range(cfg.npairs):
            r, c = rows[b * nt:(b + 1) * nt], cols[b * nt:(b + 1) * nt]
            ii = [i for i in range(cfg.Nv) if np.array_equal(vd[i], r)]
            jj = [j for j in range(cfg.Nu) if np.array_equal(ud[j], c)]
            if len(ii) != 1 or len(jj) != 1:
                decoded = False
                break
            ref.pair_of_block[b] = (ii[0], jj[0])
        if not decoded or len(set(ref.pair_of_block.values())) != cfg.npairs:
            # ambiguous (cannot happen with distinct DOF rows); fall back to the documented layout
            # data[(Nv*j + i)*nt + e] of the serial loop and say so
            ref.pair_of_block = {j * cfg.Nv + i: (i, j) for j in range(cfg.Nu) for i in range(cfg.Nv)}
        else:
            ref.decoded = True
    ref.block_of_pair = {p: b for b, p in ref.pair_of_block.items()}
    return ref


# --------------------------------------------------------------------------- one run + oracle
def run_once(ctx, cfg, ref, nthreads, mode="free", schedule=None, fine=False, fp2w=None, spelling="plain",
             expire_joins=False):
    import skfem
    h = H.Harness(cfg.ub, cfg.vb, cfg.raw, mode=mode, schedule=schedule, fine=fine, first_pair_to_worker=fp2w,
                  step_timeout=ctx.scale(20.0, 40.0), total_timeout=ctx.scale(40.0, 90.0),
                  expire_join_timeouts=expire_joins)
    if not h.ids_unique:
        raise Skip("basis-objects-not-distinct")
    if spelling == "decorator":
        # `@BilinearForm(nthreads=k)`: Form.__call__ builds the real form object and must carry nthreads over
        inst = skfem.BilinearForm(dtype=cfg.dtype, nthreads=nthreads)(h.wrap_form())
    elif spelling == "numpy-int":
        inst = skfem.BilinearForm(h.wrap_form(), dtype=cfg.dtype, nthreads=np.int64(nthreads))
    else:
        inst = skfem.BilinearForm(h.wrap_form(), dtype=cfg.dtype, nthreads=nthreads)
    h.instrument(inst)
    try:
        A = h.run(inst, cfg.vb_arg, dict(cfg.kwargs))
    except TimeoutError:
        if not (expire_joins and h.finite_joins):
            raise
        # an implementation that gives up with an error when its own deadline passes does not hand out a wrong
        # matrix: tolerated and counted, not judged
        ctx.tolerated("workers-joined-before-return")
        raise Skip("assemble-raised-TimeoutError-when-its-join-timeouts-expired")
    if expire_joins:
        if h.join_patch_used:
            ctx.reached("join-timeouts-expire:active")
        if h.finite_joins:
            ctx.reached("join-timeouts-expire:finite-joins-seen", h.finite_joins)
    if h.watchdog:
        # a cap fired: inconclusive by construction, never a violation
        ctx.notes.setdefault("watchdog_reason", str(h.abort_reason))
        raise CaseTimeout()
    return h, A


def _bytes_equal(a, b):
    a, b = np.asarray(a), np.asarray(b)
    return a.shape == b.shape and a.dtype == b.dtype and a.tobytes() == b.tobytes()


def evaluate(ctx, cfg, ref, h, A, nthreads, gran, how, sched=None):
    """Apply the ownership model to one finished run.  Returns the order hash."""
    log = h.log
    Nu, Nv, nt = cfg.Nu, cfg.Nv, cfg.nt
    tag = {"config": cfg.desc, "nthreads": int(nthreads), "granularity": gran, "how": how}
    if sched is not None:
        tag["schedule_worker_indices"] = "".join(str(w) if w < 10 else "(%d)" % w for w in sched)
        tag["worker_first_pairs"] = {str(w): p for p, w in (h.first_pair_to_worker or {}).items()}
    allpairs = {(i, j) for j in range(Nu) for i in range(Nv)}

    # ---- worker exceptions
    errs = [(tk, a) for kind, tk, a, b, t in log if kind == "done" and a]
    errs += [(tk, b) for kind, tk, a, b, t in log if kind == "raise"]
    ctx.check("no-worker-exception", not errs and not h.thread_deaths,
              mech=lambda: "worker-raised:" + (errs[0][1] if errs else h.thread_deaths[0][1]).split(":")[0],
              errors=errs[:3], deaths=h.thread_deaths[:3], **tag)

    # ---- every pair exactly once, with its own operands
    enters = [(s, tk, a) for s, (kind, tk, a, b, t) in enumerate(log) if kind == "enter"]
    exits = {}
    for s, (kind, tk, a, b, t) in enumerate(log):
        if kind == "exit":
            exits.setdefault((tk, a), s)
    per_thread = {}
    for s, tk, p in enters:
        per_thread.setdefault(tk, []).append(p)
    if h.unresolved_pairs:
        ctx.drop("pair-identity-unresolved")
    else:
        cnt = Counter(p for _, _, p in enters)
        missing = sorted(allpairs - set(cnt))
        dup = sorted(p for p, c in cnt.items() if c > 1)

        def mech_pairs():
            if missing and not dup:
                return "pair-never-computed"
            if dup and not missing:
                return "pair-computed-more-than-once"
            return "pairs-missing-and-duplicated"
        ctx.check("pairs-computed-exactly-once", not missing and not dup, mech=mech_pairs, missing=missing[:6],
                  duplicated=dup[:6], per_thread=lambda: {str(k): v for k, v in per_thread.items()}, **tag)
        ctx.check("operands-are-the-pair", not h.operand_mismatch, mech="kernel-operands-mixed-between-pairs",
                  first=h.operand_mismatch[:3], **tag)

    # ---- stores
    stores = [(s, tk, a, b) for s, (kind, tk, a, b, t) in enumerate(log) if kind == "store"]
    resolved = ref.ok_layout and all(a is not None and b is not None for _, _, a, b in stores)
    if stores and not resolved:
        ctx.drop("store-unresolved")
    if resolved and not h.unresolved_pairs:
        sz = ref.sz
        count = np.zeros(sz, dtype=np.int64)
        writer = -np.ones(sz, dtype=np.int64)
        overlap = None
        not_owner = None
        bad_value = None
        for s, tk, slots, back in stores:
            inb = slots[(slots >= 0) & (slots < sz)]
            np.add.at(count, inb, 1)
            prev = writer[inb]
            clash = (prev != -1) & (prev != tk)
            if clash.any() and overlap is None:
                overlap = {"slot": int(inb[clash][0]), "threads": [int(prev[clash][0]), int(tk)]}
            writer[inb] = tk
            for b in np.unique(inb // nt):
                p = ref.pair_of_block[int(b)]
                e = exits.get((tk, p))
                if (e is None or e > s) and not_owner is None:
                    others = sorted({t2 for (t2, p2) in exits if p2 == p and t2 != tk})
                    done_before = [p2 for (t2, p2), es in exits.items() if t2 == tk and es < s]
                    not_owner = {"slot_block": int(b), "belongs_to_pair": p, "written_by": int(tk),
                                 "pair_computed_by": others, "writer_computed_so_far": done_before[-4:],
                                 "transposed": (p[1], p[0]) in done_before and p[0] != p[1],
                                 "computed_later_by_writer": e is not None}
            if bad_value is None and not _bytes_equal(back, ref.data[inb]):
                other = None
                for b2 in range(cfg.npairs):
                    if back.size == nt and _bytes_equal(back, ref.data[b2 * nt:(b2 + 1) * nt]):
                        other = ref.pair_of_block[b2]
                        break
                bad_value = {"slot_block": int(inb[0] // nt) if inb.size else None, "written_by": int(tk),
                             "value_is_serial_value_of_pair": other,
                             "got": back[:4].tolist(), "want": ref.data[inb][:4].tolist()}
        unwritten = int((count == 0).sum())
        rewritten = int((count > 1).sum())
        rewritten_by_other = overlap is not None
        observable = not (unwritten and h.assemble_out is not None and _bytes_equal(h.assemble_out[1], ref.data)
                          and ref.data[count == 0].any())
        if not observable:
            # the result holds the right non-zero values in slots for which the logging view saw no store: the
            # code wrote through a path the view cannot see (np.copyto, out=, a reshaped view).  Not observable
            # is not a violation: the store accounting of this run is dropped (required monitors with zero
            # evaluations make the whole check inconclusive).
            ctx.drop("stores-not-observable-through-logging-view")
        else:
            def mech_slots():
                if unwritten and not rewritten:
                    return "slot-never-written"
                if rewritten and not unwritten:
                    return "slot-written-more-than-once" if rewritten_by_other else \
                        "slot-written-more-than-once-by-its-own-thread"
                return "slots-unwritten-and-rewritten"
            ctx.check("slots-written-exactly-once", unwritten == 0 and rewritten == 0, mech=mech_slots,
                      unwritten_slots=unwritten, rewritten_slots=rewritten,
                      first_unwritten_pair=lambda: ref.pair_of_block[int(np.flatnonzero(count == 0)[0] // nt)]
                      if unwritten else None, **tag)
            ctx.check("writes-disjoint-across-workers", overlap is None,
                      mech="overlapping-writes-by-different-workers", first=overlap, **tag)

            def mech_owner():
                if not_owner["transposed"]:
                    return "pair-stored-in-transposed-slot"
                if not_owner["computed_later_by_writer"]:
                    return "slot-stored-before-its-pair-was-computed"
                return "slot-written-by-thread-that-did-not-compute-it"
            ctx.check("writer-computed-the-pair", not_owner is None, mech=mech_owner, first=not_owner, **tag)

            def mech_value():
                if bad_value["value_is_serial_value_of_pair"] is not None:
                    return "stored-value-belongs-to-another-pair"
                return "stored-value-differs-from-serial"
            ctx.check("stored-value-equals-serial", bad_value is None, mech=mech_value, first=bad_value, **tag)

    # ---- result bitwise equal to serial
    out = h.assemble_out
    same_idx = out is not None and _bytes_equal(out[0], ref.indices)
    same_data = out is not None and _bytes_equal(out[1], ref.data)
    same_shape = out is not None and tuple(out[2]) == tuple(ref.shape) and tuple(out[3]) == tuple(ref.local_shape)

    def mech_coo():
        if out is None:
            return "assemble-did-not-return"
        if not same_idx or not same_shape:
            return "indices-or-shape-differ-from-serial"
        got = np.asarray(out[1])
        if got.shape == ref.data.shape and Nu == Nv and ref.ok_layout:
            g3 = got.reshape(Nu, Nv, nt)
            if _bytes_equal(np.ascontiguousarray(g3.transpose(1, 0, 2)).ravel(), ref.data):
                return "local-block-transposed"
        if got.shape == ref.data.shape:
            diff = got != ref.data
            if diff.any() and not got[diff].any():
                return "slots-left-zero-in-result"
        return "data-differs-from-serial"
    ctx.check("coo-bitwise-equal-serial", same_idx and same_data and same_shape, mech=mech_coo,
              ndiff=lambda: int((np.asarray(out[1]) != ref.data).sum()) if out is not None and
              np.asarray(out[1]).shape == ref.data.shape else None,
              got=lambda: np.asarray(out[1])[:8] if out is not None else None, ref=lambda: ref.data[:8], **tag)
    R = ref.A
    same_csr = (A is not None and A.shape == R.shape and A.dtype == R.dtype and _bytes_equal(A.indptr, R.indptr)
                and _bytes_equal(A.indices, R.indices) and _bytes_equal(A.data, R.data))
    ctx.check("csr-bitwise-equal-serial", same_csr, mech="csr-differs-from-serial",
              shape=lambda: getattr(A, "shape", None), nnz=lambda: getattr(A, "nnz", None), ref_nnz=R.nnz, **tag)

    # ---- shared inputs
    now = shared_digests(cfg)
    changed = sorted(k for k in cfg.shared0 if cfg.shared0[k] != now[k])
    if h.w_seen is not None:
        wd = H.digest_obj(dict(h.w_seen)) if isinstance(h.w_seen, dict) else H.digest_obj(h.w_seen)
        if wd != h.w_digest_first:
            changed.append("parameter-dict")
    ctx.check("shared-inputs-unchanged", not changed, mech=lambda: "shared-input-modified:" + changed[0],
              changed=changed, **tag)

    # ---- joined before return
    rets = [(s, a) for s, (kind, tk, a, b, t) in enumerate(log) if kind == "return"]
    worker_set = set(h.worker_tks)
    if rets:
        rs, alive = rets[-1]
        late = [(kind, tk) for s, (kind, tk, a, b, t) in enumerate(log)
                if s > rs and tk in worker_set and kind in ("enter", "go", "exit", "store", "prestore", "done", "spawn")]

        def mech_join():
            if alive:
                return "worker-alive-when-assemble-returned"
            return "worker-activity-after-assemble-returned"
        ctx.check("workers-joined-before-return", not alive and not late, mech=mech_join, alive_workers=alive,
                  late_events=late[:4], **tag)
    else:
        ctx.check("workers-joined-before-return", False, mech="assemble-did-not-return", **tag)

    # ---- what this run exercised
    life = h.lifetimes()
    busy = [tk for tk in life if per_thread.get(tk)]
    overlapped = any(life[a][0] < life[b][1] and life[b][0] < life[a][1]
                     for x, a in enumerate(busy) for b in busy[x + 1:])
    ctx.reached("runs")
    ctx.reached(f"nthreads={'1' if nthreads == 1 else 'pairs+2' if nthreads == cfg.npairs + 2 else 'other'}")
    if overlapped:
        ctx.reached("two-workers-alive-at-once")
    idle = [tk for tk in life if not per_thread.get(tk)]
    if idle:
        ctx.reached("empty-chunk")
        if nthreads > cfg.npairs:
            ctx.reached("empty-chunk:more-threads-than-pairs")
    korder = [tk for kind, tk, a, b, t in log if kind == "go" and a == "c"]
    blocks = 1 + sum(1 for x, y in zip(korder, korder[1:]) if x != y)
    if blocks > len(set(korder)):
        ctx.reached("kernels-of-different-workers-interleaved")
    if Nu != Nv:
        ctx.reached("rectangular-local-block")
    if np.dtype(cfg.dtype).kind == "c":
        ctx.reached("complex-dtype")
    if len(h.w_ids) > 1:
        ctx.reached("parameter-dict-object-differs-between-invocations")
    oh = h.order_hash()
    if overlapped:
        ctx.nontrivial(Nu, Nv, int(nthreads), gran, oh)
    return oh


# --------------------------------------------------------------------------- probe + controlled schedules
def probe(ctx, cfg, ref, nthreads):
    """Free run: observe which pairs each worker computes, in order (the partition is the library's business;
    the scheduler only needs the per-worker sequences)."""
    h, A = run_once(ctx, cfg, ref, nthreads, mode="free")
    evaluate(ctx, cfg, ref, h, A, nthreads, "kernel", "probe")
    seqs = [tuple(v) for tk, v in sorted(h.per_thread_pairs().items()) if tk in set(h.worker_tks) and v]
    firsts = [s[0] for s in seqs]
    if h.unresolved_pairs or len(set(firsts)) != len(firsts) or any(f is None for f in firsts):
        return None
    seqs.sort()
    return seqs


def controlled(ctx, cfg, ref, nthreads, fine, nsample, rng, limit=ENUM_LIMIT, expire_joins=False):
    """All (or sampled) interleavings for one (config, nthreads, granularity)."""
    seqs = probe(ctx, cfg, ref, nthreads)
    if seqs is None:
        ctx.drop("probe-could-not-identify-workers")
        return None
    gran = "compute/store" if fine else "kernel"
    counts = [len(s) * (2 if fine else 1) for s in seqs]
    fp2w = {s[0]: w for w, s in enumerate(seqs)}
    total = H.multinomial(counts)
    exhaustive = total <= limit
    if exhaustive:
        scheds = H.all_interleavings(counts)
    else:
        scheds = H.sampled_interleavings(rng, counts, nsample)
    hashes = set()
    realised = 0
    nrun = 0
    for sched in scheds:
        h, A = run_once(ctx, cfg, ref, nthreads, mode="controlled", schedule=sched, fine=fine, fp2w=fp2w,
                        expire_joins=expire_joins)
        nrun += 1
        oh = evaluate(ctx, cfg, ref, h, A, nthreads, gran, "controlled", sched=sched)
        got = tuple(h.widx_of.get(tk) for tk, a, b in h.kernel_order())
        if h.abort or got != tuple(sched):
            # the run is still a valid execution (judged above); it just is not the prescribed one
            ctx.drop("schedule-not-realised:" + str(h.abort_reason or "order-differs"))
        else:
            realised += 1
            hashes.add(oh)
            ctx.reached("schedule-realised")
            if fine:
                ctx.reached("store-gate-used")
    complete = exhaustive and realised == total and len(hashes) == total
    if complete:
        ctx.reached("enumeration-exhaustive")
        ctx.reached("interleavings-enumerated-exhaustively", total)
    elif not exhaustive:
        ctx.reached("enumeration-sampled")
        ctx.reached("interleavings-sampled", len(hashes))
    else:
        ctx.drop("enumeration-incomplete")
    ctx.reached("interleavings-distinct:controlled", len(hashes))
    info = {"config": cfg.desc, "nthreads": int(nthreads), "granularity": gran,
            "per_worker_pair_sequences": [list(map(list, s)) for s in seqs], "interleavings_total": int(total),
            "exhaustive": bool(complete), "schedules_run": nrun, "interleavings_distinct_observed": len(hashes)}
    if total >= 6:
        ctx.sample(info, per_family=3)
    return info


# local sizes (Nu, Nv) of the SMALL specs and of the larger specs that are also enumerated for few threads; used only
# to order the table by enumeration cost (the run itself takes the sizes from the bases)
SMALL_SIZES = [(1, 1), (1, 2), (2, 1), (2, 2), (2, 2), (1, 3), (3, 1), (3, 2), (2, 3), (1, 1), (1, 3), (1, 1)]
ENUM_EXTRA = [  # (spec, (Nu, Nv), thread counts): enumerable although the block is larger
    (LARGE[0], (3, 3), (2, 3)),        # tri P1, same basis object: 126 / 1680 kernel interleavings
    (LARGE[2], (3, 3), (2, 3)),        # composite line P1*P0 (two components per operand)
    (LARGE[3], (4, 2), (2, 3, 4)),     # LinePp(3) x P1: 70 / 560 / 2520
    (LARGE[6], (3, 1), (1, 2, 3, 4, 5)),   # H(div) trial x P0
    (LARGE[11], (4, 1), (2, 3, 4, 5, 6)),  # tet P1 x P0
]
_TABLE = []


def _even_split(n, k):
    k = max(1, min(k, n))
    base, extra = divmod(n, k)
    return [base + (1 if x < extra else 0) for x in range(k)]


def enum_table():
    """[(spec, nthreads)]: every SMALL spec with every thread count 1..N+2 and the ENUM_EXTRA entries, cheapest
    enumeration first, so that a prefix (quick tier) already sees every SMALL spec with several thread counts."""
    if not _TABLE:
        table = []
        for spec, (nu, nv) in zip(SMALL, SMALL_SIZES):
            for nth in range(1, nu * nv + 3):
                table.append((H.multinomial(_even_split(nu * nv, nth)), len(table), spec, nth))
        for spec, (nu, nv), ths in ENUM_EXTRA:
            for nth in ths:
                table.append((H.multinomial(_even_split(nu * nv, nth)), len(table), spec, nth))
        table.sort(key=lambda t: t[:2])
        _TABLE.extend((spec, nth) for _, _, spec, nth in table)
    return _TABLE


def fam_enum(fine):
    """Case k < len(table): the k-th entry of enum_table(); beyond it random small configs / thread counts."""
    def fn(ctx, k):
        rng = ctx.rng()
        order = enum_table()
        if k < len(order):
            spec, nth = order[k]
            cfg = build_config(rng, spec, "tiny")
        else:
            cfg = build_config(rng, SMALL[int(rng.integers(len(SMALL)))], "tiny")
            nth = int(rng.integers(1, cfg.npairs + 3))
        ref = serial_reference(cfg)
        nth = max(1, min(nth, cfg.npairs + 2))
        controlled(ctx, cfg, ref, nth, fine, ctx.scale(30, 120), rng)
    return fn


def fam_sampled(ctx, k):
    """Larger local blocks: sampled controlled schedules, both granularities alternating."""
    rng = ctx.rng()
    spec = LARGE[k % len(LARGE)]
    cfg = build_config(rng, spec, "tiny")
    ref = serial_reference(cfg)
    n = cfg.npairs
    choices = [2, 3, n + 2, max(2, n // 2), n, 4, n - 1, n + 1, 1]
    nth = int(choices[(k + k // len(LARGE)) % len(choices)]) if k < 9 * len(LARGE) else int(rng.integers(1, n + 3))
    nth = max(1, min(nth, n + 2))
    controlled(ctx, cfg, ref, nth, fine=bool(k % 2), nsample=ctx.scale(16, 40), rng=rng,
               limit=ctx.scale(200, ENUM_LIMIT))


def fam_sweep(ctx, k):
    """Every thread count 1..N+2 once, plain free-running (no injection), every kind of configuration."""
    rng = ctx.rng()
    specs = SMALL + LARGE
    spec = specs[k % len(specs)]
    cfg = build_config(rng, spec, "mid" if k % 2 else "tiny")
    ref = serial_reference(cfg)
    n = cfg.npairs
    ths = list(range(1, n + 3)) if n <= 16 else sorted({1, 2, 3, 4, 7, 8, n // 2, n - 1, n, n + 1, n + 2})
    ths.append(2 * n + 5)   # "any positive number": far more threads than pairs
    hashes = set()
    for x, nth in enumerate(ths):
        spelling = ("plain", "decorator", "numpy-int")[(x + k) % 3]
        h, A = run_once(ctx, cfg, ref, nth, mode="free", spelling=spelling)
        hashes.add((nth, evaluate(ctx, cfg, ref, h, A, nth, "kernel", "free:" + spelling)))
        if h.worker_tks:
            ctx.reached("workers-spawned:" + spelling)
    ctx.reached("interleavings-distinct:free", len(hashes))
    ctx.sample({"config": cfg.desc, "thread_counts": ths, "distinct_orders": len(hashes)}, per_family=2)


JOIN_SPECS = [SMALL[3], SMALL[7], LARGE[0], LARGE[3], LARGE[8], LARGE[11], LARGE[20]]


def fam_join(ctx, k):
    """"Join before flatten" when workers are slower than any timeout the implementation may have put on its joins:
    controlled schedules (the structured ones hold one worker back until all others are done) with every *finite*
    join timeout of the assembling thread expiring at once (see Harness.expire_join_timeouts).  `t.join()` and a
    polling loop around `t.join(1.)` wait for the parked worker all the same; a single `t.join(5.)` returns and the
    matrix is handed out while workers are alive."""
    rng = ctx.rng()
    cfg = build_config(rng, JOIN_SPECS[k % len(JOIN_SPECS)], "tiny")
    ref = serial_reference(cfg)
    nth = (2, 3, 2, cfg.npairs + 2)[(k // len(JOIN_SPECS)) % 4]
    controlled(ctx, cfg, ref, max(2, min(nth, cfg.npairs + 2)), fine=bool(k % 2), nsample=ctx.scale(8, 24), rng=rng,
               limit=0, expire_joins=True)


def fam_parallel(ctx, k):
    """Thousands of cells: the array operations of a kernel are long enough for NumPy to drop the GIL, so kernels of
    different workers really run at the same time (a scratch buffer shared between kernels, a table filled on first
    use, ... only show then).  Free-running, repeated; full ownership model, bitwise COO/CSR, input digests."""
    import skfem
    rng = ctx.rng()
    which, formname = [("tri", "mass-x"), ("tet", "params"), ("tri", "params"), ("tet", "mass-x")][k % 4]
    if which == "tri":
        mesh, uexpr = skfem.MeshTri().refined(6), "ElementTriP2()"            # 8192 cells, 6 x 6 pairs
    else:
        mesh, uexpr = skfem.MeshTet().refined(3), "ElementTetP1()"            # 2560 cells, 4 x 4 pairs
    cfg = Config()
    ub = skfem.CellBasis(mesh, _elem(uexpr))
    cfg.mesh, cfg.ub, cfg.vb, cfg.vb_arg = mesh, ub, ub, None
    cfg.Nu = cfg.Nv = int(ub.Nbfun)
    cfg.npairs = cfg.Nu * cfg.Nv
    cfg.nt = int(ub.dx.shape[0])
    cfg.dtype = np.float64
    cfg.formname = formname
    cfg.raw = make_form(formname, 1)
    cfg.kwargs = {}
    if formname == "params":
        cfg.kwargs = {"c": float(rng.integers(1, 9)) / 4.0, "f": (rng.integers(-8, 9, size=ub.N) / 8.0),
                      "g": (rng.integers(-8, 9, size=ub.dx.shape) / 8.0)}
    cfg.desc = {"mesh": type(mesh).__name__, "ncells": int(mesh.t.shape[1]), "nt_assembled": cfg.nt, "trial": uexpr,
                "test": "(same basis object)", "basis": "cell", "Nu": cfg.Nu, "Nv": cfg.Nv, "form": formname,
                "dtype": "float64", "kwargs": sorted(cfg.kwargs)}
    cfg.shared0 = shared_digests(cfg)
    ref = serial_reference(cfg)
    reps = ctx.scale(3, 5)
    for nth in (2, 3, 4, 8):
        for r in range(reps):
            h, A = run_once(ctx, cfg, ref, nth, mode="free")
            evaluate(ctx, cfg, ref, h, A, nth, "kernel", "free:numpy-parallel")
            # kernels of two workers open at the same time (by the clock, not by the log order)
            open_at, spans = {}, []
            for kind, tk, a, b, t in h.log:
                if kind == "enter":
                    open_at[(tk, a)] = t
                elif kind == "exit" and (tk, a) in open_at:
                    spans.append((open_at.pop((tk, a)), t, tk))
            spans.sort()
            if any(s2[0] < s1[1] and s2[2] != s1[2] for s1, s2 in zip(spans, spans[1:])):
                ctx.reached("kernels-of-different-workers-overlap-in-time")
            if cfg.nt >= 2000:
                ctx.reached("numpy-parallel:thousands-of-cells")
    ctx.sample({"config": cfg.desc, "thread_counts": [2, 3, 4, 8], "repetitions": reps}, per_family=2)


PARAM_KINDS = ([(sp, "params-df") for sp in (SMALL[3], LARGE[0], LARGE[5], LARGE[6], LARGE[7], LARGE[9], LARGE[20])]
               + [(sp, "params-tuple") for sp in (LARGE[2], LARGE[15])]
               + [(sp, "params-complex") for sp in (LARGE[1], LARGE[2], LARGE[3], LARGE[12])])


def fam_params(ctx, k):
    """Kinds of keyword parameters the form "params" does not see: a DiscreteField made by the caller
    (basis.interpolate(x)) used through its gradient, the tuple of fields of a composite basis (second component),
    complex scalars / DOF arrays / arrays.  Free runs over the thread counts plus sampled controlled schedules."""
    rng = ctx.rng()
    spec, formname = PARAM_KINDS[k % len(PARAM_KINDS)]
    cfg = build_config(rng, spec, "mid" if (k // len(PARAM_KINDS)) % 2 else "tiny", formname=formname,
                       dtype=np.complex128 if formname == "params-complex" else np.float64)
    ref = serial_reference(cfg)
    n = cfg.npairs
    ths = sorted({1, 2, 3, n, n + 2} | {int(x) for x in rng.integers(1, n + 3, size=ctx.scale(1, 3))})
    for nth in ths:
        h, A = run_once(ctx, cfg, ref, nth, mode="free")
        evaluate(ctx, cfg, ref, h, A, nth, "kernel", "free:" + formname)
        if h.worker_tks and h.w_seen is not None:
            ctx.reached("parameter-kind:" + formname)
    controlled(ctx, cfg, ref, int(rng.integers(2, 4)), fine=bool(k % 2), nsample=ctx.scale(6, 24), rng=rng, limit=60)
    ctx.sample({"config": cfg.desc, "thread_counts": ths}, per_family=2)


def fam_big(ctx, k):
    """Local blocks of 100..900 pairs (2-3 cells), free-running, thread counts around 127/128, 255/256 and around
    the number of pairs; one run under yield injection.  Full ownership model as everywhere."""
    from skfem.assembly.form.bilinear_form import BilinearForm
    rng = ctx.rng()
    spec = BIG[k % len(BIG)]
    # a low quadrature order keeps the arrays of the first round below the size at which NumPy drops the GIL (the
    # threaded path then takes ten times as long on a busy machine); later rounds use the default order
    low = (k // len(BIG)) % 2 == 0
    cfg = build_config(rng, spec, "tiny", max_cells=3, intorder=3 if low else None)
    ref = serial_reference(cfg)
    n = cfg.npairs
    cand = {3, 129, 257, n + 2 if n + 2 <= BIG_THREAD_CAP else n // 2}
    if (ctx.thorough or k >= len(BIG)) and low:
        cand |= ({1, 2, 5, 7, 8, 127, 128, 255, 256, n // 2, n - 1, n, n + 1, n + 2}
                 | {int(x) for x in rng.integers(1, n + 3, size=3)})
    ths = sorted(t for t in cand if 1 <= t <= min(n + 2, BIG_THREAD_CAP))
    hashes = set()

    def one(nth, how, spelling="plain"):
        try:
            h, A = run_once(ctx, cfg, ref, nth, mode="free", spelling=spelling)
        except RuntimeError as e:
            if "can't start new thread" in str(e):
                ctx.drop("os-refused-to-start-thread")      # a resource limit, not a wrong matrix
                return
            raise
        hashes.add((nth, evaluate(ctx, cfg, ref, h, A, nth, "kernel", how)))
        if max(cfg.ub.Nbfun, cfg.vb.Nbfun) > 127:
            ctx.reached("big-block:local-functions>127")
        if max(cfg.ub.Nbfun, cfg.vb.Nbfun) > 255:
            ctx.reached("big-block:local-functions>255")
        if n > 127:
            ctx.reached("big-block:pairs>127")
        if n > 255:
            ctx.reached("big-block:pairs>255")
        if nth > 255 and len(h.worker_tks) > 255:
            ctx.reached("big-block:workers>255")
    old_si = sys.getswitchinterval()
    try:
        for x, nth in enumerate(ths):
            one(nth, "free:big", spelling=("plain", "decorator", "numpy-int")[(x + k) % 3])
        # one run with forced switches between the lines of the worker loop
        codes = [BilinearForm._threaded_kernel.__code__, BilinearForm._kernel.__code__,
                 BilinearForm._assemble.__code__]
        inj = H.YieldInjector(codes, seed=int(rng.integers(2 ** 31)), p_yield=0.3, p_sleep=0.1, max_us=50)
        nth_inj = int(rng.integers(2, 9))
        if ctx.thorough or n <= 256:      # (quick tier: the line callbacks of 900 kernels cost about a second)
            sys.setswitchinterval(1e-5)
            inj.start()
            try:
                one(nth_inj, "stress:big")
            finally:
                inj.stop()
    finally:
        sys.setswitchinterval(old_si)
    ctx.reached("interleavings-distinct:free", len(hashes))
    ctx.sample({"config": cfg.desc, "thread_counts": ths, "distinct_orders": len(hashes)}, per_family=2)


def fam_stress(ctx, k):
    """Free-running with yield injection between bytecode lines of _assemble/_threaded_kernel/_kernel and on the
    return of _kernel (after compute, before store), plus a shortened GIL switch interval."""
    from skfem.assembly.form.bilinear_form import BilinearForm
    rng = ctx.rng()
    specs = LARGE + SMALL
    spec = specs[k % len(specs)]
    cfg = build_config(rng, spec, "mid" if k % 3 else "tiny")
    ref = serial_reference(cfg)
    n = cfg.npairs
    reps = ctx.scale(3, 6)
    ths = sorted({1, 2, 3, n, n + 2} | {int(x) for x in rng.integers(1, n + 3, size=ctx.scale(2, 4))})
    codes = [BilinearForm._threaded_kernel.__code__, BilinearForm._kernel.__code__, BilinearForm._assemble.__code__]
    hashes = set()
    totals = Counter()
    old_si = sys.getswitchinterval()
    try:
        for nth in ths:
            for r in range(reps):
                style = int(rng.integers(4))
                inj = H.YieldInjector(codes, seed=int(rng.integers(2 ** 31)),
                                      p_yield=[0.5, 0.2, 0.0, 0.35][style], p_sleep=[0.0, 0.4, 0.6, 0.35][style],
                                      max_us=[0, 200, 200, 50][style])
                sys.setswitchinterval([1e-6, 1e-5, 1e-4, 5e-3][int(rng.integers(4))])
                inj.start()
                try:
                    h, A = run_once(ctx, cfg, ref, nth, mode="free")
                finally:
                    inj.stop()
                    sys.setswitchinterval(old_si)
                t = inj.totals()
                totals.update(t)
                if t["yields"] + t["sleeps"] > 0:
                    ctx.reached("yield-injected")
                hashes.add((nth, evaluate(ctx, cfg, ref, h, A, nth, "kernel", "stress")))
    finally:
        sys.setswitchinterval(old_si)
    ctx.reached("interleavings-distinct:free", len(hashes))
    ctx.reached("yield-injections", totals["yields"] + totals["sleeps"])
    ctx.sample({"config": cfg.desc, "thread_counts": ths, "repetitions": reps, "distinct_orders": len(hashes),
                "injection": dict(totals)}, per_family=2)


def fam_observe(ctx, k):
    """Observation only, NOT a clause of C16: when the integrand raises, serial assembly raises, so there is no
    'matrix of serial assembly' to compare with.  What the threaded path does is written into the evidence notes
    (at the time of writing: the worker dies, threading.excepthook prints the traceback, `assemble` returns a
    matrix whose slots of the unfinished pairs are zero)."""
    import skfem
    rng = ctx.rng()
    cfg = build_config(rng, SMALL[4], "tiny", formname="convect", dtype=np.float64)
    bad = cfg.ub.basis[cfg.Nu - 1][0]

    def form(u, v, w):
        if u is bad:
            raise ValueError("integrand fails for the last trial function")
        return np.array(u) * np.array(v)
    seen = {}
    for nth in (0, 2):
        with H._QuietExcepthook() as q:
            try:
                A = skfem.BilinearForm(form, nthreads=nth).assemble(cfg.ub, cfg.vb)
                seen[nth] = "returned a matrix (nnz=%d); worker deaths reported to threading.excepthook: %d" % (
                    A.nnz, len(q.seen))
            except ValueError as e:
                seen[nth] = "raised " + repr(e)
    ctx.notes["observation:integrand-raises"] = {"nthreads=0": seen[0], "nthreads=2": seen[2]}
    if seen[0].startswith("raised") and seen[2].startswith("returned"):
        ctx.reached("observed:integrand-exception-not-propagated-from-worker")


def fam_reuse(ctx, k):
    """One threaded BilinearForm object assembled over a sequence of different bases (other local sizes, rectangular
    blocks, a facet basis on a single facet where a local function has zero values but a non-zero gradient at every
    quadrature point), each result held bit for bit against serial assembly by a fresh serial form.  Free-running
    threads: the subject is the partition of pairs for each call, not the schedule."""
    import skfem
    rng = ctx.rng()
    kind = ("tri", "quad", "line", "tet")[k % 4]
    mc = _mesh(rng, kind, "tiny") if kind != "quad" else G.quad_mesh(rng, n=(2, 2))
    mesh = mc.mesh
    names = {"tri": ("ElementTriP1()", "ElementTriP2()", "ElementTriP0()"),
             "quad": ("ElementQuad1()", "ElementQuad2()", "ElementQuad0()"),
             "line": ("ElementLineP1()", "ElementLineP2()", "ElementLineP0()"),
             "tet": ("ElementTetP1()", "ElementTetP2()", "ElementTetP0()")}[kind]
    formname = ("mass-x", "h-weighted", "convect")[(k // 4) % 3]
    raw = make_form(formname, 1)
    dtype = (np.float64, np.float32)[(k // 12) % 2]
    b1 = skfem.CellBasis(mesh, _elem(names[0]))
    b2 = skfem.CellBasis(mesh, _elem(names[1]))
    b0 = b2.with_element(_elem(names[2]))
    f = int(rng.integers(mesh.facets.shape[1])) if kind != "line" else int(mesh.boundary_facets()[0])
    seq = [("cell-low", b1, None), ("cell-high", b2, None), ("rectangular", b2, b0), ("cell-low-again", b1, None)]
    if kind != "line":
        fb = skfem.FacetBasis(mesh, _elem(names[0]), facets=np.array([f], dtype=np.int32))
        seq.insert(2, ("single-facet", fb, None))
        fbh = skfem.FacetBasis(mesh, _elem(names[1]), facets=np.array([f], dtype=np.int32))
        seq.append(("single-facet-high", fbh, None))
    order = rng.permutation(len(seq))
    nth = int(rng.integers(2, 8))
    threaded = skfem.BilinearForm(raw, dtype=dtype, nthreads=nth)
    for pos in order:
        label, ub, vb = seq[pos]
        args = (ub,) if vb is None else (ub, vb)
        A = threaded.assemble(*args)
        S = skfem.BilinearForm(raw, dtype=dtype, nthreads=0).assemble(*args)
        same = (A.shape == S.shape and _bytes_equal(A.toarray(), S.toarray()))
        npairs = int(ub.Nbfun * (vb or ub).Nbfun)
        ctx.check("reused-form-equals-serial", same,
                  mech=("threaded-form-object-reused-across-local-sizes" if label.startswith("cell") or label == "rectangular"
                        else "threaded-differs-on-single-facet-basis"),
                  step=label, sequence=[seq[i][0] for i in order], nthreads=nth, form=formname, mesh=type(mesh).__name__,
                  pairs=npairs, worst=lambda: float(np.abs(A.toarray() - S.toarray()).max()) if A.shape == S.shape else None)
        if label.startswith("single-facet"):
            vals = [bool(np.any(np.array(ub.basis[i][0]))) for i in range(ub.Nbfun)]
            grads = [bool(np.any(ub.basis[i][0].grad)) for i in range(ub.Nbfun)]
            if any((not v) and g for v, g in zip(vals, grads)):
                ctx.reached("local-function-zero-value-nonzero-gradient")
    ctx.reached("one-form-object-many-bases")
    ctx.nontrivial("reuse", kind, formname, nth, tuple(int(i) for i in order))


# --------------------------------------------------------------------------- other entry points (results only)
def _f_idx(u, v, w):
    # DG penalty written for asm(form, [side0, side1], [side0, side1]): the sign of the jump comes from w.idx
    ju = (-1.) ** w.idx[0] * _val(u)
    jv = (-1.) ** w.idx[1] * _val(v)
    return ju * jv / w.h + 0.5 * _der(u) * w.n[0] * jv + 0.25 * _val(u) * _der(v)


def _f_coef(c, u, v, w):
    # first argument bound by Form.partial
    return _val(c) * _val(u) * _der(v) + _der(c) * _val(u) * _val(v) + (1.0 + w.x[0]) * _der(u) * _val(v)


def _f_two(u1, u2, v1, v2, w):
    # two components per operand: Form.block(i, j) and CompositeBasis b2 * b1
    return (_val(u1) * _der(v2) + 2.0 * _val(u2) * _val(v1) + _der(u2) * _val(v2)
            + 0.5 * (1.0 + w.x[0]) * _val(u1) * _val(v1) + _der(u1) * _val(v1))


def _f_dg(u1, u2, v1, v2, w):
    # side0 @ side1 (equal DOF numbering): the documented DG interior penalty form
    ju, jv = _val(u1) - _val(u2), _val(v1) - _val(v2)
    return ju * jv / w.h - 0.5 * (_der(u1) + _der(u2)) * w.n[0] * jv + 0.25 * ju * _der(v1)


def _f_plain(u, v, w):
    return (1.0 + w.x[0]) * _val(u) * _val(v) + 0.25 * _der(u) * _val(v) + _val(u) * _der(v)


ENTRY = ["asm-lists-idx", "asm-lists-to-list", "elemental", "coo_data", "partial", "block", "composite-mul",
         "composite-matmul", "composite-rectangular", "zero-cells", "zero-facets"]


def _result_parts(r):
    """A result in comparable pieces: [(what, array-or-tuple)]."""
    if isinstance(r, (list, tuple)):
        return [(f"[{n}]{w}", x) for n, item in enumerate(r) for w, x in _result_parts(item)]
    if hasattr(r, "indptr"):
        return [("csr.shape", tuple(r.shape)), ("csr.dtype", str(r.dtype)), ("csr.indptr", np.asarray(r.indptr)),
                ("csr.indices", np.asarray(r.indices)), ("csr.data", np.asarray(r.data))]
    if hasattr(r, "indices") and hasattr(r, "local_shape"):
        return [("coo.indices", np.asarray(r.indices)), ("coo.data", np.asarray(r.data)),
                ("coo.shape", tuple(r.shape)), ("coo.local_shape", None if r.local_shape is None
                                                else tuple(r.local_shape))]
    return [("value", np.asarray(r))]


def _first_difference(a, b):
    pa, pb = _result_parts(a), _result_parts(b)
    if [w for w, _ in pa] != [w for w, _ in pb]:
        return "structure"
    for (w, x), (_, y) in zip(pa, pb):
        if isinstance(x, np.ndarray):
            if not _bytes_equal(x, y):
                return w
        elif x != y:
            return w
    return None


def fam_entry(ctx, k):
    """The ways to a threaded assembly other than form.assemble(ub[, vb]): asm() over lists of bases (w.idx),
    elemental()/coo_data(), partial(), block(i, j) (deep copies of the form object that have to keep nthreads),
    CompositeBasis operands (b2 * b1, side0 @ side1: their basis / element_dofs tables are built lazily on first use,
    here inside the threaded call) and bases without any cell / facet.
    Oracle (results only): the same call on a twin form with nthreads=0 gives bitwise the same COO triplets / CSR
    matrix; no worker raised; no worker is alive on return; the operands' tables are unchanged."""
    import threading
    import skfem
    from skfem.assembly import asm
    rng = ctx.rng()
    entry = ENTRY[k % len(ENTRY)]
    kind = ("tri", "quad", "tet")[(k % len(ENTRY) + k // len(ENTRY)) % 3]
    names = {"tri": ("ElementTriP1()", "ElementTriP2()", "ElementTriP0()"),
             "quad": ("ElementQuad1()", "ElementQuad2()", "ElementQuad0()"),
             "tet": ("ElementTetP1()", "ElementTetP2()", "ElementTetP0()")}[kind]
    mc = {"tri": lambda: G.tri_mesh(rng, n=int(rng.integers(5, 8)), style="random"),
          "quad": lambda: G.quad_mesh(rng, n=(2, 2)), "tet": lambda: G.tet_mesh(rng, style="default")}[kind]()
    mesh = mc.mesh
    dtype = (np.float64, np.float64, np.float32)[int(rng.integers(3))]
    seen = set()

    def rec(raw):
        import functools

        @functools.wraps(raw)          # (inspect.signature follows __wrapped__: Form.nargs stays right)
        def f(*a):
            seen.add(threading.current_thread())
            return raw(*a)
        return f

    try:
        if entry in ("asm-lists-idx", "asm-lists-to-list"):
            sides = [skfem.InteriorFacetBasis(mesh, _elem(names[0]), side=sd) for sd in (0, 1)]
            bases, raw = sides, _f_idx
            kw = {"to": list} if entry.endswith("to-list") else {}

            def call(form):
                return asm(form, sides, sides, **kw)
            npairs = sides[0].Nbfun ** 2
        elif entry in ("elemental", "coo_data", "partial", "block"):
            sub = None
            if mesh.t.shape[1] > 12:
                sub = np.sort(rng.choice(mesh.t.shape[1], size=int(rng.integers(2, 9)), replace=False))
            b2 = skfem.CellBasis(mesh, _elem(names[1]), elements=sub)
            b1 = b2.with_element(_elem(names[0]))
            bases = [b2, b1]
            npairs = b2.Nbfun * b1.Nbfun
            if entry in ("elemental", "coo_data"):
                raw = _f_plain

                def call(form):
                    return getattr(form, entry)(b2, b1)
            elif entry == "partial":
                raw = _f_coef
                coef = b2.interpolate(rng.integers(-8, 9, size=b2.N) / 8.0)
                how = int(rng.integers(2))

                def call(form):
                    g = form.partial(coef)
                    return g.assemble(b2, b1) if how else g.elemental(b2, b1)
            else:
                raw = _f_two
                ij = (int(rng.integers(2)), int(rng.integers(2)))

                def call(form):
                    return form.block(*ij).assemble(b2, b1)
        elif entry in ("composite-mul", "composite-rectangular"):
            sub = None
            if mesh.t.shape[1] > 12:
                sub = np.sort(rng.choice(mesh.t.shape[1], size=int(rng.integers(2, 9)), replace=False))
            b2 = skfem.CellBasis(mesh, _elem(names[1]), elements=sub)
            b1 = b2.with_element(_elem(names[0]))
            b0 = b2.with_element(_elem(names[2]))
            bases, raw = [b2, b1, b0], _f_two
            rect = entry.endswith("rectangular")
            npairs = (b2.Nbfun + b1.Nbfun) * ((b1.Nbfun + b0.Nbfun) if rect else (b2.Nbfun + b1.Nbfun))

            def call(form):
                # fresh composite operands per call: their tables are filled inside the call
                return form.assemble(b2 * b1, b1 * b0) if rect else form.assemble(b2 * b1)
        elif entry == "composite-matmul":
            sides = [skfem.InteriorFacetBasis(mesh, _elem(names[0]), side=sd) for sd in (0, 1)]
            bases, raw = sides, _f_dg
            npairs = (2 * sides[0].Nbfun) ** 2

            def call(form):
                return form.assemble(sides[0] @ sides[1])
        else:
            # no cell / no facet at all: an empty matrix of the right shape and type, and the workers still come home
            import logging
            lg = logging.getLogger("skfem")
            lvl = lg.level
            lg.setLevel(logging.ERROR)        # "Initializing FacetBasis ... with no facets." is a warning
            try:
                if entry == "zero-cells":
                    b = skfem.CellBasis(mesh, _elem(names[0]), elements=np.array([], dtype=np.int32))
                else:
                    b = skfem.FacetBasis(mesh, _elem(names[0]), facets=np.array([], dtype=np.int32))
            finally:
                lg.setLevel(lvl)
            bases, raw = [b], _f_plain
            npairs = b.Nbfun ** 2
            how = int(rng.integers(2))

            def call(form):
                return form.assemble(b) if how else form.elemental(b)
    except CaseTimeout:
        raise
    except Exception as e:
        # building bases is not the subject (InteriorFacetBasis on distorted quadrilaterals: Newton failure, C10/C14)
        raise Skip("basis-construction-failed:" + type(e).__name__ + ":" + str(e)[:60])

    def digests():
        return {f"basis[{n}].{w}": H.digest_obj(x) for n, b in enumerate(bases)
                for w, x in (("basis", b.basis), ("dx", b.dx), ("element_dofs", np.asarray(b.element_dofs)))}
    d0 = digests()
    S = call(skfem.BilinearForm(raw, dtype=dtype, nthreads=0))
    ths = sorted({1, 2, 3, npairs, npairs + 2} | {int(x) for x in rng.integers(1, npairs + 3, size=ctx.scale(1, 3))})
    # second pass under yield injection between the lines of the worker loop *and* of the lazily evaluated tables of
    # CompositeBasis (a table that is visible before it is complete only shows when a switch falls into its build-up)
    from skfem.assembly.basis.composite_basis import CompositeBasis
    from skfem.assembly.form.bilinear_form import BilinearForm
    codes = [BilinearForm._threaded_kernel.__code__, BilinearForm._kernel.__code__, BilinearForm._assemble.__code__]
    codes += [getattr(CompositeBasis, a).fget.__code__ for a in ("basis", "element_dofs")
              if isinstance(getattr(CompositeBasis, a, None), property)]
    runs = [(nth, False) for nth in ths] + [(nth, True) for nth in sorted({2, 3, min(npairs, 8)})]
    old_si = sys.getswitchinterval()
    for nth, injected in runs:
        tag = {"entry": entry, "mesh": type(mesh).__name__, "nthreads": int(nth), "pairs": int(npairs),
               "dtype": np.dtype(dtype).name, "yield_injection": injected}
        seen.clear()
        before = set(threading.enumerate())
        inj = None
        if injected:
            inj = H.YieldInjector(codes, seed=int(rng.integers(2 ** 31)), p_yield=0.4, p_sleep=0.2, max_us=100)
            sys.setswitchinterval(1e-5)
            inj.start()
        try:
            with H._QuietExcepthook() as q:
                T = call(skfem.BilinearForm(rec(raw), dtype=dtype, nthreads=nth))
                left = [t for t in threading.enumerate() if t not in before and t.is_alive()]
                for t in left:
                    t.join(30.0)
        finally:
            if inj is not None:
                inj.stop()
                sys.setswitchinterval(old_si)
                t = inj.totals()
                if t["yields"] + t["sleeps"] > 0:
                    ctx.reached("entry-point-yield-injected")
        diff = _first_difference(T, S)
        is_coo = any(w.startswith(("coo", "[")) for w, _ in _result_parts(S))
        ctx.check("coo-bitwise-equal-serial" if is_coo else "csr-bitwise-equal-serial", diff is None,
                  mech=f"entry-point:{entry}:differs-from-serial", first_difference=diff, **tag)
        ctx.check("no-worker-exception", not q.seen, mech=f"worker-raised:entry-point:{entry}",
                  deaths=q.seen[:3], **tag)
        ctx.check("workers-joined-before-return", not left, mech="worker-alive-when-entry-point-returned",
                  alive=len(left), **tag)
        d1 = digests()
        changed = sorted(x for x in d0 if d0[x] != d1[x])
        ctx.check("shared-inputs-unchanged", not changed, mech=lambda: "shared-input-modified:entry-point:" +
                  changed[0].split(".")[-1], changed=changed, **tag)
        workers = [t for t in seen if t is not threading.main_thread()]
        if workers:
            ctx.reached("entry-point-threaded:" + entry)
        if entry.startswith("zero"):
            ctx.reached("zero-size-basis")
        elif len(workers) >= 2:
            ctx.nontrivial("entry", entry, kind, int(nth))
    ctx.sample({"entry": entry, "mesh": type(mesh).__name__, "pairs": int(npairs), "thread_counts": ths},
               per_family=3)


def fam_slow(ctx, k):
    """A slow integrand (0.5 s per call: a coefficient read from disk, a table look-up): the caller gets the matrix
    only after every worker has finished, however long that takes ("join before flatten")."""
    import time
    import skfem
    rng = ctx.rng()
    mc = G.line_mesh(rng, n=3)
    ub = skfem.CellBasis(mc.mesh, _elem("ElementLineP2()"))
    raw = make_form("mass-x", 1)

    def slow(*args):
        time.sleep(0.5)
        return raw(*args)
    S = skfem.BilinearForm(raw, nthreads=0).assemble(ub)
    t0 = time.time()
    A = skfem.BilinearForm(slow, nthreads=2).assemble(ub)            # 9 pairs: 5 and 4 calls per worker
    wall = time.time() - t0
    ctx.check("workers-joined-before-return", _bytes_equal(A.toarray(), S.toarray()),
              mech="assemble-returned-before-slow-workers-finished", wall_s=round(wall, 2), pairs=9, nthreads=2,
              missing=lambda: int((A.toarray() != S.toarray()).sum()))
    ctx.reached("slow-integrand")
    ctx.notes["slow-integrand-wall-s"] = round(wall, 2)
    ctx.nontrivial("slow", 2)


_enum_kernel = fam_enum(False)
_enum_fine = fam_enum(True)

FAMILIES = [
    Family("enum-kernel", _enum_kernel, quick=66, thorough=lambda ctx: len(enum_table()) + 160,
           budget={"quick": 40, "thorough": 500}),
    Family("enum-fine", _enum_fine, quick=47, thorough=lambda ctx: len(enum_table()) + 100,
           budget={"quick": 40, "thorough": 500}),
    Family("sampled-large", fam_sampled, quick=24, thorough=660, budget={"quick": 30, "thorough": 420}),
    Family("sweep-threadcounts", fam_sweep, quick=36, thorough=680, budget={"quick": 30, "thorough": 420}),
    Family("stress-yield", fam_stress, quick=16, thorough=480, budget={"quick": 30, "thorough": 420}),
    Family("big-blocks", fam_big, quick=len(BIG), thorough=60, budget={"quick": 40, "thorough": 420}),
    Family("join-timeouts-expire", fam_join, quick=len(JOIN_SPECS), thorough=12 * len(JOIN_SPECS),
           budget={"quick": 30, "thorough": 300}),
    Family("numpy-parallel", fam_parallel, quick=2, thorough=16, budget={"quick": 30, "thorough": 300}),
    Family("parameter-kinds", fam_params, quick=len(PARAM_KINDS), thorough=20 * len(PARAM_KINDS),
           budget={"quick": 30, "thorough": 300}),
    Family("entry-points", fam_entry, quick=2 * len(ENTRY), thorough=40 * len(ENTRY),
           budget={"quick": 30, "thorough": 300}),
    Family("reuse-form-object", fam_reuse, quick=24, thorough=480, budget={"quick": 30, "thorough": 300}),
    Family("slow-integrand", fam_slow, quick=1, thorough=2, budget={"quick": 30, "thorough": 60}),
    Family("observe-integrand-exception", fam_observe, quick=1, thorough=1),
]


def teardown(ctx):
    ctx.notes["interleavings_distinct"] = ("see reach_points interleavings-distinct:controlled / :free (summed per "
                                           "(config, nthreads) group) and distinct_nontrivial (global distinct "
                                           "(Nu,Nv,nthreads,granularity,order-hash) keys)")
    ctx.notes["exhaustive"] = ("per (config, nthreads, granularity) group: complete enumeration iff multinomial count "
                               f"<= {ENUM_LIMIT}; groups enumerated completely = reach_points['enumeration-exhaustive'], "
                               "sampled groups = reach_points['enumeration-sampled']")
