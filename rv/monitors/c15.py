"""C15 No hidden state: history-independent results, operands never mutated.

A *program* is a random sequence of public-API operations executed against a long-lived pool of mesh /
element / mapping / basis / solver objects.  Every step is also executed by the *fresh-replay model*: the
same operation on freshly constructed equal objects (new mesh from copies of p, t and tags, new element
instance, new solver factory).  The two results must agree (bitwise; differences <= 1e-13*scale are
tolerated and counted), and every array that belonged to a pooled operand before the step must be
bit-identical after it (lazily *added* attributes are allowed).  In every second program the pooled
meshes' arrays are read-only: a "read-only" ValueError is a mutation witness.
"""
from __future__ import annotations

import hashlib
import os

import numpy as np

from ..engine import Family, Skip
from ..gen import elements as EL
from ..gen import meshes as G
from ..refmodel import geometry as GEO

PID = "C15"
RULE = ("random programs of 30 (quick) / 120 (thorough) steps drawn from an operation catalogue (basis construction with one "
        "element object on several meshes, lbasis at different point sets of equal size, mapping methods with same-bytes/"
        "different-shape and same-shape/different-dtype arguments, affine lazy attributes, element finder / KD-tree reuse, "
        "element_dofs with and without subset, assembly, point evaluation, solver closures reused across systems of different "
        "size and per-call keywords, mesh transformations / tagging / refinement, boundary-condition helpers) over a shared "
        "object pool, each step compared with a fresh replay; distinct key = (operation, cache touched, warm/cold); "
        "non-trivial iff the pooled object had been used before with different arguments")
TRACK = ["skfem.generic_utils:hash_args", "skfem.mapping.mapping_isoparametric:MappingIsoparametric.J",
         "skfem.element.element_global:ElementGlobal.gbasis", "skfem.element.element_line.element_line_pp:ElementLinePp.lbasis",
         "skfem.element.element_quad.element_quadp:ElementQuadP.lbasis", "skfem.utils:solver_iter_krylov",
         "skfem.utils:solver_direct_scipy", "skfem.utils:solver_eigen_scipy_sym", "skfem.mesh.mesh:Mesh.refined",
         "skfem.mesh.mesh:Mesh._mapping"]
REQUIRED_MONITORS = ["pooled-equals-fresh", "operands-unchanged", "retained-object-unchanged-by-later-use"]
REQUIRED_REACH = ["warm:element-on-second-mesh", "warm:global-element-on-second-mesh", "warm:global-element-on-transformed-copy", "warm:lbasis-same-count-other-points",
                  "warm:jacobian-cache-same-bytes-other-shape", "warm:jacobian-cache-other-dtype", "warm:kd-tree",
                  "warm:solver-closure-other-size", "warm:solver-closure-per-call-kwargs", "warm:affine-lazy",
                  "warm:basis-reused", "readonly-pass", "retained-basis-reread", "retained:lbasis-other-points",
                  "retained:refinterp", "retained:second-basis-same-length-rule", "composite-basis-components-reused",
                  "fresh-interpreter-reference"]


# ------------------------------------------------------------------ helpers
def digest(a):
    a = np.ascontiguousarray(a)
    return hashlib.blake2b(a.tobytes(), digest_size=12).hexdigest() + str(a.shape) + str(a.dtype)


def arrays_of(obj, depth=0):
    """(name, ndarray) for the array-valued state of an operand (mesh, matrix, vector, dict of arrays)."""
    import scipy.sparse as sp
    out = []
    if isinstance(obj, np.ndarray):
        out.append(("", obj))
        if hasattr(obj, "ori") and obj.ori is not None:
            out.append((".ori", obj.ori))
    elif sp.issparse(obj):
        for nm in ("data", "indices", "indptr", "row", "col"):
            if hasattr(obj, nm):
                out.append(("." + nm, getattr(obj, nm)))
    elif isinstance(obj, dict):
        for k, v in obj.items():
            out += [(f"[{k}]{n}", a) for n, a in arrays_of(v, depth + 1)]
    elif hasattr(obj, "__dict__") and depth < 2:
        for k, v in vars(obj).items():
            if isinstance(v, (np.ndarray, dict)) or sp.issparse(v):
                out += [(f".{k}{n}", a) for n, a in arrays_of(v, depth + 1)]
    return out


def snapshot(objs):
    snap = {}
    for i, o in enumerate(objs):
        for n, a in arrays_of(o):
            snap[(i, n)] = digest(a)
    return snap


def changed(before, objs):
    after = snapshot(objs)
    return [k for k, v in before.items() if k in after and after[k] != v] + \
           [k for k in before if k not in after]


def flat_result(r):
    """Normalise an operation result to a list of ndarrays."""
    import scipy.sparse as sp
    if r is None:
        return []
    if isinstance(r, np.ndarray):
        out = [np.asarray(r)]
        if getattr(r, "ori", None) is not None:
            out.append(np.asarray(r.ori))
        return out
    if sp.issparse(r):
        c = r.tocsr().copy()
        c.sum_duplicates()
        c.sort_indices()
        return [c.data, c.indices, c.indptr, np.array(c.shape)]
    if isinstance(r, (int, float, complex, np.number, bool)):
        return [np.asarray(r)]
    if isinstance(r, str):
        return [np.frombuffer(r.encode(), dtype=np.uint8)]
    if isinstance(r, dict):
        out = []
        for k in sorted(r, key=str):
            out += [np.frombuffer(str(k).encode(), dtype=np.uint8)] + flat_result(r[k])
        return out
    if isinstance(r, (list, tuple)):
        out = []
        for x in r:
            out += flat_result(x)
        return out
    if hasattr(r, "p") and hasattr(r, "t"):  # a mesh
        return flat_result([np.asarray(r.p), np.asarray(r.t), r.boundaries or {}, r.subdomains or {},
                            type(r).__name__])
    return [np.frombuffer(repr(r).encode(), dtype=np.uint8)]


def compare(ctx, a, b):
    """Returns ('bitwise' | 'close' | 'different', detail)."""
    fa, fb = flat_result(a), flat_result(b)
    if len(fa) != len(fb):
        return "different", f"result structure {len(fa)} vs {len(fb)}"
    verdict = "bitwise"
    for i, (x, y) in enumerate(zip(fa, fb)):
        if x.shape != y.shape:
            return "different", f"part {i}: shape {x.shape} vs {y.shape}"
        if x.dtype != y.dtype and (x.dtype.kind not in "iuf" or y.dtype.kind not in "iuf"):
            return "different", f"part {i}: dtype {x.dtype} vs {y.dtype}"
        if x.tobytes() == y.tobytes():
            continue
        if x.dtype.kind in "fc" and y.dtype.kind in "fc":
            sc = max(float(np.abs(y).max()) if y.size else 0.0, 1e-300)
            err = float(np.abs(x - y).max()) if x.size else 0.0
            if np.isfinite(err) and err <= 1e-13 * sc:
                verdict = "close"
                continue
            return "different", f"part {i}: max|diff|={err:.3e} scale={sc:.3e}"
        if np.array_equal(x, y):
            continue
        return "different", f"part {i}: integer/bytes content differs"
    return verdict, ""


# --------------------------------------------------------------- environments
class Specs:
    """Primitive, immutable descriptions from which both environments build objects."""

    def __init__(self, ctx, rng):
        import skfem
        self.meshes = {}
        kinds = ["line", "tri", "tri", "quad", "quad", "tet", "hex"]
        for i, kind in enumerate(kinds):
            mc = G.first_order(rng, kind)
            tries = 0
            while mc.mesh.t.shape[1] > 40 and tries < 8:
                tries += 1
                mc = G.first_order(ctx.rng("mesh", i, tries), kind)
            m = mc.mesh
            nt, nf = m.t.shape[1], m.facets.shape[1]
            self.meshes[f"{kind}{i}"] = dict(
                kind=kind, cls=type(m), p=np.array(m.p), t=np.array(m.t),
                sub={"s": np.sort(rng.choice(nt, size=max(1, nt // 3), replace=False)).astype(np.int32)},
                bnd={"b": np.sort(rng.choice(nf, size=max(1, nf // 4), replace=False)).astype(np.int32)},
                affine=mc.affine_cells)
        # unit-scale axis-parallel meshes with *equal cell counts* for globally defined elements
        for i, kind in enumerate(["tri", "tri", "quad", "quad", "line", "line"]):
            from .c09 import wellshaped
            mc = wellshaped(ctx.rng("ws", i), kind, True)
            m = mc.mesh
            self.meshes[f"ws-{kind}{i}"] = dict(kind=kind, cls=type(m), p=np.array(m.p), t=np.array(m.t), sub={}, bnd={},
                                                 affine=True, unit=True)
        self.points = {}
        for kind in ("line", "tri", "quad", "tet", "hex"):
            for n in (1, 1, 4, 4):
                self.points.setdefault(kind, []).append(GEO.random_ref_points(rng, kind, n))
        # linear systems of different sizes (SPD)
        self.systems = []
        for n in (3, 7):
            m = skfem.MeshTri().refined(1 if n == 3 else 2)
            b = skfem.Basis(m, skfem.ElementTriP1())
            from skfem.models.poisson import laplace, mass, unit_load
            A = (laplace.assemble(b) + mass.assemble(b)).tocsr()
            self.systems.append((A, unit_load.assemble(b), mass.assemble(b).tocsr()))


class Env:
    def __init__(self, specs, pooled, readonly=False):
        self.specs = specs
        self.pooled = pooled
        self.readonly = readonly
        self._mesh = {}
        self._elem = {}
        self._basis = {}
        self._solver = {}
        self.used = {}      # object key -> set of argument fingerprints seen (pool only)

    def mesh(self, mid):
        if self.pooled and mid in self._mesh:
            return self._mesh[mid]
        s = self.specs.meshes[mid]
        p, t = s["p"].copy(), s["t"].copy()
        m = s["cls"](p, t)
        if s["sub"] or s["bnd"]:
            m = m.with_subdomains({k: v.copy() for k, v in s["sub"].items()}) \
                 .with_boundaries({k: v.copy() for k, v in s["bnd"].items()})
        if self.pooled:
            if self.readonly:
                for a in (m.doflocs, m.t):
                    a.flags.writeable = False
                for dct in (m._subdomains or {}, m._boundaries or {}):
                    for a in dct.values():
                        a.flags.writeable = False
            self._mesh[mid] = m
        return m

    def elem(self, name):
        if self.pooled and name in self._elem:
            return self._elem[name]
        e = EL.by_name(name).make()
        if self.pooled:
            self._elem[name] = e
        return e

    def basis(self, mid, ename):
        import skfem
        key = (mid, ename)
        if self.pooled and key in self._basis:
            return self._basis[key]
        b = skfem.CellBasis(self.mesh(mid), self.elem(ename))
        if self.pooled:
            self._basis[key] = b
        return b

    def solver(self, name, **kw):
        import skfem.utils as U
        key = (name, tuple(sorted(kw.items())))
        if self.pooled and key in self._solver:
            return self._solver[key]
        s = getattr(U, name)(**kw)
        if self.pooled:
            self._solver[key] = s
        return s

    def note(self, key, fingerprint):
        """Returns True if `key` was used before with a *different* fingerprint (warm & non-trivial)."""
        seen = self.used.setdefault(key, set())
        warm = bool(seen - {fingerprint})
        seen.add(fingerprint)
        return warm


ELEMS_BY_KIND = {
    "line": ["ElementLineP1", "ElementLineP2", "ElementLinePp(3)", "ElementLinePp(5)", "ElementLineMini"],
    "tri": ["ElementTriP1", "ElementTriP2", "ElementTriRT1", "ElementTriN1", "ElementTriP1B", "ElementTriCR"],
    "quad": ["ElementQuad1", "ElementQuad2", "ElementQuadP(3)", "ElementQuadP(4)", "ElementQuadRT1"],
    "tet": ["ElementTetP1", "ElementTetP2", "ElementTetRT1", "ElementTetN1"],
    "hex": ["ElementHex1", "ElementHex2", "ElementHexRT1"],
}
GLOBAL_BY_KIND = {
    "line": ["ElementLineHermite"],
    "tri": ["ElementTriMorley", "ElementTriArgyris", "ElementTriHermite", "ElementTriP2G", "ElementTri15ParamPlate"],
    "quad": ["ElementQuadBFS", "ElementQuad2G"],
}


# ------------------------------------------------------------------ operations
# each op: (name, argument sampler(rng, specs) -> args dict, run(env, args) -> (result, operands, warm flags))

def _mesh_ids(specs, kinds=None, unit=None):
    return [k for k, s in specs.meshes.items() if (kinds is None or s["kind"] in kinds)
            and (unit is None or bool(s.get("unit")) == unit)]


def op_basis(rng, specs):
    mid = str(rng.choice(_mesh_ids(specs, unit=False)))
    kind = specs.meshes[mid]["kind"]
    return dict(mid=mid, ename=str(rng.choice(ELEMS_BY_KIND[kind])))


def run_basis(env, a):
    import skfem
    m, e = env.mesh(a["mid"]), env.elem(a["ename"])
    b = skfem.CellBasis(m, e)
    warm = env.note(("elem", a["ename"]), a["mid"])
    res = [np.array(b.basis[0][0]), np.array(b.basis[-1][0]), b.dx, np.asarray(b.element_dofs)]
    g = b.basis[-1][0].grad
    if g is not None:
        res.append(g)
    return res, [m], {"warm:element-on-second-mesh": warm}, ("basis", "element-object", warm)


def op_global(rng, specs):
    kind = str(rng.choice(["tri", "tri", "quad", "line"]))
    mid = str(rng.choice(_mesh_ids(specs, kinds=[kind], unit=True)))
    return dict(mid=mid, ename=str(rng.choice(GLOBAL_BY_KIND[kind])),
                derived=str(rng.choice(["none", "none", "scaled", "translated"])))


def run_global(env, a):
    import skfem
    m, e = env.mesh(a["mid"]), env.elem(a["ename"])
    d = m.p.shape[0]
    if a["derived"] == "scaled":
        # a transformed copy shares the connectivity array with the pooled mesh
        m = m.scaled(tuple([1.5] * d)) if d > 1 else m.scaled(1.5)
    elif a["derived"] == "translated":
        m = m.translated(tuple([0.25] * d))
    b = skfem.CellBasis(m, e)
    warm = env.note(("elem", a["ename"]), (a["mid"], a["derived"]))
    if warm and a["derived"] != "none":
        env.used.setdefault("__flags__", set()).add("warm:global-element-on-transformed-copy")
    res = [np.array(b.basis[0][0]), np.array(b.basis[-1][0]), b.basis[-1][0].grad, b.dx]
    return res, [m], {"warm:global-element-on-second-mesh": warm,
                      "warm:global-element-on-transformed-copy": warm and a["derived"] != "none"}, \
        ("basis-global", "ElementGlobal.V", warm)


def op_lbasis(rng, specs):
    kind = str(rng.choice(["line", "quad", "tri", "line", "quad"]))
    ename = str(rng.choice(ELEMS_BY_KIND[kind]))
    return dict(kind=kind, ename=ename, pts=int(rng.integers(len(specs.points[kind]))), i=int(rng.integers(0, 3)))


def run_lbasis(env, a):
    e = env.elem(a["ename"])
    X = env.specs.points[a["kind"]][a["pts"]].copy()
    phi, dphi = e.lbasis(X, a["i"])
    warm = env.note(("lbasis", a["ename"], X.shape[1]), a["pts"])
    return [np.array(phi) + 0 * X[0], np.array(dphi)], [], {"warm:lbasis-same-count-other-points": warm}, \
        ("lbasis", "tables", warm)


def op_mapping(rng, specs):
    mid = str(rng.choice(_mesh_ids(specs, kinds=["tri", "quad", "tet", "hex"], unit=False)))
    return dict(mid=mid, meth=str(rng.choice(["F", "DF", "invDF", "detDF", "invF"])),
                xvar=str(rng.choice(["shared", "percell", "percell-1pt", "shared-1pt"])),
                tvar=str(rng.choice(["int32-two", "int64-one", "int32-one", "none"])),
                iso=bool(rng.random() < 0.7))


def run_mapping(env, a):
    from skfem.mapping import MappingIsoparametric, MappingAffine
    m = env.mesh(a["mid"])
    s = env.specs.meshes[a["mid"]]
    kind = s["kind"]
    d = GEO.REFDIM[kind]
    if env.pooled:
        key = ("mapping", a["mid"], a["iso"])
        mp = env._basis.get(key)
        if mp is None:
            mp = MappingIsoparametric(m, m.elem(), m.bndelem) if (a["iso"] or not s["affine"]) else MappingAffine(m)
            env._basis[key] = mp
    else:
        mp = MappingIsoparametric(m, m.elem(), m.bndelem) if (a["iso"] or not s["affine"]) else MappingAffine(m)
    # point sets with the *same bytes* but different shapes: (d, 2, 1) per-cell vs (d, 2) shared
    base = np.linspace(0.15, 0.35, 2 * d).reshape(d, 2)
    tv = {"int32-two": np.array([1, 0], dtype=np.int32), "int64-one": np.array([1], dtype=np.int64),
          "int32-one": np.array([1], dtype=np.int32), "none": None}[a["tvar"]]
    nc = m.t.shape[1] if tv is None else len(tv)
    if a["xvar"] == "shared":
        Xp = base.copy()
    elif a["xvar"] == "shared-1pt":
        Xp = base[:, :1].copy()
    elif a["xvar"] == "percell-1pt":
        Xp = np.repeat(base[:, :1, None], nc, axis=1).copy() if nc != 2 else base.reshape(d, 2, 1).copy()
    else:
        Xp = np.repeat(base[:, None, :], nc, axis=1).copy()
    if a["meth"] == "invF":
        x = mp.F(Xp, tv)
        out = mp.invF(x, tv)
    else:
        out = getattr(mp, a["meth"])(Xp, tv)
    fp = (a["xvar"], a["tvar"])
    warm = env.note(("mapping", a["mid"], a["iso"]), fp)
    flags = {}
    if type(mp).__name__ == "MappingIsoparametric":
        seen = env.used[("mapping", a["mid"], a["iso"])]
        if warm and any(x[0] != a["xvar"] for x in seen):
            flags["warm:jacobian-cache-same-bytes-other-shape"] = True
        if warm and any(x[1] != a["tvar"] for x in seen):
            flags["warm:jacobian-cache-other-dtype"] = True
    else:
        flags["warm:affine-lazy"] = warm
    return [np.asarray(out)], [m], flags, ("mapping:" + a["meth"], type(mp).__name__, warm)


def op_finder(rng, specs):
    mid = str(rng.choice(_mesh_ids(specs, unit=False)))
    return dict(mid=mid, seed=int(rng.integers(4)))


def run_finder(env, a):
    m = env.mesh(a["mid"])
    s = env.specs.meshes[a["mid"]]
    r = np.random.default_rng(a["seed"])
    cells = r.integers(0, m.t.shape[1], size=3)
    X = GEO.random_ref_points(r, s["kind"], 3)
    x = np.stack([GEO.map_points(s["kind"], s["p"], s["t"], X[:, j:j + 1], np.array([cells[j]]))[:, 0, 0] for j in range(3)], axis=1)
    out = m.element_finder()(*x)
    warm = env.note(("finder", a["mid"]), a["seed"])
    return [np.asarray(out)], [m], {"warm:kd-tree": warm}, ("finder", "kd-tree", warm)


def op_asm(rng, specs):
    mid = str(rng.choice(_mesh_ids(specs, unit=False)))
    kind = specs.meshes[mid]["kind"]
    return dict(mid=mid, ename=str(rng.choice(ELEMS_BY_KIND[kind])), what=str(rng.choice(["mass", "elemdofs", "interp", "subset"])),
                seed=int(rng.integers(3)))


def run_asm(env, a):
    import skfem
    from .c04 import generic_mass
    b = env.basis(a["mid"], a["ename"])
    m = env.mesh(a["mid"])
    warm = env.note(("basis", a["mid"], a["ename"]), (a["what"], a["seed"]))
    if a["what"] == "mass":
        res = skfem.BilinearForm(generic_mass).assemble(b)
    elif a["what"] == "elemdofs":
        res = [np.asarray(b.element_dofs), np.asarray(b.dofs.element_dofs)]
    elif a["what"] == "subset":
        S = env.specs.meshes[a["mid"]]["sub"].get("s")
        b2 = b.with_elements(S) if S is not None else b
        res = [np.asarray(b2.element_dofs), b2.dx, np.asarray(b.element_dofs)]
    else:
        y = np.random.default_rng(7).standard_normal(b.N)
        f = b.interpolate(y)
        f = f if isinstance(f, tuple) else (f,)
        res = [np.array(x) for x in f]
    return res, [m], {"warm:basis-reused": warm}, ("basis-use:" + a["what"], "basis", warm)


def op_probe(rng, specs):
    mid = str(rng.choice(_mesh_ids(specs, kinds=["line", "tri", "quad"], unit=False)))
    kind = specs.meshes[mid]["kind"]
    return dict(mid=mid, ename=str(rng.choice([e for e in ELEMS_BY_KIND[kind]])), seed=int(rng.integers(4)))


def run_probe(env, a):
    b = env.basis(a["mid"], a["ename"])
    m = env.mesh(a["mid"])
    s = env.specs.meshes[a["mid"]]
    r = np.random.default_rng(a["seed"])
    c = int(r.integers(0, m.t.shape[1]))
    X = GEO.random_ref_points(r, s["kind"], 1)
    x = GEO.map_points(s["kind"], s["p"], s["t"], X, np.array([c]))[:, 0, :]
    y = np.random.default_rng(11).standard_normal(b.N)
    out = b.interpolator(y)(x)
    warm = env.note(("probe", a["mid"], a["ename"]), a["seed"])
    return [np.asarray(out)], [m], {"warm:lbasis-same-count-other-points": warm and a["ename"].startswith(("ElementLinePp", "ElementQuadP"))}, \
        ("probe", "element-tables", warm)


def op_solve(rng, specs):
    return dict(name=str(rng.choice(["solver_iter_pcg", "solver_direct_scipy", "solver_iter_krylov", "solver_iter_cg"])),
                sysid=int(rng.integers(len(specs.systems))), percall=bool(rng.random() < 0.3))


def run_solve(env, a):
    A, b, M = env.specs.systems[a["sysid"]]
    kw = {}
    if a["name"] in ("solver_iter_pcg", "solver_iter_krylov"):
        kw = {"rtol": 1e-12} if _cg_has_rtol() else {"tol": 1e-12}
    s = env.solver(a["name"], **kw)
    call_kw = {}
    if a["percall"] and a["name"] in ("solver_iter_pcg", "solver_iter_krylov"):
        call_kw = {"maxiter": 2}
    if a["percall"] and a["name"] == "solver_iter_cg":
        call_kw = {"maxiters": 2}
    x = s(A, b, **call_kw)
    warm = env.note(("solver", a["name"]), (a["sysid"], a["percall"]))
    seen = env.used[("solver", a["name"])]
    flags = {"warm:solver-closure-other-size": warm and any(z[0] != a["sysid"] for z in seen),
             "warm:solver-closure-per-call-kwargs": warm and any(z[1] for z in seen if z != (a["sysid"], a["percall"]))}
    return [np.asarray(x)], [A, b], flags, ("solve:" + a["name"], "closure-kwargs", warm)


def _cg_has_rtol():
    import inspect
    import scipy.sparse.linalg as spl
    return "rtol" in inspect.signature(spl.cg).parameters


def op_eig(rng, specs):
    return dict(name="solver_eigen_scipy_sym", k=int(rng.choice([0, 2, 3])), sysid=1)


def run_eig(env, a):
    A, b, M = env.specs.systems[a["sysid"]]
    s = env.solver(a["name"], sigma=0.0)
    call_kw = {"k": a["k"]} if a["k"] else {}
    lam, _ = s(A, M, **call_kw)
    warm = env.note(("solver", a["name"]), ("k", a["k"]))
    return [np.sort(np.asarray(lam).real).round(9), np.array(len(lam))], [A, M], \
        {"warm:solver-closure-per-call-kwargs": warm}, ("eig", "closure-kwargs", warm)


def op_transform(rng, specs):
    mid = str(rng.choice(_mesh_ids(specs, unit=False)))
    return dict(mid=mid, what=str(rng.choice(["refined", "translated", "scaled", "mirrored", "with_boundaries",
                                                "with_subdomains", "restrict", "facets", "f2t", "boundary", "adaptive",
                                                "save-dict", "params", "remove_elements", "smoothed", "oriented"])))


def run_transform(env, a):
    m = env.mesh(a["mid"])
    s = env.specs.meshes[a["mid"]]
    d = m.p.shape[0]
    w = a["what"]
    if w == "refined":
        if m.t.shape[1] > 60:
            raise Skip("too-large")
        out = m.refined(1)
    elif w == "adaptive":
        if s["kind"] not in ("tri", "line", "tet") or m.t.shape[1] > 60:
            raise Skip("no-adaptive")
        out = m.refined(np.array([0, min(2, m.t.shape[1] - 1)]))
    elif w == "translated":
        out = m.translated(tuple([0.5] * d))
    elif w == "scaled":
        out = m.scaled(tuple([2.0] * d)) if d > 1 else m.scaled(2.0)
    elif w == "mirrored":
        if s["kind"] not in ("tri", "quad", "tet", "hex", "line"):
            raise Skip("no-mirror")
        n = tuple([1.0] + [0.0] * (d - 1))
        out = m.mirrored(n)
    elif w == "with_boundaries":
        out = m.with_boundaries({"new": lambda x: x[0] < np.median(x[0])})
    elif w == "with_subdomains":
        out = m.with_subdomains({"new": lambda x: x[0] < np.median(x[0])})
    elif w == "restrict":
        out = m.restrict(np.arange(max(1, m.t.shape[1] // 2)))
    elif w == "remove_elements":
        out = m.remove_elements(np.array([0]))
    elif w == "smoothed":
        if s["kind"] not in ("tri", "tet"):
            raise Skip("no-smoothing")
        out = m.smoothed()
    elif w == "oriented":
        if s["kind"] not in ("tri", "tet"):
            raise Skip("no-orientation")
        out = m.oriented()
    elif w == "facets":
        out = [np.asarray(m.facets), np.asarray(m.t2f)]
    elif w == "f2t":
        out = [np.asarray(m.f2t), np.asarray(m.boundary_facets())]
    elif w == "boundary":
        out = [np.asarray(m.boundary_nodes()), np.asarray(m.interior_nodes())]
    elif w == "params":
        out = [np.asarray(m.param())]
    else:
        dct = m.to_dict()
        out = [np.asarray(dct["p"]), np.asarray(dct["t"])]
    warm = env.note(("mesh", a["mid"]), w)
    return out, [m], {}, ("mesh:" + w, "lazy-mesh-attributes", warm)


def op_bc(rng, specs):
    return dict(sysid=int(rng.integers(len(specs.systems))), what=str(rng.choice(["condense", "enforce", "penalize", "solve"])))


def run_bc(env, a):
    import skfem
    A, b, M = env.specs.systems[a["sysid"]]
    n = A.shape[0]
    D = np.array([0, n - 1])
    x = np.linspace(1, 2, n)
    if a["what"] == "condense":
        out = skfem.condense(A, b, x=x, D=D)
        out = [out[0], out[1], out[2], out[3]]
    elif a["what"] == "enforce":
        out = list(skfem.enforce(A, b, x=x, D=D))
    elif a["what"] == "penalize":
        out = list(skfem.penalize(A, b, x=x, D=D))
    else:
        out = [skfem.solve(*skfem.condense(A, b, x=x, D=D))]
    # the prescribed-values vector and the index set are operands too
    mutated = []
    if not np.array_equal(x, np.linspace(1, 2, n)):
        mutated.append("x")
    if not np.array_equal(D, np.array([0, n - 1])):
        mutated.append("D")
    return out, [A, b, x, D], {"__mutated__": mutated}, ("bc:" + a["what"], "operands", False)


OPS = [("basis", op_basis, run_basis, 3), ("global", op_global, run_global, 3), ("lbasis", op_lbasis, run_lbasis, 3),
       ("mapping", op_mapping, run_mapping, 4), ("finder", op_finder, run_finder, 1), ("asm", op_asm, run_asm, 3),
       ("probe", op_probe, run_probe, 2), ("solve", op_solve, run_solve, 3), ("eig", op_eig, run_eig, 1),
       ("transform", op_transform, run_transform, 3), ("bc", op_bc, run_bc, 1)]


def classify(opname, args, detail, exc=None):
    """Explicit predicates for triaged mechanisms (see known_findings.json)."""
    return f"{opname}:{args.get('ename', args.get('name', args.get('what', args.get('meth', ''))))}".split("(")[0]


def program(ctx, k):
    rng = ctx.rng()
    specs = Specs(ctx, rng)
    readonly = bool(k % 2)
    pool = Env(specs, pooled=True, readonly=readonly)
    fresh = Env(specs, pooled=False)
    if readonly:
        ctx.reached("readonly-pass")
    nsteps = ctx.scale(30, 120)
    weights = np.array([w for *_, w in OPS], dtype=float)
    trace = []
    np_state = np.random.get_state()[1][:4].copy()
    for step in range(nsteps):
        name, sampler, runner, _ = OPS[int(rng.choice(len(OPS), p=weights / weights.sum()))]
        args = sampler(rng, specs)
        trace.append((name, args))
        try:
            ref, _, _, _ = runner(fresh, args)
        except Skip:
            ctx.drop("op-not-applicable")
            continue
        except Exception as e:
            # the operation itself is unsupported on fresh objects: not a history effect
            ctx.drop(f"op-raises-on-fresh-objects:{name}:{type(e).__name__}")
            continue
        # pooled execution
        try:
            # operands of the pooled run: snapshot after the objects exist, before the call
            if name in ("transform", "basis", "global", "mapping", "finder", "asm", "probe"):
                pool.mesh(args["mid"])
            pre_objs = [pool.mesh(args["mid"])] if "mid" in args else []
            if name in ("solve", "eig", "bc"):
                pre_objs = list(specs.systems[args["sysid"]])
            before = snapshot(pre_objs)
            got, operands, flags, key = runner(pool, args)
        except Skip:
            continue
        except Exception as e:
            ctx.check("pooled-equals-fresh", False, mech=classify(name, args, "", e) + ":raises-after-history",
                      op=name, args=args, error=repr(e)[:300], step=step, readonly=readonly,
                      history=[t[0] + ":" + str(t[1].get("ename", t[1].get("mid", ""))) for t in trace[-6:]])
            continue
        verdict, detail = compare(ctx, got, ref)
        if verdict == "close":
            ctx.tolerated("pooled-equals-fresh")
        ctx.check("pooled-equals-fresh", verdict != "different", mech=classify(name, args, detail), op=name, args=args,
                  difference=detail, step=step, readonly=readonly,
                  history=[t[0] + ":" + str(t[1].get("ename", t[1].get("mid", t[1].get("name", "")))) for t in trace[-6:]])
        ch = changed(before, pre_objs) + [("local", nm) for nm in flags.pop("__mutated__", [])]
        ctx.check("operands-unchanged", not ch, mech=f"operand-mutated:{name}:{args.get('what', '')}", op=name, args=args,
                  changed=[str(c) for c in ch[:6]], step=step)
        for fl, val in flags.items():
            if val:
                ctx.reached(fl)
        if key[2]:
            ctx.nontrivial(key[0], key[1], "warm")
    ctx.notes["numpy_global_rng_reseeded_by_library"] = bool((np.random.get_state()[1][:4] != np_state).any()) or \
        ctx.notes.get("numpy_global_rng_reseeded_by_library", False)
    ctx.sample({"program": k, "readonly_operands": readonly, "steps": len(trace),
                "first_ops": [t[0] + ":" + str(t[1]) for t in trace[:5]]}, per_family=2)


# ------------------------------------------------------------------ retained objects
def read_basis(b):
    """Everything a consumer reads from a basis, copied."""
    import skfem
    from .c04 import generic_mass
    out = []
    for bf in b.basis:
        for f in (bf if isinstance(bf, tuple) else (bf,)):
            out.append(np.array(f))
            for nm in ("grad", "div", "curl", "hess"):
                a = getattr(f, nm, None)
                if a is not None:
                    out.append(np.array(a))
    out += [np.array(b.dx), np.array(b.element_dofs), np.array(b.X), np.array(b.W)]
    out.append(skfem.BilinearForm(generic_mass).assemble(b))
    return out


RETAINED = [("line", "ElementLinePp(3)"), ("line", "ElementLinePp(5)"), ("quad", "ElementQuadP(3)"), ("quad", "ElementQuadP(4)"),
            ("line", "ElementLineP2"), ("tri", "ElementTriP2"), ("quad", "ElementQuad2"), ("tri", "ElementTriRT1"),
            ("tet", "ElementTetP1"), ("ws-tri", "ElementTriMorley"), ("ws-quad", "ElementQuad2G"), ("ws-line", "ElementLineHermite")]


def retained_basis(ctx, k):
    """A basis is built, read, KEPT, and read again after its element / mesh objects were used for other things
    (other point sets of the same size, refinterp, a second basis with another rule of equal length or on another
    mesh, point evaluation): the second reading equals the first and equals a fresh build."""
    import skfem
    rng = ctx.rng()
    kindkey, ename = RETAINED[k % len(RETAINED)]
    specs = Specs(ctx, rng)
    unit = kindkey.startswith("ws-")
    kind = kindkey[3:] if unit else kindkey
    mids = _mesh_ids(specs, kinds=[kind], unit=unit)
    mid = str(rng.choice(mids))
    pool = Env(specs, pooled=True)
    fresh = Env(specs, pooled=False)
    m, e = pool.mesh(mid), pool.elem(ename)
    B = skfem.CellBasis(m, e)
    R0 = read_basis(B)
    before = snapshot([m])
    nq = B.X.shape[1]
    done = []
    actions = ["lbasis-other-points", "refinterp", "second-basis-same-length-rule", "other-mesh", "probe", "subset",
               "facet-basis", "lbasis-other-points"]
    for act in [actions[i] for i in rng.permutation(len(actions))[: int(rng.integers(2, 6))]]:
        try:
            if act == "lbasis-other-points":
                X = GEO.random_ref_points(rng, kind, nq)
                for i in range(min(3, B.Nbfun)):
                    e.lbasis(X, i)
            elif act == "refinterp":
                if kind in ("line", "tri", "quad"):
                    B.refinterp(np.arange(B.N, dtype=float), nrefs=1)
                else:
                    continue
            elif act == "second-basis-same-length-rule":
                X = GEO.random_ref_points(rng, kind, nq)
                W = np.full(nq, float(np.sum(B.W)) / nq)
                b2 = skfem.CellBasis(m, e, quadrature=(X, W))
                read_basis(b2)
            elif act == "other-mesh":
                others = [x for x in mids if x != mid]
                if not others:
                    continue
                read_basis(skfem.CellBasis(pool.mesh(str(rng.choice(others))), e))
            elif act == "probe":
                if kind not in ("line", "tri", "quad"):
                    continue
                s_ = specs.meshes[mid]
                c = int(rng.integers(0, m.t.shape[1]))
                Xr = GEO.random_ref_points(rng, kind, 1)
                x = GEO.map_points(kind, s_["p"], s_["t"], Xr, np.array([c]))[:, 0, :]
                B.probes(x)
            elif act == "subset":
                B.with_elements(np.arange(max(1, m.t.shape[1] // 2)))
            elif act == "facet-basis":
                if kind == "line" or unit:
                    continue
                skfem.FacetBasis(m, e)
        except Exception as ex:  # the interleaved operation itself is not the subject
            ctx.drop(f"retained:action-raised:{act}:{type(ex).__name__}")
            continue
        done.append(act)
    if not done:
        raise Skip("no-action-applicable")
    R1 = read_basis(B)
    v01, d01 = compare(ctx, R1, R0)
    base = ename.split("(")[0]
    ctx.check("retained-object-unchanged-by-later-use", v01 == "bitwise", mech=f"retained-basis-changed:{base}",
              elem=ename, mesh=mid, actions=done, difference=d01)
    Rf = read_basis(skfem.CellBasis(fresh.mesh(mid), fresh.elem(ename)))
    v, d = compare(ctx, R1, Rf)
    if v == "close":
        ctx.tolerated("pooled-equals-fresh")
    ctx.check("pooled-equals-fresh", v != "different", mech=f"retained-basis-differs-from-fresh:{base}", elem=ename,
              mesh=mid, actions=done, difference=d)
    ch = changed(before, [m])
    ctx.check("operands-unchanged", not ch, mech="operand-mutated:retained-basis", changed=[str(c) for c in ch[:6]],
              actions=done)
    ctx.reached("retained-basis-reread")
    for a in done:
        ctx.reached("retained:" + a)
    ctx.nontrivial("retained", base, tuple(sorted(set(done))))
    ctx.sample({"elem": ename, "mesh": mid, "actions": done}, per_family=1)


def composite_bases(ctx, k):
    """CompositeBasis (b1 * b2, b1 @ b2) borrows its component bases: assembling over the combination leaves the
    components bit-for-bit unchanged, and the components (alone, recombined, in the other order) give what fresh
    ones give."""
    import skfem
    rng = ctx.rng()
    specs = Specs(ctx, rng)
    kind = ("tri", "quad", "line", "tet")[k % 4]
    pairs = {"tri": [("ElementTriP2", "ElementTriP1"), ("ElementTriP1", "ElementTriP0"), ("ElementTriP2", "ElementTriP2")],
             "quad": [("ElementQuad2", "ElementQuad1"), ("ElementQuad1", "ElementQuad0")],
             "line": [("ElementLineP2", "ElementLineP1"), ("ElementLineP1", "ElementLineP1")],
             "tet": [("ElementTetP2", "ElementTetP1")]}[kind]
    n1, n2 = pairs[(k // 4) % len(pairs)]
    mid = str(rng.choice(_mesh_ids(specs, kinds=[kind], unit=False)))

    def build(env):
        m = env.mesh(mid)
        b1 = skfem.CellBasis(m, EL.by_name(n1).make(), intorder=4)
        b2 = b1.with_element(EL.by_name(n2).make())
        return m, b1, b2

    def coupled(u1, u2, v1, v2, w):
        return u1 * v1 + 2.0 * u2 * v2 + 3.0 * u1 * v2 + (1.0 + w.x[0]) * u2 * v1

    def use(b1, b2, how):
        if how == "product":
            return skfem.BilinearForm(coupled).assemble(b1 * b2)
        if how == "reversed":
            return skfem.BilinearForm(coupled).assemble(b2 * b1)
        if how == "second-alone":
            from .c04 import generic_mass
            return [skfem.BilinearForm(generic_mass).assemble(b2), np.array(b2.element_dofs)]
        if how == "first-alone":
            from .c04 import generic_mass
            return [skfem.BilinearForm(generic_mass).assemble(b1), np.array(b1.element_dofs)]
        if how == "equal-dofnum":
            if b1.N != b2.N:
                raise Skip("equal-dofnum-needs-equal-N")
            return skfem.BilinearForm(coupled).assemble(b1 @ b2)
        raise ValueError(how)

    m, b1, b2 = build(Env(specs, pooled=True))
    hows = ["product", "reversed", "second-alone", "first-alone", "product"] + (["equal-dofnum"] if n1 == n2 else [])
    seq = [hows[i] for i in rng.permutation(len(hows))]
    if "product" not in seq[:2]:
        seq.insert(0, "product")
    for step, how in enumerate(seq):
        before = snapshot([m, {"b1.element_dofs": np.asarray(b1.element_dofs), "b2.element_dofs": np.asarray(b2.element_dofs),
                               "b1.dx": b1.dx, "b2.dx": b2.dx}])
        keep = [m, {"b1.element_dofs": np.asarray(b1.element_dofs), "b2.element_dofs": np.asarray(b2.element_dofs),
                    "b1.dx": b1.dx, "b2.dx": b2.dx}]
        try:
            _, f1, f2 = build(Env(specs, pooled=False))
            ref = use(f1, f2, how)
        except Skip:
            continue
        try:
            got = use(b1, b2, how)
        except Exception as ex:
            ctx.check("pooled-equals-fresh", False, mech="composite-basis:component-unusable-after-history", how=how,
                      sequence=seq[:step + 1], error=repr(ex)[:200], elems=[n1, n2])
            continue
        v, d = compare(ctx, got, ref)
        if v == "close":
            ctx.tolerated("pooled-equals-fresh")
        ctx.check("pooled-equals-fresh", v != "different", mech="composite-basis:result-depends-on-history", how=how,
                  sequence=seq[:step + 1], difference=d, elems=[n1, n2])
        ch = changed(before, keep)
        ctx.check("operands-unchanged", not ch, mech="operand-mutated:composite-basis-components", how=how,
                  changed=[str(c) for c in ch[:6]], elems=[n1, n2])
    ctx.reached("composite-basis-components-reused")
    ctx.nontrivial("composite-basis", kind, n1, n2)


# ------------------------------------------------------------------ a really fresh interpreter
PROBES = {
    # name: source of a function probe() -> list of arrays (run alone in a new interpreter, and here after a history)
    "tet-adaptive-ties": """
def probe():
    import numpy as np, skfem
    m = skfem.MeshTet().refined(1)            # many cells with several longest edges of equal length
    c = m.refined(np.array([0, 5, 17]))
    c2 = c.refined(np.array([1, 2]))
    return [c.p, c.t, c2.p, c2.t]
""",
    "tet-adaptive-small-after-large": """
def probe():
    import numpy as np, skfem
    m = skfem.MeshTet()
    c = m.refined(np.array([0])).refined(np.array([0, 1]))
    return [c.p, c.t]
""",
    "tri-adaptive-and-finder": """
def probe():
    import numpy as np, skfem
    m = skfem.MeshTri().refined(2)
    c = m.refined(np.array([0, 3, 9]))
    f = c.element_finder()(np.array([0.3, 0.71]), np.array([0.2, 0.55]))
    return [c.p, c.t, f]
""",
    "eigen-solver-defaults": """
def probe():
    import numpy as np, skfem
    from skfem.models.poisson import laplace, mass
    from skfem.utils import solver_eigen_scipy_sym
    b = skfem.Basis(skfem.MeshTri().refined(3), skfem.ElementTriP1())
    L, X = skfem.solve(*skfem.condense(laplace.assemble(b), mass.assemble(b), D=b.get_dofs()),
                       solver=solver_eigen_scipy_sym(k=4, sigma=0.0))
    return [np.round(np.sort(L), 8)]
""",
}
HISTORY = """
def history():
    import numpy as np, skfem
    from skfem.models.poisson import laplace, mass
    from skfem.utils import solver_eigen_scipy_sym
    big = skfem.MeshTet().refined(2)
    big.refined(np.arange(0, big.t.shape[1], 3))
    skfem.MeshTet.init_tensor(*(np.linspace(0, 1, 4),) * 3).refined(np.array([1, 2, 3]))
    skfem.MeshTri().refined(3).refined(np.arange(10))
    b = skfem.Basis(skfem.MeshTri().refined(2), skfem.ElementTriP2())
    s = solver_eigen_scipy_sym(k=2, sigma=1.0)
    skfem.solve(*skfem.condense(laplace.assemble(b), mass.assemble(b), D=b.get_dofs()), solver=s)
    skfem.solve(*skfem.condense(laplace.assemble(b), mass.assemble(b), D=b.get_dofs()), solver=s, k=3)
    np.random.seed(99)
    np.random.rand(5)
"""


def fresh_interpreter(ctx, k):
    """"the same whether computed first in a fresh interpreter or after any sequence of other operations": the
    probe is run alone in a new interpreter (subprocess) and here, in this process, after a history of other
    operations (and after everything the earlier families did)."""
    import json
    import subprocess
    import sys
    names = sorted(PROBES)
    name = names[k % len(names)]
    src = PROBES[name]
    code = ("import sys, json, hashlib\nimport numpy as np\n" + src +
            "\nout = probe()\nprint('RESULT ' + json.dumps([hashlib.blake2b(np.ascontiguousarray(a).tobytes(), digest_size=12).hexdigest()"
            " + str(np.asarray(a).shape) for a in out]))\n")
    from ..engine import REPO
    env = dict(os.environ, PYTHONPATH=REPO, PYTHONHASHSEED="0")
    r = subprocess.run([sys.executable, "-B", "-c", code], capture_output=True, text=True, timeout=300, env=env)
    line = [l for l in r.stdout.splitlines() if l.startswith("RESULT ")]
    if r.returncode != 0 or not line:
        raise Skip("fresh-interpreter-run-failed:" + (r.stderr or "")[-120:])
    fresh = json.loads(line[0][7:])
    ns = {}
    exec(HISTORY, ns)
    exec(src, ns)
    ns["history"]()
    here = [hashlib.blake2b(np.ascontiguousarray(a).tobytes(), digest_size=12).hexdigest() + str(np.asarray(a).shape)
            for a in ns["probe"]()]
    ctx.check("pooled-equals-fresh", here == fresh, mech=f"differs-from-fresh-interpreter:{name}", probe=name,
              here=here[:4], fresh=fresh[:4])
    ctx.reached("fresh-interpreter-reference")
    ctx.nontrivial("fresh-interpreter", name)


FAMILIES = [Family("programs", program, 160, 3200, budget={"quick": 80, "thorough": 1500}),
            Family("retained-basis", retained_basis, 48, 960, budget={"quick": 40, "thorough": 600}),
            Family("composite-bases", composite_bases, 16, 320, budget={"quick": 20, "thorough": 300}),
            Family("fresh-interpreter", fresh_interpreter, 4, 8, budget={"quick": 60, "thorough": 120})]
