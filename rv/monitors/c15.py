"""C15 No hidden state: history-independent results, operands never mutated.

A *program* is a random sequence of public-API operations executed against a long-lived pool of mesh /
element / mapping / basis / solver objects.  Every step is also executed by the *fresh-replay model*: the
same operation on freshly constructed equal objects (new mesh from copies of p, t and tags, new element
instance, new solver factory).  The two results must agree (bitwise; differences <= 1e-13*scale are
tolerated and counted), and every array that belonged to a pooled operand before the step must be
bit-identical after it (lazily *added* attributes are allowed).  In every second program the pooled
meshes' arrays are read-only: a "read-only" ValueError is a mutation witness.

Strengthening pass (coverage-gap audit):
 * operands are not only the mesh: every array reachable from a pooled basis / mapping (tabulated basis
   functions, dx, X, W, DOF tables, cached global coordinates / mesh parameters / normals, cached Jacobians),
   the *defining* arrays of the element object (class-level ones included) and every array the caller hands
   over (DOF vectors, points, index sets, tag arrays, quadrature rules) are checksummed around the call and are
   read-only in the read-only programs (`deep_arrays`, `element_static_arrays`, `Caller`).  A/b of linear systems
   stay writable (SciPy kernels demand it); tables an element fills lazily are its private business.
 * pooled Form objects (Bilinear/Linear/Trilinear/Functional, .partial, .block, asm over a list of bases,
   elemental) whose integrands read w.x, w.h, w.n and a coefficient keyword, assembled on pooled cell and facet
   bases in random order; the caches are read again afterwards (op `form`, family form-programs).
 * the facet side: G / detDG / normals of a pooled mapping with changing facet subsets (equal length, other
   dtype, all facets) and point layouts; facet bases from pooled mesh and element objects (family facet-programs).
 * derived meshes are KEPT in the pool under generated ids and operated on further (both environments rebuild
   them from the recorded chain): results that share arrays with their operand, second-order meshes
   (Mesh.dofs), DG meshes, a wedge mesh.  The ancestors of a derived mesh are operands of every step on it.
   Mesh surgery on second-order / DG ids is left out (recorded C18 findings) (family derived-programs).
 * process-wide state (class attributes, module-level tables, memo tables keyed too coarsely) is shared by the
   pool AND the in-process fresh replay: for a sample of steps the reference digest is computed in a process that
   has executed nothing else (a child forked from a server that only imported the modules; PYTHONHASHSEED fixed;
   only steps whose in-process verdict was `bitwise`, never the ARPACK steps).
 * one caller-owned point/index buffer refilled in place between calls for lbasis and the mapping methods
   (family buffer-programs); catalogue additions (mesh algebra and conversions, save/load, more connectivity
   tables, get_dofs / DofsView algebra, project, solver_eigen_scipy, solve with pooled solver and x=, I=,
   condense with matrix rhs / I= / CSC / complex).

Round 4 (a seeded `sym_grad` that symmetrised basis.basis[j][0].grad in place went unnoticed: the elasticity matrix
stays bit-identical, the NEXT user of the basis gets wrong gradients):
 * forms written with skfem.helpers (family helper-programs, op `hform`): generated integrands apply EVERY public
   function of skfem.helpers (the catalogue is compared with the module: a new helper without a form makes the run
   inconclusive) to the stored trial / test functions of vector, mixed (vector x scalar), H(div), H(curl), scalar
   and globally defined elements (incl. subclasses that tabulate third / fourth derivatives) on cell, boundary-facet
   and interior-facet bases, to coefficient fields the caller obtained from interpolate() and KEEPS across steps, to
   a matrix field handed over as a plain array, and to the w.x / w.n arrays the basis caches; the library's model forms
   (linear_elasticity, vector_laplace, laplace, mass, unit_load, curluv, rot, vrot) are in the catalogue too.  The
   integrands contract tensors with asymmetric weights, so the unsymmetric part of a gradient matters.  Around every
   assembly all arrays of the basis (basis functions with all derivative fields, dx, X, W, DOF tables, cached
   coordinates / parameters / normals, mapping arrays), of its element, mesh and of the coefficient fields are
   checksummed; the same pooled basis is used next for another helper form or for interpolate() (all fields of the
   result compared with the fresh replay / fresh process); read-only in every second program.
 * composite-bases: all arrays of the two component bases and of their elements are operands (not only dx and the
   DOF tables).

Oracle pitfall recorded while building this: np.asarray(None) (edges of a 2-D mesh) is an object array whose
bytes are addresses: equal within a process, different across processes; such results are compared by repr.
"""
from __future__ import annotations

import hashlib
import os

import numpy as np

from ..engine import Family, Skip
from ..gen import elements as EL
from ..gen import meshes as G
from ..refmodel import geometry as GEO

PID = "C15"
FRESH_PROCESS = True
RULE = ("random programs of 30 (quick) / 120 (thorough) steps drawn from an operation catalogue (basis construction with one "
        "element object on several meshes, lbasis at different point sets of equal size, mapping methods with same-bytes/"
        "different-shape and same-shape/different-dtype arguments, affine lazy attributes, element finder / KD-tree reuse, "
        "element_dofs with and without subset, assembly, point evaluation, solver closures reused across systems of different "
        "size and per-call keywords, mesh transformations / tagging / refinement / algebra / conversion / save-load, "
        "boundary-condition helpers, pooled Form objects reading w.x/w.h/w.n/keywords on cell and facet bases, facet maps "
        "G/detDG/normals, facet bases, get_dofs and DofsView algebra, projection, derived meshes kept in the pool incl. "
        "second-order/DG/wedge, caller buffers refilled in place, generated forms applying every function of skfem.helpers "
        "to stored basis functions / kept coefficient fields / cached w.x, w.n of vector, mixed, H(div), H(curl), scalar and "
        "global elements followed by another form or interpolate on the same basis) over a shared object pool, each step compared with a "
        "fresh replay and, for a sample, with a replay in a process that executed nothing else; focused programs over "
        "1-3 meshes; distinct key = (operation, cache touched, warm/cold); "
        "non-trivial iff the pooled object had been used before with different arguments")
ASSUMPTIONS = [
    "a process forked from a server that has only imported numpy/scipy/skfem and the harness modules is a fresh "
    "interpreter as far as executed operations are concerned (it has executed none)",
    "tables an element object fills lazily (empty or None right after construction) may be replaced by the element; "
    "the arrays that are non-empty at construction and class-level arrays are operands and must stay unchanged",
    "the linear systems A, b handed to solvers stay writable in the read-only programs (SciPy kernels require it)",
    "mesh surgery on second-order and DG meshes is not exercised here (wrong but history-independent results are "
    "the subject of C18)",
]
TRACK = ["skfem.generic_utils:hash_args", "skfem.mapping.mapping_isoparametric:MappingIsoparametric.J",
         "skfem.element.element_global:ElementGlobal.gbasis", "skfem.element.element_line.element_line_pp:ElementLinePp.lbasis",
         "skfem.element.element_quad.element_quadp:ElementQuadP.lbasis", "skfem.utils:solver_iter_krylov",
         "skfem.utils:solver_direct_scipy", "skfem.utils:solver_eigen_scipy_sym", "skfem.mesh.mesh:Mesh.refined",
         "skfem.mesh.mesh:Mesh._mapping"]
REQUIRED_MONITORS = ["pooled-equals-fresh", "operands-unchanged", "retained-object-unchanged-by-later-use"]
REQUIRED_REACH = ["warm:element-on-second-mesh", "warm:global-element-on-second-mesh", "warm:global-element-on-transformed-copy", "warm:lbasis-same-count-other-points",
                  "warm:jacobian-cache-same-bytes-other-shape", "warm:jacobian-cache-other-dtype", "warm:kd-tree",
                  "warm:solver-closure-other-size", "warm:solver-closure-per-call-kwargs", "warm:affine-lazy",
                  "warm:basis-reused", "readonly-pass", "retained-basis-reread", "retained:lbasis-other-points",
                  "retained:refinterp", "retained:second-basis-same-length-rule", "composite-basis-components-reused",
                  "fresh-interpreter-reference",
                  "warm:form-object-on-other-basis", "warm:basis-default-parameters-reread",
                  "warm:facet-form-reads-normals", "form:assemble", "form:asm-list", "form:elemental", "form:partial",
                  "form:block",
                  "warm:facet-map-other-facet-set", "warm:facet-map-other-facet-set-of-equal-length",
                  "warm:facet-basis-element-reused",
                  "facet-map:MappingAffine:G", "facet-map:MappingAffine:detDG", "facet-map:MappingAffine:normals",
                  "facet-map:MappingIsoparametric:G", "facet-map:MappingIsoparametric:detDG",
                  "facet-map:MappingIsoparametric:normals",
                  "derived-mesh-kept-in-pool:order2", "derived-mesh-kept-in-pool:first-order",
                  "op-on-derived-mesh:order2", "op-on-derived-mesh:first-order",
                  "fresh-process-reference", "fresh-process-reference:form", "fresh-process-reference:basis",
                  "fresh-process-reference:global", "fresh-process-reference:lbasis", "fresh-process-reference:mapping",
                  "fresh-process-reference:transform", "fresh-process-reference:asm", "fresh-process-reference:solve",
                  "fresh-process-reference:mapping-facet", "fresh-process-reference:facet-basis",
                  "catalogue:mesh:morphed", "catalogue:mesh:add", "catalogue:mesh:add-touching", "catalogue:mesh:matmul", "catalogue:mesh:mul", "catalogue:mesh:to_simplex", "catalogue:mesh:remove_duplicate_nodes", "catalogue:mesh:remove_unused_nodes", "catalogue:mesh:trace", "catalogue:mesh:with_defaults", "catalogue:mesh:save-load", "catalogue:mesh:save-load-npz", "catalogue:mesh:from_dict", "catalogue:mesh:copy", "catalogue:mesh:edges", "catalogue:mesh:f2e", "catalogue:mesh:boundary_edges", "catalogue:mesh:p2f", "catalogue:mesh:p2e", "catalogue:mesh:satisfying", "catalogue:bc:solve-pooled-direct", "catalogue:bc:solve-pooled-pcg", "catalogue:bc:condense-matrix", "catalogue:bc:condense-I", "catalogue:bc:condense-csc", "catalogue:bc:condense-complex", "catalogue:bc:enforce-matrix", "catalogue:bc:solve-eigen-expand", "catalogue:dofs", "catalogue:project", "eig:solver_eigen_scipy", "warm:same-buffer-refilled-in-place:lbasis", "warm:same-buffer-refilled-in-place:mapping",
                  "operand:pooled-basis-arrays", "caller-array:quadrature", "caller-array:X", "caller-array:x,y",
                  "caller-array:adaptive", "caller-array:restrict", "caller-array:remove_elements",
                  "caller-array:with_boundaries-array", "caller-array:with_subdomains-array",
                  "operand:composite-component-basis-arrays",
                  # forms written with skfem.helpers (family helper-programs); the helper:* points are appended below
                  "helper-catalogue-covers-skfem.helpers", "operand:coefficient-field-arrays",
                  "caller-array:coefficient-matrix-field", "fresh-process-reference:hform", "hform:on-facet-basis",
                  "warm:other-helper-form-after-helper-form-on-the-same-basis",
                  "warm:interpolate-after-helper-form-on-the-same-basis",
                  "hform:bil-unary", "hform:bil-binary", "hform:lin", "hform:fun", "hform:interp", "hform:model",
                  "hform:coef-F", "hform:jump", "hform:class:vec", "hform:class:mixed", "hform:class:scalar",
                  "hform:class:hdiv", "hform:class:hcurl", "hform:class:global"]


# ------------------------------------------------------------------ helpers
def digest(a):
    a = np.ascontiguousarray(a)
    return hashlib.blake2b(a.tobytes(), digest_size=12).hexdigest() + str(a.shape) + str(a.dtype)


def arrays_of(obj, depth=0):
    """(name, ndarray) for the array-valued state of an operand (mesh, matrix, vector, dict of arrays)."""
    import scipy.sparse as sp
    out = []
    if isinstance(obj, Held):
        out += [(n, a) for n, a in obj.arrays.items()]
    elif isinstance(obj, np.ndarray):
        out.append(("", obj))
        if hasattr(obj, "ori") and obj.ori is not None:
            out.append((".ori", obj.ori))
    elif sp.issparse(obj):
        for nm in ("data", "indices", "indptr", "row", "col"):
            if hasattr(obj, nm):
                out.append(("." + nm, getattr(obj, nm)))
    elif isinstance(obj, dict):
        for k, v in obj.items():
            out += [(f"[{k}]{n}", a) for n, a in arrays_of(v, depth + 1)]
    elif hasattr(obj, "__dict__") and depth < 2:
        for k, v in vars(obj).items():
            if isinstance(v, (np.ndarray, dict)) or sp.issparse(v):
                out += [(f".{k}{n}", a) for n, a in arrays_of(v, depth + 1)]
    return out


def snapshot(objs):
    snap = {}
    for i, o in enumerate(objs):
        for n, a in arrays_of(o):
            snap[(i, n)] = digest(a)
    return snap


def changed(before, objs):
    after = snapshot(objs)
    return [k for k, v in before.items() if k in after and after[k] != v] + \
           [k for k in before if k not in after]


_EXTRA = ("grad", "div", "curl", "hess", "grad3", "grad4", "grad5", "grad6")
_SKIP_KEYS = ("mesh", "topo", "elem", "element", "bndelem", "refdom", "brefdom", "elems", "_V_mesh")


def deep_arrays(obj, prefix="", depth=0, seen=None):
    """name -> ndarray for every array reachable from a library object (basis, mapping, DOF object) WITHOUT
    triggering a lazy computation: instance attributes only, nested skfem objects / lists / tuples / dicts
    followed; the mesh and the element object are left out (they are snapshotted on their own)."""
    import scipy.sparse as sp
    out = {}
    seen = set() if seen is None else seen
    if obj is None or depth > 5 or (id(obj) in seen and not isinstance(obj, np.ndarray)):
        return out
    seen.add(id(obj))
    if isinstance(obj, np.ndarray):
        if obj.dtype != object:
            out[prefix] = obj
        for nm in _EXTRA:
            a = obj.__dict__.get(nm) if hasattr(obj, "__dict__") else None
            if isinstance(a, np.ndarray):
                out[prefix + "." + nm] = a
        ori = getattr(obj, "ori", None)
        if isinstance(ori, np.ndarray):
            out[prefix + ".ori"] = ori
        return out
    if sp.issparse(obj):
        for nm in ("data", "indices", "indptr", "row", "col"):
            if hasattr(obj, nm):
                out[prefix + "." + nm] = getattr(obj, nm)
        return out
    if isinstance(obj, dict):
        for k, v in obj.items():
            out.update(deep_arrays(v, f"{prefix}[{k}]", depth + 1, seen))
        return out
    if isinstance(obj, (list, tuple)):
        for i, v in enumerate(obj):
            out.update(deep_arrays(v, f"{prefix}[{i}]", depth + 1, seen))
        return out
    if hasattr(obj, "__dict__") and type(obj).__module__.startswith("skfem"):
        for k, v in vars(obj).items():
            if k in _SKIP_KEYS:
                continue
            if isinstance(v, (np.ndarray, dict, list, tuple)) or sp.issparse(v) or \
                    (hasattr(v, "__dict__") and type(v).__module__.startswith("skfem")):
                out.update(deep_arrays(v, f"{prefix}.{k}", depth + 1, seen))
    return out


def element_static_arrays(e):
    """The *defining* arrays of an element object: class-level arrays (process-wide!) and the instance arrays that
    are non-empty right after construction.  Tables an element fills lazily (Legendre tables, inverse Vandermonde
    matrices) start empty/None, are the element's private business and legitimately get replaced."""
    out = {}
    for klass in type(e).__mro__:
        if klass.__module__.startswith("skfem"):
            for k, v in vars(klass).items():
                if isinstance(v, np.ndarray) and v.dtype != object:
                    out.setdefault("class." + k, v)
    for k, v in vars(e).items():
        if isinstance(v, np.ndarray) and v.size > 0 and v.dtype != object:
            out["." + k] = v
    for j, sub in enumerate(getattr(e, "elems", None) or ([e.elem] if hasattr(e, "elem") and hasattr(e.elem, "lbasis")
                                                         else [])):
        for k, v in element_static_arrays(sub).items():
            out[f".sub{j}{k}"] = v
    return out


class Held:
    """A fixed dict of arrays that is an operand (snapshot()/changed() see its entries by name)."""

    def __init__(self, arrays):
        self.arrays = dict(arrays)


class Caller:
    """Arrays the *caller* creates and hands to the library (DOF vectors, point sets, index arrays, tag arrays,
    quadrature rules): checksummed before the call and after it; in the read-only programs they are read-only, so
    a write into them raises instead of going unnoticed."""

    def __init__(self, env):
        self.env = env
        self.items = []

    def __call__(self, name, a, readonly=True):
        a = np.array(a)
        self.items.append((name, a, digest(a)))
        if readonly and self.env.pooled and self.env.readonly:
            a.flags.writeable = False
        return a

    def mutated(self):
        return [n for n, a, d in self.items if digest(a) != d]


def freeze(arrays):
    for a in arrays.values():
        try:
            if a.flags.owndata or a.base is not None:
                a.flags.writeable = False
        except ValueError:
            pass


def flat_result(r):
    """Normalise an operation result to a list of ndarrays."""
    import scipy.sparse as sp
    if r is None:
        return []
    if isinstance(r, np.ndarray) and r.dtype == object:
        # (np.asarray(None) and friends: the bytes of an object array are addresses, meaningless across processes)
        return [np.frombuffer(repr(r.tolist()).encode(), dtype=np.uint8)]
    if isinstance(r, np.ndarray):
        out = [np.asarray(r)]
        if getattr(r, "ori", None) is not None:
            out.append(np.asarray(r.ori))
        return out
    if sp.issparse(r):
        c = r.tocsr().copy()
        c.sum_duplicates()
        c.sort_indices()
        return [c.data, c.indices, c.indptr, np.array(c.shape)]
    if isinstance(r, (int, float, complex, np.number, bool)):
        return [np.asarray(r)]
    if isinstance(r, str):
        return [np.frombuffer(r.encode(), dtype=np.uint8)]
    if isinstance(r, dict):
        out = []
        for k in sorted(r, key=str):
            out += [np.frombuffer(str(k).encode(), dtype=np.uint8)] + flat_result(r[k])
        return out
    if isinstance(r, (list, tuple)):
        out = []
        for x in r:
            out += flat_result(x)
        return out
    if type(r).__name__ == "COOData":
        return [np.asarray(r.indices), np.asarray(r.data), np.array([int(v) for v in r.shape], dtype=np.int64)]
    if hasattr(r, "p") and hasattr(r, "t"):  # a mesh
        return flat_result([np.asarray(r.p), np.asarray(r.t), r.boundaries or {}, r.subdomains or {},
                            type(r).__name__])
    return [np.frombuffer(repr(r).encode(), dtype=np.uint8)]


def compare(ctx, a, b):
    """Returns ('bitwise' | 'close' | 'different', detail)."""
    fa, fb = flat_result(a), flat_result(b)
    if len(fa) != len(fb):
        return "different", f"result structure {len(fa)} vs {len(fb)}"
    verdict = "bitwise"
    for i, (x, y) in enumerate(zip(fa, fb)):
        if x.shape != y.shape:
            return "different", f"part {i}: shape {x.shape} vs {y.shape}"
        if x.dtype != y.dtype and (x.dtype.kind not in "iuf" or y.dtype.kind not in "iuf"):
            return "different", f"part {i}: dtype {x.dtype} vs {y.dtype}"
        if x.tobytes() == y.tobytes():
            continue
        if x.dtype.kind in "fc" and y.dtype.kind in "fc":
            sc = max(float(np.abs(y).max()) if y.size else 0.0, 1e-300)
            err = float(np.abs(x - y).max()) if x.size else 0.0
            if np.isfinite(err) and err <= 1e-13 * sc:
                verdict = "close"
                continue
            return "different", f"part {i}: max|diff|={err:.3e} scale={sc:.3e}"
        if np.array_equal(x, y):
            continue
        return "different", f"part {i}: integer/bytes content differs"
    return verdict, ""


# --------------------------------------------------------------- environments
class Specs:
    """Primitive, immutable descriptions from which both environments build objects."""

    def __init__(self, ctx, rng):
        import skfem
        self.meshes = {}
        self.derived_max = ctx.scale(3, 5)
        kinds = ["line", "tri", "tri", "quad", "quad", "tet", "hex", "wedge"]
        for i, kind in enumerate(kinds):
            mc = G.first_order(rng, kind)
            tries = 0
            while mc.mesh.t.shape[1] > 40 and tries < 8:
                tries += 1
                mc = G.first_order(ctx.rng("mesh", i, tries), kind)
            m = mc.mesh
            nt, nf = m.t.shape[1], m.facets.shape[1]
            self.meshes[f"{kind}{i}"] = dict(
                kind=kind, cls=type(m), p=np.array(m.p), t=np.array(m.t),
                sub={"s": np.sort(rng.choice(nt, size=max(1, nt // 3), replace=False)).astype(np.int32)},
                bnd={"b": np.sort(rng.choice(nf, size=max(1, nf // 4), replace=False)).astype(np.int32)},
                affine=mc.affine_cells)
        # unit-scale axis-parallel meshes with *equal cell counts* for globally defined elements
        for i, kind in enumerate(["tri", "tri", "quad", "quad", "line", "line"]):
            from .c09 import wellshaped
            mc = wellshaped(ctx.rng("ws", i), kind, True)
            m = mc.mesh
            self.meshes[f"ws-{kind}{i}"] = dict(kind=kind, cls=type(m), p=np.array(m.p), t=np.array(m.t), sub={}, bnd={},
                                                 affine=True, unit=True)
        self.points = {}
        for kind in ("line", "tri", "quad", "tet", "hex", "wedge"):
            for n in (1, 1, 4, 4):
                self.points.setdefault(kind, []).append(GEO.random_ref_points(rng, kind, n))
        # linear systems of different sizes (SPD)
        self.systems = []
        for n in (3, 7):
            m = skfem.MeshTri().refined(1 if n == 3 else 2)
            b = skfem.Basis(m, skfem.ElementTriP1())
            from skfem.models.poisson import laplace, mass, unit_load
            A = (laplace.assemble(b) + mass.assemble(b)).tocsr()
            self.systems.append((A, unit_load.assemble(b), mass.assemble(b).tocsr()))


class Env:
    def __init__(self, specs, pooled, readonly=False):
        self.specs = specs
        self.pooled = pooled
        self.readonly = readonly
        self._mesh = {}
        self._elem = {}
        self._basis = {}
        self._solver = {}
        self._form = {}
        self._elem_static = {}
        self._buffers = {}
        self._coef = {}
        self.used = {}      # object key -> set of argument fingerprints seen (pool only)

    def mesh(self, mid):
        if self.pooled and mid in self._mesh:
            return self._mesh[mid]
        s = self.specs.meshes[mid]
        if s.get("derived"):
            # a derived mesh: rebuilt from the recorded chain of operations (the pooled one shares arrays with its
            # pooled ancestors exactly as the library left them, the fresh one is derived from fresh ancestors)
            parent, what = s["derived"]
            m = apply_derive(self.mesh(parent), what)
            if self.pooled:
                if self.readonly:
                    for a in [m.doflocs, m.t] + list((m._subdomains or {}).values()) + list((m._boundaries or {}).values()):
                        if isinstance(a, np.ndarray):
                            a.flags.writeable = False
                self._mesh[mid] = m
            return m
        p, t = s["p"].copy(), s["t"].copy()
        m = s["cls"](p, t)
        if s["sub"] or s["bnd"]:
            m = m.with_subdomains({k: v.copy() for k, v in s["sub"].items()}) \
                 .with_boundaries({k: v.copy() for k, v in s["bnd"].items()})
        if self.pooled:
            if self.readonly:
                for a in (m.doflocs, m.t):
                    a.flags.writeable = False
                for dct in (m._subdomains or {}, m._boundaries or {}):
                    for a in dct.values():
                        a.flags.writeable = False
            self._mesh[mid] = m
        return m

    def elem(self, name):
        if self.pooled and name in self._elem:
            return self._elem[name]
        e = make_elem(name)
        if self.pooled:
            self._elem[name] = e
            # which arrays define the element is decided now, right after construction (see element_static_arrays)
            self._elem_static[id(e)] = set(element_static_arrays(e))
            if self.readonly:
                freeze({k: v for k, v in element_static_arrays(e).items() if not k.startswith("class.")})
        return e

    def elem_operands(self, e):
        names = self._elem_static.get(id(e))
        arrs = element_static_arrays(e)
        return [Held({k: v for k, v in arrs.items() if names is None or k in names})]

    def basis(self, mid, ename):
        import skfem
        key = (mid, ename)
        if self.pooled and key in self._basis:
            return self._basis[key]
        b = skfem.CellBasis(self.mesh(mid), self.elem(ename))
        if self.pooled:
            if self.readonly:
                freeze(deep_arrays(b))
            self._basis[key] = b
        return b

    def fbasis(self, mid, ename):
        """Boundary FacetBasis of a pooled mesh and a pooled element object."""
        import skfem
        key = ("facet", mid, ename)
        if self.pooled and key in self._basis:
            return self._basis[key]
        b = skfem.FacetBasis(self.mesh(mid), self.elem(ename))
        if self.pooled:
            if self.readonly:
                freeze(deep_arrays(b))
            self._basis[key] = b
        return b

    def ibasis(self, mid, ename, side):
        """InteriorFacetBasis (one side) of a pooled mesh and a pooled element object."""
        import skfem
        key = ("interior", mid, ename, side)
        if self.pooled and key in self._basis:
            return self._basis[key]
        b = skfem.InteriorFacetBasis(self.mesh(mid), self.elem(ename), side=side)
        if self.pooled:
            if self.readonly:
                freeze(deep_arrays(b))
            self._basis[key] = b
        return b

    def coef(self, a):
        """A coefficient field (DiscreteField, or a tuple of them for a composite element) the caller obtained from
        interpolate() and KEEPS: the same object is handed to later assemblies."""
        key = (a["where"], a["mid"], a["ename"], a["kseed"])
        if self.pooled and key in self._coef:
            return self._coef[key]
        b = _hbasis(self, a)
        k = b.interpolate(np.random.default_rng(300 + a["kseed"]).integers(-8, 9, size=b.N) / 8)
        if self.pooled:
            if self.readonly:
                freeze(deep_arrays(k, "k"))
            self._coef[key] = k
        return k

    def sub_basis(self, mid, ename):
        """The pooled cell basis restricted to the subdomain 's' of the mesh (its own long-lived object)."""
        key = ("sub", mid, ename)
        if self.pooled and key in self._basis:
            return self._basis[key]
        S = self.specs.meshes[mid]["sub"]["s"].copy()
        b = self.basis(mid, ename).with_elements(S)
        if self.pooled:
            if self.readonly:
                freeze(deep_arrays(b))
            self._basis[key] = b
        return b

    def buffer(self, key, values):
        """A buffer the caller owns and refills in place between calls (same object, same address, new content):
        what a time loop does with its point array.  Returns (buffer, reused-with-other-content)."""
        values = np.asarray(values)
        if not self.pooled:
            return np.array(values), False
        buf = self._buffers.get(key)
        if buf is None or buf.shape != values.shape or buf.dtype != values.dtype:
            self._buffers[key] = buf = np.array(values)
            return buf, False
        other = not np.array_equal(buf, values)
        buf[...] = values
        return buf, other

    def form(self, name):
        if self.pooled and name in self._form:
            return self._form[name]
        f = FORMS[name]()
        if self.pooled:
            self._form[name] = f
        return f

    def basis_operands(self, b):
        """What a call that only *uses* a basis must leave bit-for-bit unchanged: every array reachable from the basis
        (tabulated basis functions, dx, X, W, DOF tables, cached global coordinates / mesh parameters / restricted
        DOF table, the arrays of its mapping object incl. cached Jacobians) and the defining arrays of its element."""
        return [Held(deep_arrays(b))] + self.elem_operands(b.elem)

    def solver(self, name, **kw):
        import skfem.utils as U
        key = (name, tuple(sorted(kw.items())))
        if self.pooled and key in self._solver:
            return self._solver[key]
        s = getattr(U, name)(**kw)
        if self.pooled:
            self._solver[key] = s
        return s

    def note(self, key, fingerprint):
        """Returns True if `key` was used before with a *different* fingerprint (warm & non-trivial)."""
        seen = self.used.setdefault(key, set())
        warm = bool(seen - {fingerprint})
        seen.add(fingerprint)
        return warm


ORDER2 = {"tri": "MeshTri2", "quad": "MeshQuad2", "tet": "MeshTet2", "hex": "MeshHex2"}
DGCLS = {"tri": "MeshTri1DG", "quad": "MeshQuad1DG", "line": "MeshLine1DG", "hex": "MeshHex1DG"}
SURGERY = ("refined", "adaptive", "mirrored", "restrict", "remove_elements", "smoothed", "oriented", "morphed", "add",
           "add-touching", "matmul", "mul", "to_simplex", "remove_duplicate_nodes", "remove_unused_nodes", "trace",
           "save-load", "save-load-npz", "from_dict")


def apply_derive(m, what):
    import skfem
    d = m.p.shape[0]
    if what == "translated":
        return m.translated(tuple([0.25] * d))
    if what == "scaled":
        return m.scaled(tuple([1.5] * d)) if d > 1 else m.scaled(1.5)
    if what == "with_boundaries":
        return m.with_boundaries({"new": lambda x: x[0] < np.median(x[0])})
    if what == "with_subdomains":
        return m.with_subdomains({"new": lambda x: x[0] < np.median(x[0])})
    if what == "refined":
        return m.refined(1)
    if what.startswith("order2:"):
        return getattr(skfem, what.split(":")[1]).from_mesh(m)
    if what.startswith("dg:"):
        return getattr(skfem, what.split(":")[1]).from_mesh(m)
    raise ValueError(what)


def ancestors(specs, mid):
    out = []
    while specs.meshes[mid].get("derived"):
        mid = specs.meshes[mid]["derived"][0]
        out.append(mid)
    return out


def op_derive(rng, specs):
    """A new pooled mesh derived from a pooled one (kept under a generated id and operated on further)."""
    nder = sum(1 for v in specs.meshes.values() if v.get("derived"))
    if nder >= specs.derived_max:
        return dict(full=True)
    cands = [i for i in _mesh_ids(specs, unit=False) if len(ancestors(specs, i)) < 2]
    parent = str(rng.choice(cands))
    sp_ = specs.meshes[parent]
    kind = sp_["kind"]
    opts = ["translated", "scaled", "with_boundaries", "with_subdomains"]
    if not sp_.get("order2") and not sp_.get("dg"):
        if kind in ORDER2:
            opts += ["order2:" + ORDER2[kind]] * 3
        if kind in DGCLS:
            opts += ["dg:" + DGCLS[kind]]
        if sp_["t"].shape[1] <= 12:
            opts += ["refined"]
    what = str(rng.choice(opts))
    return dict(parent=parent, what=what, did=f"{parent}>{what.split(':')[0]}#{nder}")


def run_derive(env, a):
    if a.get("full"):
        raise Skip("derived-pool-full")
    specs = env.specs
    parent = env.mesh(a["parent"])
    out = apply_derive(parent, a["what"])
    sp_ = specs.meshes[a["parent"]]
    if not env.pooled and a["did"] not in specs.meshes:
        # (the fresh replay runs first) register the primitive description both environments build from
        o2, dg = a["what"].startswith("order2:") or bool(sp_.get("order2")), a["what"].startswith("dg:") or bool(sp_.get("dg"))
        first = not (o2 or dg)
        specs.meshes[a["did"]] = dict(
            kind=sp_["kind"], cls=type(out), derived=(a["parent"], a["what"]), order2=o2, dg=dg,
            p=np.array(out.p) if first else sp_["p"], t=np.array(out.t) if first else sp_["t"],
            sub={k: np.array(v) for k, v in (out.subdomains or {}).items()},
            bnd={k: np.array(v) for k, v in (out.boundaries or {}).items()},
            affine=bool(sp_["affine"]) and first)
    if env.pooled and a["did"] in specs.meshes:
        if env.readonly:
            for arr in [out.doflocs, out.t] + list((out._subdomains or {}).values()) + list((out._boundaries or {}).values()):
                if isinstance(arr, np.ndarray):
                    arr.flags.writeable = False
        env._mesh[a["did"]] = out
    kindflag = "order2" if a["what"].startswith("order2:") else ("dg" if a["what"].startswith("dg:") else "first-order")
    return out, [parent], {"derived-mesh-kept-in-pool:" + kindflag: True}, ("derive:" + a["what"], "aliasing", False)


ELEMS_BY_KIND = {
    "line": ["ElementLineP1", "ElementLineP2", "ElementLinePp(3)", "ElementLinePp(5)", "ElementLineMini"],
    "tri": ["ElementTriP1", "ElementTriP2", "ElementTriRT1", "ElementTriN1", "ElementTriP1B", "ElementTriCR"],
    "quad": ["ElementQuad1", "ElementQuad2", "ElementQuadP(3)", "ElementQuadP(4)", "ElementQuadRT1"],
    "tet": ["ElementTetP1", "ElementTetP2", "ElementTetRT1", "ElementTetN1"],
    "hex": ["ElementHex1", "ElementHex2", "ElementHexRT1"],
    "wedge": ["ElementWedge1"],
}
GLOBAL_BY_KIND = {
    "line": ["ElementLineHermite"],
    "tri": ["ElementTriMorley", "ElementTriArgyris", "ElementTriHermite", "ElementTriP2G", "ElementTri15ParamPlate"],
    "quad": ["ElementQuadBFS", "ElementQuad2G"],
}


# ------------------------------------------------------------------ operations
# each op: (name, argument sampler(rng, specs) -> args dict, run(env, args) -> (result, operands, warm flags))

def _mesh_ids(specs, kinds=None, unit=None):
    return [k for k, s in specs.meshes.items() if (kinds is None or s["kind"] in kinds)
            and (unit is None or bool(s.get("unit")) == unit)]


def op_basis(rng, specs):
    mid = str(rng.choice(_mesh_ids(specs, unit=False)))
    kind = specs.meshes[mid]["kind"]
    return dict(mid=mid, ename=str(rng.choice(ELEMS_BY_KIND[kind])), quad=bool(rng.random() < 0.25))


def pre_elem(env, a):
    return env.elem_operands(env.elem(a["ename"]))


def run_basis(env, a):
    import skfem
    m, e = env.mesh(a["mid"]), env.elem(a["ename"])
    c = Caller(env)
    if a.get("quad"):
        # a caller-supplied quadrature rule: the basis stores it, it must not write into it
        kind = env.specs.meshes[a["mid"]]["kind"]
        X = c("quadrature-X", env.specs.points[kind][-1])
        W = c("quadrature-W", np.full(X.shape[1], 0.125))
        b = skfem.CellBasis(m, e, quadrature=(X, W))
    else:
        b = skfem.CellBasis(m, e)
    warm = env.note(("elem", a["ename"]), a["mid"])
    res = [np.array(b.basis[0][0]), np.array(b.basis[-1][0]), b.dx, np.asarray(b.element_dofs)]
    g = b.basis[-1][0].grad
    if g is not None:
        res.append(g)
    return res, [m], {"warm:element-on-second-mesh": warm, "__mutated__": c.mutated(),
                      "caller-array:quadrature": bool(a.get("quad"))}, ("basis", "element-object", warm)


def op_global(rng, specs):
    kind = str(rng.choice(["tri", "tri", "quad", "line"]))
    mid = str(rng.choice(_mesh_ids(specs, kinds=[kind], unit=True)))
    return dict(mid=mid, ename=str(rng.choice(GLOBAL_BY_KIND[kind])),
                derived=str(rng.choice(["none", "none", "scaled", "translated"])))


def run_global(env, a):
    import skfem
    m, e = env.mesh(a["mid"]), env.elem(a["ename"])
    d = m.p.shape[0]
    if a["derived"] == "scaled":
        # a transformed copy shares the connectivity array with the pooled mesh
        m = m.scaled(tuple([1.5] * d)) if d > 1 else m.scaled(1.5)
    elif a["derived"] == "translated":
        m = m.translated(tuple([0.25] * d))
    b = skfem.CellBasis(m, e)
    warm = env.note(("elem", a["ename"]), (a["mid"], a["derived"]))
    if warm and a["derived"] != "none":
        env.used.setdefault("__flags__", set()).add("warm:global-element-on-transformed-copy")
    res = [np.array(b.basis[0][0]), np.array(b.basis[-1][0]), b.basis[-1][0].grad, b.dx]
    return res, [m], {"warm:global-element-on-second-mesh": warm,
                      "warm:global-element-on-transformed-copy": warm and a["derived"] != "none"}, \
        ("basis-global", "ElementGlobal.V", warm)


def op_lbasis(rng, specs):
    kind = str(rng.choice(getattr(specs, "lbasis_kinds", None) or ["line", "quad", "tri", "line", "quad"]))
    ename = str(rng.choice(ELEMS_BY_KIND[kind][:getattr(specs, "lbasis_nelems", None)]))
    return dict(kind=kind, ename=ename, pts=int(rng.integers(len(specs.points[kind]))), i=int(rng.integers(0, 3)),
                inplace=bool(rng.random() < getattr(specs, "inplace_bias", 0.4)))


def run_lbasis(env, a):
    e = env.elem(a["ename"])
    c = Caller(env)
    refilled = False
    if a.get("inplace"):
        X, refilled = env.buffer(("lbasis-X", a["kind"]), env.specs.points[a["kind"]][a["pts"]])
        d0 = digest(X)
    else:
        X = c("X", env.specs.points[a["kind"]][a["pts"]])
    phi, dphi = e.lbasis(X, a["i"])
    warm = env.note(("lbasis", a["ename"], X.shape[1]), a["pts"])
    mut = c.mutated() + (["X(in-place buffer)"] if a.get("inplace") and digest(X) != d0 else [])
    return [np.array(phi) + 0 * X[0], np.array(dphi)], [], {"warm:lbasis-same-count-other-points": warm,
                                                            "warm:same-buffer-refilled-in-place:lbasis": refilled and warm,
                                                            "__mutated__": mut, "caller-array:X": True}, \
        ("lbasis", "tables", warm)


def op_mapping(rng, specs):
    mid = str(rng.choice(_mesh_ids(specs, kinds=["tri", "quad", "tet", "hex", "wedge"], unit=False)))
    return dict(mid=mid, meth=str(rng.choice(["F", "DF", "invDF", "detDF", "invF"])),
                xvar=str(rng.choice(getattr(specs, "mapping_xvars", None) or ["shared", "percell", "percell-1pt", "shared-1pt", "shared-square", "shared-square-fortran",
                                                                                       "shared-square", "shared-square-fortran"])),
                tvar=str(rng.choice(getattr(specs, "mapping_tvars", None) or ["int32-two", "int64-one", "int32-one", "none"])),
                iso=bool(rng.random() < 0.7), inplace=bool(rng.random() < getattr(specs, "inplace_bias", 0.35)),
                shift=int(rng.integers(3)))


def run_mapping(env, a):
    from skfem.mapping import MappingIsoparametric, MappingAffine
    m = env.mesh(a["mid"])
    s = env.specs.meshes[a["mid"]]
    kind = s["kind"]
    d = GEO.REFDIM[kind]
    if env.pooled:
        key = ("mapping", a["mid"], a["iso"])
        mp = env._basis.get(key)
        if mp is None:
            mp = MappingIsoparametric(m, m.elem(), m.bndelem) if (a["iso"] or not s["affine"] or s["kind"] not in ("line", "tri", "tet")) else MappingAffine(m)
            env._basis[key] = mp
    else:
        mp = MappingIsoparametric(m, m.elem(), m.bndelem) if (a["iso"] or not s["affine"] or s["kind"] not in ("line", "tri", "tet")) else MappingAffine(m)
    # point sets with the *same bytes* but different shapes: (d, 2, 1) per-cell vs (d, 2) shared
    base = np.linspace(0.15, 0.35, 2 * d).reshape(d, 2)
    tv = {"int32-two": np.array([1, 0], dtype=np.int32), "int64-one": np.array([1], dtype=np.int64),
          "int32-one": np.array([1], dtype=np.int32), "none": None}[a["tvar"]]
    nc = m.t.shape[1] if tv is None else len(tv)
    square = a["xvar"].startswith("shared-square")
    if square:
        # point sets of the same shape (d, d) and the same BYTES in memory, one C-ordered, the other Fortran-ordered (its
        # values are the transposed ones): d different points each
        Sq = np.linspace(0.1, 0.3, d * d).reshape(d, d)
        Xp = Sq.copy() if a["xvar"] == "shared-square" else np.asfortranarray(Sq.T)
        a = dict(a, inplace=False)
    elif a["xvar"] == "shared":
        Xp = base.copy()
    elif a["xvar"] == "shared-1pt":
        Xp = base[:, :1].copy()
    elif a["xvar"] == "percell-1pt":
        Xp = np.repeat(base[:, :1, None], nc, axis=1).copy() if nc != 2 else base.reshape(d, 2, 1).copy()
    else:
        Xp = np.repeat(base[:, None, :], nc, axis=1).copy()
    c = Caller(env)
    refilled = False
    if a.get("inplace"):
        # the same point buffer refilled in place (another content at the same address, same shape)
        Xp, refilled = env.buffer(("mapping-X", a["mid"], Xp.shape), Xp + 0.0625 * a.get("shift", 0))
        d0 = digest(Xp)
        if tv is not None:
            tv = env.buffer(("mapping-tind", a["mid"], a["tvar"]), tv)[0]     # (the caller's index buffer, too)
    else:
        Xp = c("X", Xp)
    if tv is not None and not a.get("inplace"):
        tv = c("tind", tv)
    if a["meth"] == "invF":
        x = c("x", mp.F(Xp, tv))
        out = mp.invF(x, tv)
    else:
        out = getattr(mp, a["meth"])(Xp, tv)
    fp = (a["xvar"], a["tvar"])
    warm = env.note(("mapping", a["mid"], a["iso"]), fp)
    flags = {}
    if type(mp).__name__ == "MappingIsoparametric":
        seen = env.used[("mapping", a["mid"], a["iso"])]
        if warm and any(x[0] != a["xvar"] for x in seen if len(x) == 2):
            flags["warm:jacobian-cache-same-bytes-other-shape"] = True
        if warm and square and any(x[0] != a["xvar"] and str(x[0]).startswith("shared-square") for x in seen if len(x) == 2):
            flags["warm:jacobian-cache-same-bytes-other-memory-order"] = True
        if warm and any(x[1] != a["tvar"] for x in seen if len(x) == 2):
            flags["warm:jacobian-cache-other-dtype"] = True
    else:
        flags["warm:affine-lazy"] = warm
    flags["__mutated__"] = c.mutated() + (["X(in-place buffer)"] if a.get("inplace") and digest(Xp) != d0 else [])
    flags["warm:same-buffer-refilled-in-place:mapping"] = refilled
    return [np.asarray(out)], [m], flags, ("mapping:" + a["meth"], type(mp).__name__, warm)


def op_finder(rng, specs):
    mid = str(rng.choice(_mesh_ids(specs, unit=False)))
    return dict(mid=mid, seed=int(rng.integers(4)))


def run_finder(env, a):
    m = env.mesh(a["mid"])
    s = env.specs.meshes[a["mid"]]
    r = np.random.default_rng(a["seed"])
    cells = r.integers(0, m.t.shape[1], size=3)
    X = GEO.random_ref_points(r, s["kind"], 3)
    x = np.stack([GEO.map_points(s["kind"], s["p"], s["t"], X[:, j:j + 1], np.array([cells[j]]))[:, 0, 0] for j in range(3)], axis=1)
    c = Caller(env)
    x = c("x", x)
    out = m.element_finder()(*x)
    warm = env.note(("finder", a["mid"]), a["seed"])
    return [np.asarray(out)], [m], {"warm:kd-tree": warm, "__mutated__": c.mutated()}, ("finder", "kd-tree", warm)


def op_asm(rng, specs):
    mid = str(rng.choice(_mesh_ids(specs, unit=False)))
    kind = specs.meshes[mid]["kind"]
    return dict(mid=mid, ename=str(rng.choice(ELEMS_BY_KIND[kind])), what=str(rng.choice(["mass", "elemdofs", "interp", "subset"])),
                seed=int(rng.integers(3)))


def run_asm(env, a):
    import skfem
    from .c04 import generic_mass
    b = env.basis(a["mid"], a["ename"])
    m = env.mesh(a["mid"])
    c = Caller(env)
    warm = env.note(("basis", a["mid"], a["ename"]), (a["what"], a["seed"]))
    if a["what"] == "mass":
        res = skfem.BilinearForm(generic_mass).assemble(b)
    elif a["what"] == "elemdofs":
        res = [np.asarray(b.element_dofs), np.asarray(b.dofs.element_dofs)]
    elif a["what"] == "subset":
        S = env.specs.meshes[a["mid"]]["sub"].get("s")
        b2 = b.with_elements(c("elements", S)) if S is not None else b
        res = [np.asarray(b2.element_dofs), b2.dx, np.asarray(b.element_dofs)]
    else:
        y = c("y", np.random.default_rng(7).standard_normal(b.N))
        f = b.interpolate(y)
        f = f if isinstance(f, tuple) else (f,)
        res = [np.array(x) for x in f]
    return res, [m], {"warm:basis-reused": warm, "__mutated__": c.mutated(), "operand:pooled-basis-arrays": True}, \
        ("basis-use:" + a["what"], "basis", warm)


def pre_basis_use(env, a):
    return env.basis_operands(env.basis(a["mid"], a["ename"]))


def op_probe(rng, specs):
    mid = str(rng.choice(_mesh_ids(specs, kinds=["line", "tri", "quad"], unit=False)))
    kind = specs.meshes[mid]["kind"]
    return dict(mid=mid, ename=str(rng.choice([e for e in ELEMS_BY_KIND[kind]])), seed=int(rng.integers(4)))


def run_probe(env, a):
    b = env.basis(a["mid"], a["ename"])
    m = env.mesh(a["mid"])
    s = env.specs.meshes[a["mid"]]
    r = np.random.default_rng(a["seed"])
    c = int(r.integers(0, m.t.shape[1]))
    X = GEO.random_ref_points(r, s["kind"], 1)
    ca = Caller(env)
    x = ca("x", GEO.map_points(s["kind"], s["p"], s["t"], X, np.array([c]))[:, 0, :])
    y = ca("y", np.random.default_rng(11).standard_normal(b.N))
    out = b.interpolator(y)(x)
    warm = env.note(("probe", a["mid"], a["ename"]), a["seed"])
    return [np.asarray(out)], [m], {"warm:lbasis-same-count-other-points": warm and a["ename"].startswith(("ElementLinePp", "ElementQuadP")),
                                    "__mutated__": ca.mutated(), "caller-array:x,y": True}, \
        ("probe", "element-tables", warm)


def op_solve(rng, specs):
    return dict(name=str(rng.choice(["solver_iter_pcg", "solver_direct_scipy", "solver_iter_krylov", "solver_iter_cg"])),
                sysid=int(rng.integers(len(specs.systems))), percall=bool(rng.random() < 0.3))


def run_solve(env, a):
    A, b, M = env.specs.systems[a["sysid"]]
    kw = {}
    if a["name"] in ("solver_iter_pcg", "solver_iter_krylov"):
        kw = {"rtol": 1e-12} if _cg_has_rtol() else {"tol": 1e-12}
    s = env.solver(a["name"], **kw)
    call_kw = {}
    if a["percall"] and a["name"] in ("solver_iter_pcg", "solver_iter_krylov"):
        call_kw = {"maxiter": 2}
    if a["percall"] and a["name"] == "solver_iter_cg":
        call_kw = {"maxiters": 2}
    x = s(A, b, **call_kw)
    warm = env.note(("solver", a["name"]), (a["sysid"], a["percall"]))
    seen = env.used[("solver", a["name"])]
    flags = {"warm:solver-closure-other-size": warm and any(z[0] != a["sysid"] for z in seen),
             "warm:solver-closure-per-call-kwargs": warm and any(z[1] for z in seen if z != (a["sysid"], a["percall"]))}
    return [np.asarray(x)], [A, b], flags, ("solve:" + a["name"], "closure-kwargs", warm)


def _cg_has_rtol():
    import inspect
    import scipy.sparse.linalg as spl
    return "rtol" in inspect.signature(spl.cg).parameters


def op_eig(rng, specs):
    return dict(name=str(rng.choice(["solver_eigen_scipy_sym", "solver_eigen_scipy_sym", "solver_eigen_scipy"])),
                k=int(rng.choice([0, 2, 3])), sysid=1)


def run_eig(env, a):
    A, b, M = env.specs.systems[a["sysid"]]
    s = env.solver(a["name"], sigma=0.0)
    call_kw = {"k": a["k"]} if a["k"] else {}
    lam, _ = s(A, M, **call_kw)
    warm = env.note(("solver", a["name"]), ("k", a["k"]))
    return [np.sort(np.asarray(lam).real).round(9), np.array(len(lam))], [A, M], \
        {"warm:solver-closure-per-call-kwargs": warm, "eig:" + a["name"]: True}, ("eig:" + a["name"], "closure-kwargs", warm)


TRANSFORM_EXTRA = ["morphed", "add", "add-touching", "matmul", "mul", "to_simplex", "remove_duplicate_nodes",
                   "remove_unused_nodes", "trace", "with_defaults", "save-load", "save-load-npz", "from_dict", "copy", "edges",
                   "f2e", "boundary_edges", "p2f", "p2e", "satisfying"]


def op_transform(rng, specs):
    a = _op_transform(rng, specs)
    # operations that exist for some cell kinds only (see run_transform) are drawn on a mesh of such a kind when the program
    # has one, so that their required reach points do not hang on a second lucky draw
    kinds = {"save-load": ("tet", "hex"), "mul": ("line", "tri"), "to_simplex": ("quad", "hex", "wedge"),
             "edges": ("tet", "hex", "wedge"), "f2e": ("tet", "hex", "wedge"), "p2e": ("tet", "hex", "wedge"),
             "boundary_edges": ("tet", "hex", "wedge")}.get(a["what"])
    if kinds and specs.meshes[a["mid"]]["kind"] not in kinds:
        ids = [i for i in _mesh_ids(specs, unit=False) if specs.meshes[i]["kind"] in kinds]
        if ids:
            a["mid"] = str(ids[int(rng.integers(len(ids)))])
    return a


def _op_transform(rng, specs):
    mid = str(rng.choice(_mesh_ids(specs, unit=False)))
    return dict(mid=mid, what=str(rng.choice(["refined", "translated", "scaled", "mirrored", "with_boundaries",
                                                "with_subdomains", "restrict", "facets", "f2t", "boundary", "adaptive",
                                                "save-dict", "params", "remove_elements", "smoothed", "oriented",
                                                "with_boundaries-array", "with_subdomains-array"] + TRANSFORM_EXTRA)))


def run_transform(env, a):
    m = env.mesh(a["mid"])
    s = env.specs.meshes[a["mid"]]
    d = m.p.shape[0]
    w = a["what"]
    c = Caller(env)
    if (s.get("order2") or s.get("dg")) and w in SURGERY:
        raise Skip("surgery-on-second-order-or-dg-mesh(C18)")
    if s.get("derived"):
        env.used.setdefault("__flags__", set())
    if w == "refined":
        if m.t.shape[1] > 60:
            raise Skip("too-large")
        out = m.refined(1)
    elif w == "adaptive":
        if s["kind"] not in ("tri", "line", "tet") or m.t.shape[1] > 60:
            raise Skip("no-adaptive")
        out = m.refined(c("marked", np.array([0, min(2, m.t.shape[1] - 1)])))
    elif w == "translated":
        out = m.translated(tuple([0.5] * d))
    elif w == "scaled":
        out = m.scaled(tuple([2.0] * d)) if d > 1 else m.scaled(2.0)
    elif w == "mirrored":
        if s["kind"] not in ("tri", "quad", "tet", "hex", "line"):
            raise Skip("no-mirror")
        n = tuple([1.0] + [0.0] * (d - 1))
        out = m.mirrored(n)
    elif w == "with_boundaries":
        out = m.with_boundaries({"new": lambda x: x[0] < np.median(x[0])})
    elif w == "with_subdomains":
        out = m.with_subdomains({"new": lambda x: x[0] < np.median(x[0])})
    elif w == "with_boundaries-array":
        bf = np.asarray(m.boundary_facets())
        out = m.with_boundaries({"new": c("boundaries[new]", bf[: max(1, len(bf) // 2)]),
                                 "two": c("boundaries[two]", bf[-1:].astype(np.int64))})
    elif w == "with_subdomains-array":
        out = m.with_subdomains({"new": c("subdomains[new]", np.arange(max(1, m.t.shape[1] // 2), dtype=np.int32))})
    elif w == "restrict":
        out = m.restrict(c("elements", np.arange(max(1, m.t.shape[1] // 2))))
    elif w == "remove_elements":
        out = m.remove_elements(c("elements", np.array([0])))
    elif w == "smoothed":
        if s["kind"] not in ("tri", "tet"):
            raise Skip("no-smoothing")
        out = m.smoothed()
    elif w == "oriented":
        if s["kind"] not in ("tri", "tet"):
            raise Skip("no-orientation")
        out = m.oriented()
    elif w == "morphed":
        out = m.morphed(*[(lambda p, i=i: p[i] * 1.25 + 0.125 * p[0]) for i in range(d)])
    elif w == "add":
        out = m + m.translated(tuple([8.0] * d))
    elif w == "add-touching":
        out = m + m.mirrored(tuple([1.0] + [0.0] * (d - 1)))
    elif w == "matmul":
        out = m @ m.translated(tuple([8.0] * d))
    elif w == "mul":
        if s["kind"] not in ("line", "tri"):
            raise Skip("no-product")
        import skfem
        out = m * skfem.MeshLine(np.array([0., .5, 1.]))
    elif w == "to_simplex":
        if s["kind"] not in ("quad", "hex", "wedge"):
            raise Skip("already-simplicial")
        out = m.to_meshtri() if s["kind"] == "quad" else m.to_meshtet()
    elif w == "remove_duplicate_nodes":
        out = m.remove_duplicate_nodes()
    elif w == "remove_unused_nodes":
        out = m.restrict(np.arange(max(1, m.t.shape[1] // 2))).remove_unused_nodes()
    elif w == "trace":
        out = list(m.trace(c("facets", np.asarray(m.boundary_facets())[:3])))
    elif w == "with_defaults":
        out = m.with_defaults()
    elif w in ("save-load", "save-load-npz"):
        import contextlib
        import io
        import tempfile
        if w == "save-load" and s["kind"] not in ("tet", "hex"):
            raise Skip("no-meshio-type")     # (1-D: meshio exits; 2-D: VTK pads the points and prints a warning)
        with tempfile.TemporaryDirectory() as td, contextlib.redirect_stdout(io.StringIO()), \
                contextlib.redirect_stderr(io.StringIO()):
            fn = os.path.join(td, "m.vtk" if w == "save-load" else "m.npz")
            try:
                if w == "save-load":
                    m.save(fn)
                    out = type(m).load(fn)
                else:
                    m.save_npz(fn)
                    out = type(m).load_npz(fn)
            except SystemExit as e:      # meshio reports a failed read through sys.exit
                raise RuntimeError("meshio exit") from e
    elif w == "from_dict":
        out = type(m).from_dict(m.to_dict())
    elif w == "copy":
        out = m.copy()
    elif w == "edges":
        if m.edges is None:
            raise Skip("no-edges-below-3D")
        out = [np.asarray(m.edges), np.asarray(m.t2e)]
    elif w == "f2e":
        if m.f2e is None:
            raise Skip("no-edges-below-3D")
        out = [np.asarray(m.f2e)]
    elif w == "boundary_edges":
        out = [np.asarray(m.boundary_edges())]
    elif w == "p2f":
        out = [m.p2f, m.p2t]
    elif w == "p2e":
        out = [m.p2e, m.e2t]
    elif w == "satisfying":
        out = [np.asarray(m.nodes_satisfying(lambda x: x[0] < np.median(x[0]))),
               np.asarray(m.facets_satisfying(lambda x: x[0] < np.median(x[0]), boundaries_only=True)),
               np.asarray(m.elements_satisfying(lambda x: x[0] < np.median(x[0])))]
    elif w == "facets":
        out = [np.asarray(m.facets), np.asarray(m.t2f)]
    elif w == "f2t":
        out = [np.asarray(m.f2t), np.asarray(m.boundary_facets())]
    elif w == "boundary":
        out = [np.asarray(m.boundary_nodes()), np.asarray(m.interior_nodes())]
    elif w == "params":
        out = [np.asarray(m.param())]
    else:
        dct = m.to_dict()
        out = [np.asarray(dct["p"]), np.asarray(dct["t"])]
    warm = env.note(("mesh", a["mid"]), w)
    return out, [m], {"__mutated__": c.mutated(), "caller-array:" + w: bool(c.items),
                      "catalogue:mesh:" + w: w in TRANSFORM_EXTRA}, ("mesh:" + w, "lazy-mesh-attributes", warm)


BC_EXTRA = ["solve-pooled-direct", "solve-pooled-pcg", "condense-matrix", "condense-I", "condense-csc", "condense-complex",
            "enforce-matrix", "solve-eigen-expand"]


def op_bc(rng, specs):
    return dict(sysid=int(rng.integers(len(specs.systems))),
                what=str(rng.choice(["condense", "enforce", "penalize", "solve"] + BC_EXTRA)))


def run_bc(env, a):
    import skfem
    A, b, M = env.specs.systems[a["sysid"]]
    n = A.shape[0]
    D = np.array([0, n - 1])
    x = np.linspace(1, 2, n)
    if a["what"] == "condense":
        out = skfem.condense(A, b, x=x, D=D)
        out = [out[0], out[1], out[2], out[3]]
    elif a["what"] == "enforce":
        out = list(skfem.enforce(A, b, x=x, D=D))
    elif a["what"] == "penalize":
        out = list(skfem.penalize(A, b, x=x, D=D))
    elif a["what"] == "solve-pooled-direct":
        Ac, bc, xr, I = skfem.condense(A, b, x=x, D=D)
        out = [skfem.solve(Ac, bc, x=xr, I=I, solver=env.solver("solver_direct_scipy"))]
    elif a["what"] == "solve-pooled-pcg":
        Ac, bc, xr, I = skfem.condense(A, b, x=x, D=D)
        kw = {"rtol": 1e-12} if _cg_has_rtol() else {"tol": 1e-12}
        out = [skfem.solve(Ac, bc, x=xr, I=I, solver=env.solver("solver_iter_pcg", **kw))]
    elif a["what"] == "condense-matrix":
        out = list(skfem.condense(A, M, D=D))
    elif a["what"] == "condense-I":
        out = list(skfem.condense(A, b, x=x, I=np.arange(1, n - 1)))
    elif a["what"] == "condense-csc":
        out = list(skfem.condense(A.tocsc(), b, x=x, D=D))
    elif a["what"] == "condense-complex":
        out = list(skfem.condense((A * (1 + 0.5j)).tocsr(), b * (1 - 0.25j), x=x * 1j, D=D))
    elif a["what"] == "enforce-matrix":
        out = list(skfem.enforce(A, M, D=D))
    elif a["what"] == "solve-eigen-expand":
        if n < 6:
            raise Skip("too-small-for-arpack")
        lam, X = skfem.solve(*skfem.condense(A, M, D=D), solver=env.solver("solver_eigen_scipy_sym", sigma=0.0), k=2)
        out = [np.sort(np.asarray(lam)).round(9), np.asarray(X.shape), np.asarray(X[D])]
    else:
        out = [skfem.solve(*skfem.condense(A, b, x=x, D=D))]
    # the prescribed-values vector and the index set are operands too
    mutated = []
    if not np.array_equal(x, np.linspace(1, 2, n)):
        mutated.append("x")
    if not np.array_equal(D, np.array([0, n - 1])):
        mutated.append("D")
    return out, [A, b, x, D], {"__mutated__": mutated, "catalogue:bc:" + a["what"]: a["what"] in BC_EXTRA}, \
        ("bc:" + a["what"], "operands", False)


# ---- pooled Form objects whose integrands read the basis-level caches (w.x, w.h, w.n) and a coefficient keyword
def _sc(f):
    v = np.asarray(f)
    while v.ndim > 2:
        v = v.sum(axis=0)
    return v


def _forms():
    import skfem

    def bil_scaled(u, v, w, scale=1.0, shift=0.0):
        return scale * u * v + shift * u * v * w.x[0]

    def bil_2x2(u1, u2, v1, v2, w):
        return u1 * v1 + 2.0 * u2 * v2 * w.x[0] + 3.0 * u1 * v2 + 5.0 * u2 * v1 * w.h

    return {
        "bil-xh": lambda: skfem.BilinearForm(lambda u, v, w: _sc(u) * _sc(v) * (1.0 + w.x[0]) * w.h),
        "bil-k": lambda: skfem.BilinearForm(lambda u, v, w: _sc(u) * _sc(v) * (0.5 + _sc(w["k"]))),
        "lin-xh": lambda: skfem.LinearForm(lambda v, w: _sc(v) * (w.x[0] + w.h)),
        "lin-k": lambda: skfem.LinearForm(lambda v, w: _sc(v) * _sc(w["k"]) * w.x[-1]),
        "fun-xh": lambda: skfem.Functional(lambda w: w.x[0] * w.h + w.x[-1] ** 2),
        "fun-k": lambda: skfem.Functional(lambda w: _sc(w["k"]) * (1.0 + w.x[0])),
        "tri-x": lambda: skfem.TrilinearForm(lambda u, v, q, w: u * v * q * (1.0 + w.x[0])),
        "bil-scaled": lambda: skfem.BilinearForm(bil_scaled),
        "bil-2x2": lambda: skfem.BilinearForm(bil_2x2),
        "bil-n": lambda: skfem.BilinearForm(lambda u, v, w: _sc(u) * _sc(v) * (1.5 + w.n[0]) * (1.0 + w.h)),
        "lin-n": lambda: skfem.LinearForm(lambda v, w: _sc(v) * (w.n[0] + 0.5 * w.x[0] * w.n[-1])),
        "fun-n": lambda: skfem.Functional(lambda w: w.n[0] * w.x[0] + w.n[-1] * w.x[-1] + w.h),
        "fun-nk": lambda: skfem.Functional(lambda w: (w.n[0] + 2.0) * _sc(w["k"])),
        "model:linear_elasticity": lambda: _linear_elasticity(),
    }


def _linear_elasticity():
    from skfem.models.elasticity import lame_parameters, linear_elasticity
    return linear_elasticity(*lame_parameters(8.0, 0.25))


class _Forms(dict):
    def __missing__(self, key):
        self.update(_forms())
        return self[key]


FORMS = _Forms()
CELL_FORMS = ["bil-xh", "bil-k", "lin-xh", "lin-k", "fun-xh", "fun-k", "tri-x", "bil-scaled", "bil-2x2"]
FACET_FORMS = ["bil-n", "lin-n", "fun-n", "fun-nk", "bil-xh", "lin-k"]
SCALAR_ELEMS = {"line": ["ElementLineP1", "ElementLineP2"], "tri": ["ElementTriP1", "ElementTriP2"],
                "quad": ["ElementQuad1", "ElementQuad2"], "tet": ["ElementTetP1", "ElementTetP2"], "hex": ["ElementHex1"], "wedge": ["ElementWedge1"]}
P1_ELEMS = {"line": "ElementLineP1", "tri": "ElementTriP1", "quad": "ElementQuad1", "tet": "ElementTetP1", "hex": "ElementHex1",
            "wedge": "ElementWedge1"}


def op_form(rng, specs):
    where = str(rng.choice(["cell", "cell", "facet"]))
    mid = str(rng.choice(_mesh_ids(specs, kinds=None if where == "cell" else ["tri", "quad", "tet", "hex"], unit=False)))
    kind = specs.meshes[mid]["kind"]
    fname = str(rng.choice(CELL_FORMS if where == "cell" else FACET_FORMS))
    how = str(rng.choice(["assemble", "assemble", "asm-list", "elemental"]))
    if fname == "tri-x":
        ename, how = P1_ELEMS[kind], "assemble"
    elif fname in ("bil-scaled", "bil-2x2"):
        ename = str(rng.choice(SCALAR_ELEMS[kind]))
        how = "partial" if fname == "bil-scaled" else "block"
    else:
        ename = str(rng.choice(ELEMS_BY_KIND[kind]))
    if where == "facet" and how == "asm-list":
        how = "assemble"
    return dict(mid=mid, ename=ename, where=where, fname=fname, how=how, kseed=int(rng.integers(4)),
                ij=[int(rng.integers(2)), int(rng.integers(2))], scale=float(rng.choice([0.5, 2.5])))


def _form_basis(env, a):
    return env.basis(a["mid"], a["ename"]) if a["where"] == "cell" else env.fbasis(a["mid"], a["ename"])


def pre_form(env, a):
    objs = env.basis_operands(_form_basis(env, a))
    if a["how"] == "asm-list":
        objs += env.basis_operands(env.sub_basis(a["mid"], a["ename"]))
    return objs


def run_form(env, a):
    import skfem
    b = _form_basis(env, a)
    m = env.mesh(a["mid"])
    f = env.form(a["fname"])
    c = Caller(env)
    kw = {}
    if a["fname"].endswith("k"):
        r = np.random.default_rng(100 + a["kseed"])
        if a["kseed"] % 2 or a["how"] == "asm-list":
            kw["k"] = c("k(dof-array)", r.integers(-8, 9, size=b.N) / 8)          # interpolated by the library
        else:
            kw["k"] = c("k(quadrature-array)", r.integers(-8, 9, size=b.dx.shape) / 8)
    how = a["how"]
    if how == "assemble":
        res = [f.assemble(b, **kw)]
    elif how == "asm-list":
        res = [skfem.asm(f, [env.sub_basis(a["mid"], a["ename"]), b], **kw)]
    elif how == "elemental":
        res = [f.elemental(b, **kw)]
    elif how == "partial":
        g = f.partial(scale=a["scale"], shift=0.25)
        res = [g.assemble(b), f.assemble(b)]           # the form it was derived from is still the original one
    else:
        g = f.block(*a["ij"])
        res = [g.assemble(b), f.block(1 - a["ij"][0], a["ij"][1]).elemental(b)]
    # the caches every assembly was handed, read again afterwards
    res += [np.array(b.global_coordinates()), np.array(b.mesh_parameters()), np.array(b.dx)]
    if a["where"] == "facet":
        res.append(np.array(b.normals))
    warm_form = env.note(("form", a["fname"]), (a["where"], a["mid"], a["ename"]))
    warm_basis = env.note(("basis-params", a["where"], a["mid"], a["ename"]), (a["fname"], a["how"], a["kseed"]))
    flags = {"warm:form-object-on-other-basis": warm_form, "warm:basis-default-parameters-reread": warm_basis,
             "warm:facet-form-reads-normals": warm_basis and a["where"] == "facet",
             "form:" + how: True, "__mutated__": c.mutated()}
    return res, [m], flags, ("form:" + a["fname"] + ":" + how, "form-object+basis-caches", warm_form or warm_basis)


# ---- the facet side of mappings and bases
def op_mapping_facet(rng, specs):
    mid = str(rng.choice(_mesh_ids(specs, kinds=["tri", "quad", "tet", "hex"], unit=False)))
    return dict(mid=mid, meth=str(rng.choice(["G", "detDG", "normals"])),
                xvar=str(rng.choice(["shared", "perfacet", "shared-1pt", "perfacet-1pt"])),
                fvar=str(rng.choice(["A", "B", "none", "A64"])), iso=bool(rng.random() < 0.6))


def _facet_sets(m):
    bf = np.asarray(m.boundary_facets())
    h = max(1, len(bf) // 2)
    return {"A": bf[:h].astype(np.int32), "B": bf[-h:].astype(np.int32), "A64": bf[:h].astype(np.int64), "none": None}, bf


def _pooled_mapping(env, a):
    from skfem.mapping import MappingIsoparametric, MappingAffine
    m = env.mesh(a["mid"])
    s = env.specs.meshes[a["mid"]]
    mk = (lambda: MappingIsoparametric(m, m.elem(), m.bndelem) if (a["iso"] or not s["affine"] or s["kind"] not in ("line", "tri", "tet")) else MappingAffine(m))
    if not env.pooled:
        return mk()
    key = ("mapping", a["mid"], a["iso"])
    mp = env._basis.get(key)
    if mp is None:
        mp = env._basis[key] = mk()
    return mp


def pre_mapping(env, a):
    return [Held(deep_arrays(_pooled_mapping(env, a)))]


def run_mapping_facet(env, a):
    m = env.mesh(a["mid"])
    s = env.specs.meshes[a["mid"]]
    d = GEO.REFDIM[s["kind"]]
    mp = _pooled_mapping(env, a)
    c = Caller(env)
    sets, bf = _facet_sets(m)
    find = sets[a["fvar"]]
    if a["meth"] == "normals" and find is None:
        find = bf.astype(np.int32)
    if find is not None:
        find = c("find", find)
    nf = m.facets.shape[1] if find is None else len(find)
    # facet reference points: the same bytes in a shared (d-1, 2) and a per-facet (d-1, 2, 1) layout
    base = np.linspace(0.2, 0.4, 2 * (d - 1)).reshape(d - 1, 2)
    if a["xvar"] == "shared":
        Xp = base.copy()
    elif a["xvar"] == "shared-1pt":
        Xp = base[:, :1].copy()
    elif a["xvar"] == "perfacet-1pt":
        Xp = np.repeat(base[:, :1, None], nf, axis=1).copy() if nf != 2 else base.reshape(d - 1, 2, 1).copy()
    else:
        Xp = np.repeat(base[:, None, :], nf, axis=1).copy()
    Xp = c("X", Xp)
    if a["meth"] == "normals":
        tind = c("tind", np.asarray(m.f2t[0, find]))
        x = mp.G(Xp, find)
        Y = mp.invF(x, tind=tind)
        out = [mp.normals(Y, tind, find, m.t2f), x]
    else:
        out = [getattr(mp, a["meth"])(Xp, find)]
    fp = ("facet", a["meth"], a["xvar"], a["fvar"])
    warm = env.note(("mapping", a["mid"], a["iso"]), fp)
    seen = env.used[("mapping", a["mid"], a["iso"])]
    other_find = warm and any(z[0] == "facet" and z[3] != a["fvar"] for z in seen if len(z) == 4)
    flags = {"warm:facet-map-other-facet-set": other_find,
             "warm:facet-map-other-facet-set-of-equal-length": other_find and a["fvar"] in ("A", "B", "A64") and
             any(len(z) == 4 and z[3] in ("A", "B", "A64") and z[3] != a["fvar"] for z in seen),
             "facet-map:" + type(mp).__name__ + ":" + a["meth"]: True, "__mutated__": c.mutated()}
    return [np.asarray(o) for o in out], [m], flags, ("mapping-facet:" + a["meth"], type(mp).__name__, warm)


def op_facet_basis(rng, specs):
    mid = str(rng.choice(_mesh_ids(specs, kinds=["tri", "quad", "tet", "hex", "line"], unit=False)))
    kind = specs.meshes[mid]["kind"]
    return dict(mid=mid, ename=str(rng.choice(ELEMS_BY_KIND[kind])),
                fvar=str(rng.choice(["none", "A", "B", "named", "interior"])), side=int(rng.integers(2)))


def run_facet_basis(env, a):
    import skfem
    m, e = env.mesh(a["mid"]), env.elem(a["ename"])
    c = Caller(env)
    if a["fvar"] == "interior":
        b = skfem.InteriorFacetBasis(m, e, side=a["side"])
    elif a["fvar"] == "named":
        b = skfem.FacetBasis(m, e, facets="b")
    else:
        find = _facet_sets(m)[0][a["fvar"]]
        b = skfem.FacetBasis(m, e, facets=None if find is None else c("facets", find))
    warm = env.note(("elem", a["ename"]), ("facet", a["mid"], a["fvar"]))
    res = [np.array(b.basis[0][0]), np.array(b.basis[-1][0]), np.array(b.normals), b.dx, np.asarray(b.element_dofs),
           np.asarray(b.find), np.asarray(b.tind)]
    g = b.basis[-1][0].grad
    if g is not None:
        res.append(g)
    return res, [m], {"warm:facet-basis-element-reused": warm, "__mutated__": c.mutated()}, \
        ("facet-basis:" + a["fvar"], "element-object+mesh-lazies", warm)


def op_dofs(rng, specs):
    mid = str(rng.choice(_mesh_ids(specs, unit=False)))
    kind = specs.meshes[mid]["kind"]
    return dict(mid=mid, ename=str(rng.choice(ELEMS_BY_KIND[kind])),
                what=str(rng.choice(["all", "named", "facets-array", "elements", "predicate", "keep", "drop", "skip", "union",
                                     "by-name", "sort", "nodes"])))


def _view_parts(v):
    out = [np.asarray(v.flatten())]
    for nm in ("nodal_ix", "facet_ix", "edge_ix", "interior_ix"):
        x = getattr(v, nm)
        out.append(np.asarray(x) if isinstance(x, np.ndarray) else np.frombuffer(repr(x).encode(), dtype=np.uint8))
    return out


def run_dofs(env, a):
    """get_dofs of a pooled basis in its spellings and the DofsView algebra on the views."""
    b = env.basis(a["mid"], a["ename"])
    m = env.mesh(a["mid"])
    s = env.specs.meshes[a["mid"]]
    c = Caller(env)
    w = a["what"]
    names = list(dict.fromkeys(b.elem.dofnames))
    med = float(np.median(s["p"][0]))
    if w == "all":
        out = _view_parts(b.get_dofs())
    elif w == "named":
        out = _view_parts(b.get_dofs("b"))
    elif w == "facets-array":
        out = _view_parts(b.get_dofs(facets=c("facets", np.asarray(m.boundary_facets())[:3])))
    elif w == "elements":
        out = _view_parts(b.get_dofs(elements=c("elements", np.arange(max(1, m.t.shape[1] // 2), dtype=np.int32))))
    elif w == "predicate":
        out = _view_parts(b.get_dofs(lambda x: x[0] <= med))
    elif w == "keep":
        out = _view_parts(b.get_dofs().keep([names[0]]))
    elif w == "drop":
        out = _view_parts(b.get_dofs().drop([names[-1]]))
    elif w == "skip":
        out = _view_parts(b.get_dofs(skip=[names[0]]))
    elif w == "union":
        v1, v2 = b.get_dofs(lambda x: x[0] <= med), b.get_dofs(lambda x: x[0] >= med)
        out = _view_parts(v1 | v2) + _view_parts(v1) + _view_parts(v2)
    elif w == "by-name":
        v = b.get_dofs()
        out = [v.all(names[0]), {k: np.asarray(x) for k, x in v.nodal.items()}, {k: np.asarray(x) for k, x in v.facet.items()},
               {k: np.asarray(x) for k, x in v.interior.items()}]
    elif w == "sort":
        out = [np.asarray(b.get_dofs().sort())]
    else:
        out = _view_parts(b.get_dofs(nodes=c("nodes", np.asarray(m.boundary_nodes())[:3])))
    warm = env.note(("basis", a["mid"], a["ename"]), ("dofs", w))
    return out, [m], {"warm:basis-reused": warm, "__mutated__": c.mutated(), "catalogue:dofs": True}, \
        ("dofs:" + w, "basis+dofs-object", warm)


def op_project(rng, specs):
    mid = str(rng.choice(_mesh_ids(specs, unit=False)))
    kind = specs.meshes[mid]["kind"]
    return dict(mid=mid, ename=str(rng.choice(SCALAR_ELEMS[kind])), what=str(rng.choice(["function", "field", "subset"])))


def run_project(env, a):
    b = env.basis(a["mid"], a["ename"])
    m = env.mesh(a["mid"])
    c = Caller(env)
    if a["what"] == "function":
        out = b.project(lambda x: 1.0 + x[0] + 0.5 * x[-1] ** 2)
    elif a["what"] == "field":
        y = c("y", np.random.default_rng(5).integers(-8, 9, size=b.N) / 8)
        out = b.project(b.interpolate(y))
    else:
        out = b.project(lambda x: 1.0 + x[0], elements=c("elements", np.arange(max(1, m.t.shape[1] // 2), dtype=np.int32)))
    warm = env.note(("basis", a["mid"], a["ename"]), ("project", a["what"]))
    return [np.asarray(out)], [m], {"warm:basis-reused": warm, "__mutated__": c.mutated(), "catalogue:project": True}, \
        ("project:" + a["what"], "basis", warm)


# ---- forms written with the helpers of skfem.helpers on vector / H(div) / H(curl) / global / mixed bases
# The trial and test functions a form is handed ARE the arrays stored in basis.basis[j][k] (value, grad, div, curl,
# hess, grad3...) and a DiscreteField passed as a keyword is handed over as it is: a helper that computes "without
# temporaries" corrupts its caller's operands while the assembled tensor may stay bit-identical (symmetrisation is
# idempotent).  Every public function of skfem.helpers is applied (a) to the stored basis functions and (b) to a
# coefficient field the caller keeps, inside generated integrands; the arrays of the basis and of the coefficient are
# checksummed around EVERY assembly, and the same pooled basis is used next for another form or for interpolate().
DIM = {"line": 1, "tri": 2, "quad": 2, "tet": 3, "hex": 3, "wedge": 3}
HELPER_ELEMS = {
    "vec": {"tri": ["Vector(ElementTriP1)", "Vector(ElementTriP2)"], "quad": ["Vector(ElementQuad1)", "Vector(ElementQuad2)"],
            "tet": ["Vector(ElementTetP1)"], "hex": ["Vector(ElementHex1)"], "wedge": ["Vector(ElementWedge1)"]},
    "scalar": {"line": ["ElementLineP2"], "tri": ["ElementTriP2"], "quad": ["ElementQuad2"], "tet": ["ElementTetP1"],
               "hex": ["ElementHex1"]},
    "hdiv": {"tri": ["ElementTriRT1", "ElementTriBDM1"], "quad": ["ElementQuadRT1"], "tet": ["ElementTetRT1"],
             "hex": ["ElementHexRT1"]},
    "hcurl": {"tri": ["ElementTriN1"], "quad": ["ElementQuadN1"], "tet": ["ElementTetN1"]},
    "global": {"line": ["ElementLineHermite", "Derivatives4(ElementLineHermite)"],
               "tri": ["ElementTriMorley", "Derivatives4(ElementTri15ParamPlate)"],
               "quad": ["ElementQuadBFS", "Derivatives4(ElementQuad2G)"]},
    "mixed": {"tri": ["Composite(Vector(ElementTriP2),ElementTriP1)"], "quad": ["Composite(Vector(ElementQuad2),ElementQuad1)"],
              "tet": ["Composite(Vector(ElementTetP1),ElementTetP1)"]},
}
HELPER_CLS_WEIGHT = {"vec": 5, "mixed": 2, "scalar": 1, "hdiv": 1, "hcurl": 1, "global": 2}
ORDER1 = ("vec", "hdiv", "hcurl")
WITH_GRAD = ("vec", "scalar", "global")
_D4 = {}


def make_elem(name):
    """Element objects by name: registry names, Vector(...), Composite(...,...) and Derivatives4(<global element>)
    (a subclass that also tabulates the third and fourth derivatives, the documented way to obtain grad3/grad4)."""
    import skfem
    if name.startswith("Vector(") and name.endswith(")"):
        return skfem.ElementVector(make_elem(name[7:-1]))
    if name.startswith("Composite(") and name.endswith(")"):
        parts, depth, cur = [], 0, ""
        for ch in name[10:-1]:
            if ch == "," and depth == 0:
                parts.append(cur)
                cur = ""
                continue
            depth += (ch == "(") - (ch == ")")
            cur += ch
        parts.append(cur)
        return skfem.ElementComposite(*[make_elem(q) for q in parts])
    if name.startswith("Derivatives4(") and name.endswith(")"):
        base = type(EL.by_name(name[13:-1]).make())
        if base not in _D4:
            _D4[base] = type(base.__name__ + "Derivatives4", (base,), {"derivatives": 4})
        return _D4[base]()
    return EL.by_name(name).make()


def S(x):
    """A fixed ASYMMETRIC contraction of the leading (tensor) axes to one value per quadrature point (the weights of
    the (i, j) and (j, i) entries differ, so an integrand sees the unsymmetric part of a gradient).  Never writes."""
    x = np.asarray(x)
    if x.ndim <= 2:
        return x
    y = x.reshape((-1,) + x.shape[-2:])
    c = 1.0 + 0.25 * np.arange(y.shape[0])
    return (c[:, None, None] * y).sum(axis=0)


# expression name -> (predicate(field class, dim, element name), helpers(field class), evaluation(H, a, class, dim))
UNARY = {
    "id": (lambda c, d, e: True, lambda c: (), lambda H, a, c, d: a),
    "grad": (lambda c, d, e: c in WITH_GRAD, lambda c: ("grad",), lambda H, a, c, d: H.grad(a)),
    "d": (lambda c, d, e: True, lambda c: ("d",), lambda H, a, c, d: H.d(a)),
    "div": (lambda c, d, e: c in ("vec", "hdiv"), lambda c: ("div",), lambda H, a, c, d: H.div(a)),
    "curl": (lambda c, d, e: c in ("vec", "hcurl") or (c in ("scalar", "global") and d == 2), lambda c: ("curl",),
             lambda H, a, c, d: H.curl(a)),
    "sym_grad": (lambda c, d, e: c == "vec", lambda c: ("sym_grad",), lambda H, a, c, d: H.sym_grad(a)),
    "transpose": (lambda c, d, e: c in ("vec", "global"), lambda c: ("transpose", "grad" if c == "vec" else "dd"),
                  lambda H, a, c, d: H.transpose(H.grad(a) if c == "vec" else H.dd(a))),
    "trace": (lambda c, d, e: c in ("vec", "global"), lambda c: ("trace", "grad" if c == "vec" else "dd"),
              lambda H, a, c, d: H.trace(H.grad(a) if c == "vec" else H.dd(a))),
    "det": (lambda c, d, e: c in ("vec", "global") and d in (2, 3), lambda c: ("det", "grad" if c == "vec" else "dd"),
            lambda H, a, c, d: H.det(H.grad(a) if c == "vec" else H.dd(a))),
    "eye": (lambda c, d, e: True, lambda c: ("eye",), lambda H, a, c, d: H.eye(a, d)),
    "identity": (lambda c, d, e: True, lambda c: ("identity",),
                 lambda H, a, c, d: H.identity(a, None if np.ndim(a) > 2 else d) * S(a)),
    "dd": (lambda c, d, e: c == "global", lambda c: ("dd",), lambda H, a, c, d: H.dd(a)),
    "ddd": (lambda c, d, e: c == "global" and e.startswith("Derivatives4("), lambda c: ("ddd",), lambda H, a, c, d: H.ddd(a)),
    "dddd": (lambda c, d, e: c == "global" and e.startswith("Derivatives4("), lambda c: ("dddd",),
             lambda H, a, c, d: H.dddd(a)),
}


def _g(H, a, c):
    """The field itself (vector valued classes) or its gradient (scalar valued classes): an order-1 tensor."""
    return a if c in ORDER1 else H.grad(a)


def _dddot(H, a, b, c, d):
    if c == "global":
        return H.dddot(H.ddd(a), H.ddd(b))
    return H.dddot(H.prod(a, b, a), H.prod(b, a, b))


def _mul(H, a, b, c, d):
    if c == "vec":
        return H.mul(H.grad(a), b)
    if c == "global":
        return H.mul(H.dd(a), H.grad(b))
    return H.mul(H.prod(_g(H, a, c), _g(H, b, c)), _g(H, a, c))


BINARY = {
    "dot": (lambda c, d, e: True, lambda c: ("dot",) + (() if c in ORDER1 else ("grad",)),
            lambda H, a, b, c, d: H.dot(_g(H, a, c), _g(H, b, c))),
    "ddot": (lambda c, d, e: c in ("vec", "global"), lambda c: ("ddot", "grad" if c == "vec" else "dd"),
             lambda H, a, b, c, d: H.ddot(H.grad(a), H.grad(b)) if c == "vec" else H.ddot(H.dd(a), H.dd(b))),
    "dddot": (lambda c, d, e: c in ORDER1 or (c == "global" and e.startswith("Derivatives4(")),
              lambda c: ("dddot", "ddd") if c == "global" else ("dddot", "prod"), _dddot),
    "prod": (lambda c, d, e: True, lambda c: ("prod",) + (() if c in ORDER1 else ("grad",)),
             lambda H, a, b, c, d: H.prod(_g(H, a, c), _g(H, b, c))),
    "mul": (lambda c, d, e: True, lambda c: ("mul",) + {"vec": ("grad",), "global": ("dd", "grad"), "scalar": ("prod", "grad")}.get(c, ("prod",)),
            _mul),
    "cross": (lambda c, d, e: d in (2, 3), lambda c: ("cross",) + (() if c in ORDER1 else ("grad",)),
              lambda H, a, b, c, d: H.cross(_g(H, a, c), _g(H, b, c))),
    "inner": (lambda c, d, e: True, lambda c: ("inner",) + (("grad",) if c in WITH_GRAD else ()),
              lambda H, a, b, c, d: H.inner(a, b) + (H.inner(H.grad(a), H.grad(b)) if c in WITH_GRAD else 0.0)),
}
# every public function of skfem.helpers -> the operands it is applied to in the catalogue
HELPER_TARGETS = {h: ("basis-function", "coefficient") for h in
                  ("grad", "d", "div", "curl", "sym_grad", "transpose", "trace", "det", "eye", "identity", "dd", "ddd", "dddd",
                   "dot", "ddot", "dddot", "prod", "mul", "cross", "inner")}
for _h in ("dot", "prod", "mul", "cross", "inner", "eye", "identity"):
    # ... and to the arrays the basis hands to every form on its own account (w.x, w.n: cached on the basis object)
    HELPER_TARGETS[_h] += ("default-parameter",)
HELPER_TARGETS["inv"] = ("coefficient",)          # (the gradient of ONE basis function of a vector element is singular)
HELPER_TARGETS["jump"] = ("basis-function",)
HELPER_REACH = [f"helper:{h}:{t}" for h, ts in sorted(HELPER_TARGETS.items()) for t in ts]
REQUIRED_REACH += HELPER_REACH
MODELS = {"vec": ["linear_elasticity", "vector_laplace"], "vec3": ["curluv", "rot", "vrot"], "scalar": ["laplace", "mass", "unit_load"]}
MODEL_HELPERS = {"linear_elasticity": ("sym_grad", "ddot", "trace", "eye"), "vector_laplace": ("grad", "ddot"),
                 "curluv": ("curl", "dot"), "rot": ("curl", "dot"), "vrot": ("dot",), "laplace": ("grad", "dot"), "mass": (),
                 "unit_load": ()}


def _geometry_factor(H, name, w, dim, facet):
    """1 + (a helper applied to the global coordinates / normals the basis keeps)/8."""
    x, y = w["x"], (w["n"] if facet else w["x"])
    if name == "dot":
        r = H.dot(x, y)
    elif name == "prod":
        r = S(H.prod(x, y))
    elif name == "mul":
        r = S(H.mul(H.prod(x, y), x))
    elif name == "cross":
        r = S(H.cross(y, x))
    elif name == "inner":
        r = H.inner(x, y)
    elif name == "eye":
        r = S(H.eye(y, dim))
    else:
        r = S(H.identity(y)) * S(x)
    return 1.0 + 0.125 * r


def _least_used(rng, specs, names, target):
    """Expression choice that covers the catalogue: among `names` the one used least often so far in this program
    for this kind of operand (ties broken at random)."""
    cnt = specs.__dict__.setdefault("hform_count", {})
    lo = min(cnt.get((n, target), 0) for n in names)
    name = str(rng.choice([n for n in names if cnt.get((n, target), 0) == lo]))
    cnt[(name, target)] = cnt.get((name, target), 0) + 1
    return name


def op_hform(rng, specs):
    classes = getattr(specs, "hform_classes", None) or list(HELPER_ELEMS)
    pairs, wts = [], []
    for mid, s in specs.meshes.items():
        if s.get("order2") or s.get("dg"):
            continue
        for cls in classes:
            if s["kind"] in HELPER_ELEMS[cls] and bool(s.get("unit")) == (cls == "global"):
                pairs.append((mid, cls))
                wts.append(HELPER_CLS_WEIGHT[cls])
    if not pairs:
        raise ValueError("no mesh for a helper form")
    mid, cls = pairs[int(rng.choice(len(pairs), p=np.array(wts, dtype=float) / sum(wts)))]
    kind = specs.meshes[mid]["kind"]
    dim = DIM[kind]
    ename = _least_used(rng, specs, HELPER_ELEMS[cls][kind], "element:" + kind)
    facets = kind in ("tri", "quad", "tet", "hex")
    where = "facet" if cls in ("vec", "scalar") and facets and rng.random() < 0.25 else "cell"
    whats = ["bil-unary"] * 4 + ["bil-binary"] * 3 + ["lin", "fun", "interp", "interp"]
    if cls == "vec":
        whats += ["coef-F", "model"]
    if cls == "scalar":
        whats += ["model"]
    if cls in ("vec", "scalar") and facets and where == "cell":
        whats += ["jump"]
    d4 = ename.startswith("Derivatives4(")
    if d4:
        whats = ["bil-unary"] * 4 + ["bil-binary"] * 2 + ["lin"] * 2 + ["fun"] * 2 + ["interp"]
    what = str(rng.choice(whats))
    fc = "vec" if cls == "mixed" else cls
    un = [n for n, (ok, _, _) in UNARY.items() if ok(fc, dim, ename)]
    unk = un
    if d4:                                                       # what only these elements can be asked for
        un = ["dd", "ddd", "dddd", "transpose", "trace"] if rng.random() < 0.5 else un
        unk = ["dd", "ddd", "dddd"] if rng.random() < 0.75 else unk
    bn = [n for n, (ok, _, _) in BINARY.items() if ok(fc, dim, ename)]
    sc = [n for n, (ok, _, _) in UNARY.items() if ok("scalar", dim, "")]
    e = {}
    coef = bool(rng.random() < 0.6) or d4
    if what == "bil-unary":
        e = dict(u=_least_used(rng, specs, un, "basis-function"), v=_least_used(rng, specs, un, "basis-function"))
        if coef:
            e["k"] = _least_used(rng, specs, unk, "coefficient")
        if cls == "mixed":
            e.update(p=str(rng.choice(sc)), q=str(rng.choice(sc)))
    elif what == "bil-binary":
        e = dict(b=_least_used(rng, specs, bn, "basis-function"))
        if coef:
            e.update(bk=_least_used(rng, specs, bn, "coefficient"), v=_least_used(rng, specs, un, "basis-function"))
    elif what == "lin":
        e = dict(v=_least_used(rng, specs, un, "basis-function"), k=_least_used(rng, specs, unk, "coefficient"),
                 bk=_least_used(rng, specs, bn, "coefficient"))
    elif what == "fun":
        e = dict(k=_least_used(rng, specs, unk, "coefficient"), bk=_least_used(rng, specs, bn, "coefficient"))
    elif what == "model":
        e = dict(model=str(rng.choice(MODELS[cls] + (MODELS["vec3"] if cls == "vec" and dim == 3 else []))))
    elif what == "coef-F":
        e = dict(form=str(rng.choice(["bil", "lin"])))
    if what in ("bil-unary", "bil-binary", "lin", "fun") and rng.random() < 0.5:
        e["g"] = _least_used(rng, specs, ["dot", "prod", "mul", "inner", "eye", "identity"] + (["cross"] if dim > 1 else []),
                             "default-parameter")
    sig = what + ":" + cls + ":" + ",".join(f"{k_}={v_}" for k_, v_ in sorted(e.items()))
    return dict(mid=mid, ename=ename, cls=cls, dim=dim, where=where, what=what, expr=e, sig=sig, kseed=int(rng.integers(2)),
                yseed=int(rng.integers(3)))


def _hbasis(env, a):
    return env.fbasis(a["mid"], a["ename"]) if a["where"] == "facet" else env.basis(a["mid"], a["ename"])


def _needs_coef(a):
    e = a["expr"]
    return a["what"] in ("lin", "fun", "coef-F") or "k" in e or "bk" in e or e.get("model") in ("rot", "vrot")


def pre_hform(env, a):
    if a["what"] == "jump":
        return env.basis_operands(env.ibasis(a["mid"], a["ename"], 0)) + env.basis_operands(env.ibasis(a["mid"], a["ename"], 1))
    objs = env.basis_operands(_hbasis(env, a))
    if _needs_coef(a):
        # the coefficient field is an object the CALLER keeps (and reuses in later steps): its arrays are operands
        objs.append(Held(deep_arrays(env.coef(a), "k")))
    return objs


def _helper_integrand(a):
    """The integrand of a generated form: a pure function of the step arguments (rebuilt in the fresh process)."""
    import skfem.helpers as H
    cls, dim, e, what = a["cls"], a["dim"], a["expr"], a["what"]
    fc = "vec" if cls == "mixed" else cls

    def un(name, f, c=fc):
        return S(UNARY[name][2](H, f, c, dim))

    def bi(name, f, g):
        return S(BINARY[name][2](H, f, g, fc, dim))

    facet = a["where"] == "facet"

    def kpart(w):
        out = 1.0 + un(e["k"], w["k"]) if "k" in e else 1.0
        return out * _geometry_factor(H, e["g"], w, dim, facet) if "g" in e else out

    def gpart(w):
        return _geometry_factor(H, e["g"], w, dim, facet) if "g" in e else 1.0

    if what == "bil-unary" and cls == "mixed":
        def form(u, p, v, q, w):
            return un(e["u"], u) * un(e["v"], v) * kpart(w) + un(e["p"], p, "scalar") * un(e["v"], v) \
                + un(e["u"], u) * un(e["q"], q, "scalar")
    elif what == "bil-unary":
        def form(u, v, w):
            return un(e["u"], u) * un(e["v"], v) * kpart(w)
    elif what == "bil-binary" and cls == "mixed":
        def form(u, p, v, q, w):
            return (bi(e["b"], u, v) + (bi(e["bk"], u, w["k"]) * un(e["v"], v) if "bk" in e else 0.0)) * gpart(w) + p * q
    elif what == "bil-binary":
        def form(u, v, w):
            return (bi(e["b"], u, v) + (bi(e["bk"], u, w["k"]) * un(e["v"], v) if "bk" in e else 0.0)) * gpart(w)
    elif what == "lin" and cls == "mixed":
        def form(v, q, w):
            return un(e["v"], v) * kpart(w) + bi(e["bk"], w["k"], v) + q * w["kp"]
    elif what == "lin":
        def form(v, w):
            return un(e["v"], v) * kpart(w) + bi(e["bk"], w["k"], v)
    elif what == "fun":
        def form(w):       # (a positive integrand: no cancellation in the sum over the cells)
            return 1.0 + un(e["k"], w["k"]) ** 2 + bi(e["bk"], w["k"], w["k"]) ** 2 + gpart(w) ** 2
    elif what == "coef-F" and e["form"] == "bil":
        def form(u, v, w):
            return S(H.inv(w["F"])) * H.dot(u, v) + H.dot(H.mul(H.inv(w["F"]), u), v) * H.det(w["F"])
    elif what == "coef-F":
        def form(v, w):
            return H.dot(H.mul(H.inv(w["F"]), w["k"]), v) + H.det(w["F"]) * S(H.mul(H.transpose(w["F"]), v))
    elif what == "jump":
        def form(u, v, w):
            ju, jv = H.jump(w, u, v)
            gu, gv = H.jump(w, H.grad(u), H.grad(v))
            return S(ju) * S(jv) + w.h * S(gu) * S(gv)
    else:
        raise ValueError(what)
    return form


def _helpers_used(a):
    """{(helper, operand kind)} a step applies (static: read off the step arguments)."""
    cls, e, what = a["cls"], a["expr"], a["what"]
    fc = "vec" if cls == "mixed" else cls
    out = set()
    for key, tab, tgt, c in (("u", UNARY, "basis-function", fc), ("v", UNARY, "basis-function", fc),
                             ("p", UNARY, "basis-function", "scalar"), ("q", UNARY, "basis-function", "scalar"),
                             ("k", UNARY, "coefficient", fc), ("b", BINARY, "basis-function", fc),
                             ("bk", BINARY, "coefficient", fc)):
        if key in e:
            out |= {(h, tgt) for h in tab[e[key]][1](c)}
    if "g" in e:
        out |= {(h, "default-parameter") for h in {"mul": ("mul", "prod")}.get(e["g"], (e["g"],))}
    if what == "coef-F":
        out |= {(h, "coefficient") for h in ("inv", "det", "mul", "dot") + (("transpose",) if e["form"] == "lin" else ())}
    if what == "jump":
        out |= {("jump", "basis-function"), ("grad", "basis-function")}
    if what == "model":
        out |= {(h, "basis-function") for h in MODEL_HELPERS[e["model"]]}
        if e["model"] in ("vrot",):
            out.add(("curl", "coefficient"))
    return out


def run_hform(env, a):
    import skfem
    cls, what, e = a["cls"], a["what"], a["expr"]
    m = env.mesh(a["mid"])
    c = Caller(env)
    if what == "jump":
        b0, b1 = env.ibasis(a["mid"], a["ename"], 0), env.ibasis(a["mid"], a["ename"], 1)
        res = [skfem.asm(skfem.BilinearForm(_helper_integrand(a)), [b0, b1], [b0, b1])]
        b = b0
    else:
        b = _hbasis(env, a)
    kw = {}
    if what != "jump" and _needs_coef(a):
        k = env.coef(a)
        if isinstance(k, tuple):
            kw["k"], kw["kp"] = k[0], k[1]
        else:
            kw["k"] = k
    if what == "interp":
        y = c("y", np.random.default_rng(200 + a["yseed"]).integers(-8, 9, size=b.N) / 8)
        f = b.interpolate(y)
        res = []
        for fld in (f if isinstance(f, tuple) else (f,)):
            res += [np.array(x) for x in fld.astuple if x is not None]
    elif what == "model":
        from skfem.models import elasticity, general, poisson
        name = e["model"]
        if name == "linear_elasticity":
            form = env.form("model:linear_elasticity")
        else:
            form = getattr(poisson, name, None) or getattr(general, name)
        if name in ("rot", "vrot"):
            kw = {"w": kw["k"]}
        res = [form.assemble(b, **kw)]
    elif what == "coef-F":
        # a matrix field the caller owns, handed over as a plain array (the library wraps it without a copy):
        # c*I + G with c = 1 + |G|^2 > |G| is invertible whatever G is
        Gk = np.array(kw["k"].grad)
        d = Gk.shape[0]
        cc = 1.0 + np.einsum("ij...,ij...", Gk, Gk)
        kw["F"] = c("F", Gk + np.array([[cc if i == j else 0.0 * cc for j in range(d)] for i in range(d)]))
        F_ = skfem.BilinearForm if e["form"] == "bil" else skfem.LinearForm
        res = [F_(_helper_integrand(a)).assemble(b, **kw)]
    elif what != "jump":
        F_ = {"bil-unary": skfem.BilinearForm, "bil-binary": skfem.BilinearForm, "lin": skfem.LinearForm,
              "fun": skfem.Functional}[what]
        form = F_(_helper_integrand(a))
        res = [form.elemental(b, **kw)] if what == "fun" else [form.assemble(b, **kw)]
    key = ("hbasis", a["where"] if what != "jump" else "interior", a["mid"], a["ename"])
    warm = env.note(key, a["sig"] + (f":y{a['yseed']}" if what == "interp" else ""))
    earlier_forms = any(not z.startswith("interp") for z in env.used[key] if z != a["sig"])
    flags = {"__mutated__": c.mutated(), "hform:" + what: True, "hform:class:" + cls: True,
             "hform:on-facet-basis": a["where"] == "facet" and what != "jump",
             "warm:other-helper-form-after-helper-form-on-the-same-basis": what != "interp" and warm and earlier_forms,
             "warm:interpolate-after-helper-form-on-the-same-basis": what == "interp" and earlier_forms,
             "operand:coefficient-field-arrays": bool(kw), "caller-array:coefficient-matrix-field": what == "coef-F"}
    for h, tgt in _helpers_used(a):
        flags[f"helper:{h}:{tgt}"] = True
    return res, [m], flags, ("hform:" + what + ":" + cls, "basis-arrays+coefficient-arrays", warm)


PRE = {"dofs": pre_basis_use, "project": pre_basis_use, "form": pre_form, "mapping": pre_mapping, "mapping-facet": pre_mapping, "asm": pre_basis_use,
       "probe": pre_basis_use, "basis": pre_elem, "global": pre_elem, "lbasis": pre_elem, "facet-basis": pre_elem,
       "hform": pre_hform}

OPS = [("derive", op_derive, run_derive, 2), ("dofs", op_dofs, run_dofs, 2), ("project", op_project, run_project, 1),
       ("form", op_form, run_form, 4), ("mapping-facet", op_mapping_facet, run_mapping_facet, 3),
       ("facet-basis", op_facet_basis, run_facet_basis, 2),
       ("basis", op_basis, run_basis, 3), ("global", op_global, run_global, 3), ("lbasis", op_lbasis, run_lbasis, 3),
       ("mapping", op_mapping, run_mapping, 4), ("finder", op_finder, run_finder, 1), ("asm", op_asm, run_asm, 3),
       ("probe", op_probe, run_probe, 2), ("solve", op_solve, run_solve, 3), ("eig", op_eig, run_eig, 1),
       ("transform", op_transform, run_transform, 5), ("bc", op_bc, run_bc, 2),
       # (weight 0 in the general programs: the helper forms have their own focused family)
       ("hform", op_hform, run_hform, 0)]


def classify(opname, args, detail, exc=None):
    """Explicit predicates for triaged mechanisms (see known_findings.json)."""
    if opname == "hform":
        return "hform:" + args["sig"]
    return f"{opname}:{args.get('ename', args.get('name', args.get('what', args.get('meth', ''))))}".split("(")[0]


def program(ctx, k, ops=None, nmesh=None, nsteps=None, tweak=None):
    rng = ctx.rng()
    specs = Specs(ctx, rng)
    if tweak:
        tweak(specs, rng)
    OPS_ = OPS if ops is None else [o for o in OPS if o[0] in ops]
    if ops is not None:
        OPS_ = [(o[0], o[1], o[2], ops[o[0]]) for o in OPS_]
    if nmesh:
        # a focused program: few meshes, so that the same pooled basis / mapping / form meets many different uses
        ids = _mesh_ids(specs, unit=False)
        keep = set(str(i) for i in rng.choice(ids, size=min(nmesh, len(ids)), replace=False))
        specs.meshes = {i: v for i, v in specs.meshes.items() if v.get("unit") or i in keep}
    readonly = bool(k % 2)
    pool = Env(specs, pooled=True, readonly=readonly)
    fresh = Env(specs, pooled=False)
    if readonly:
        ctx.reached("readonly-pass")
    nsteps = nsteps or ctx.scale(30, 120)
    weights = np.array([w for *_, w in OPS_], dtype=float)
    trace = []
    sent = set()
    np_state = np.random.get_state()[1][:4].copy()
    for step in range(nsteps):
        name, sampler, runner, _ = OPS_[int(rng.choice(len(OPS_), p=weights / weights.sum()))]
        try:
            args = sampler(rng, specs)
        except ValueError:
            if not nmesh:
                raise
            ctx.drop("op-not-applicable:no-mesh-of-the-kind-in-the-focused-pool")
            continue
        trace.append((name, args))
        try:
            ref, _, _, _ = runner(fresh, args)
        except Skip:
            ctx.drop("op-not-applicable")
            continue
        except Exception as e:
            # the operation itself is unsupported on fresh objects: not a history effect
            ctx.drop(f"op-raises-on-fresh-objects:{name}:{type(e).__name__}")
            continue
        # pooled execution
        try:
            # operands of the pooled run: snapshot after the objects exist, before the call
            if "mid" in args:
                pool.mesh(args["mid"])
            pre_objs = [pool.mesh(args["mid"])] if "mid" in args else []
            if "mid" in args and specs.meshes[args["mid"]].get("derived"):
                # a derived mesh shares arrays with the pooled meshes it was derived from: they are operands too
                pre_objs += [pool.mesh(i) for i in ancestors(specs, args["mid"])]
                sm = specs.meshes[args["mid"]]
                ctx.reached("op-on-derived-mesh:" + ("order2" if sm.get("order2") else "dg" if sm.get("dg") else "first-order"))
            if name == "derive" and not args.get("full"):
                pre_objs = [pool.mesh(i) for i in [args["parent"]] + ancestors(specs, args["parent"])]
            if name in ("solve", "eig", "bc"):
                pre_objs = list(specs.systems[args["sysid"]])
            if name in PRE:
                # (building the pooled objects the step is going to use is part of the step, not of the snapshot)
                pre_objs = pre_objs + PRE[name](pool, args)
            before = snapshot(pre_objs)
            got, operands, flags, key = runner(pool, args)
        except Skip:
            continue
        except Exception as e:
            ctx.check("pooled-equals-fresh", False, mech=classify(name, args, "", e) + ":raises-after-history",
                      op=name, args=args, error=repr(e)[:300], step=step, readonly=readonly,
                      history=[t[0] + ":" + str(t[1].get("ename", t[1].get("mid", ""))) for t in trace[-6:]])
            continue
        verdict, detail = compare(ctx, got, ref)
        if verdict == "close":
            ctx.tolerated("pooled-equals-fresh")
        ctx.check("pooled-equals-fresh", verdict != "different", mech=classify(name, args, detail), op=name, args=args,
                  difference=detail, step=step, readonly=readonly,
                  history=[t[0] + ":" + str(t[1].get("ename", t[1].get("mid", t[1].get("name", "")))) for t in trace[-6:]])
        sub = name + ":" + str(args.get("what", args.get("meth", args.get("how", args.get("name", "")))))
        if verdict == "bitwise" and name != "eig" and FRESH_PROCESS and \
                ((k % 3 == 0 and step % 10 == k % 10) or (k % 12 == 0 and sub not in sent)):
            # process-wide state (class attributes, module-level dicts, memo tables) is shared by the pool AND the
            # in-process fresh replay: the reference of a sample of steps comes from a process that ran nothing else
            sent.add(sub)
            out = fresh_process_digest(specs, name, args)
            if "digest" in out:
                here = [digest(x) for x in flat_result(ref)]
                ctx.check("pooled-equals-fresh", out["digest"] == here,
                          mech="differs-from-fresh-process:" + classify(name, args, ""), op=name, args=args, step=step,
                          parts_differing=lambda: [i for i, (p_, q_) in enumerate(zip(out["digest"], here)) if p_ != q_][:6],
                          history=[t[0] + ":" + str(t[1].get("ename", t[1].get("mid", t[1].get("name", "")))) for t in trace[-6:]])
                ctx.reached("fresh-process-reference")
                ctx.reached("fresh-process-reference:" + name)
            else:
                ctx.drop("fresh-process-reference-failed:" + name + ":" + str(out.get("error", ""))[:40])
        ch = changed(before, pre_objs) + [("local", nm) for nm in flags.pop("__mutated__", [])]
        ctx.check("operands-unchanged", not ch, mech=f"operand-mutated:{name}:{args.get('sig', args.get('what', ''))}", op=name, args=args,
                  changed=[str(c) for c in ch[:6]], step=step)
        for fl, val in flags.items():
            if val:
                ctx.reached(fl)
        if key[2]:
            ctx.nontrivial(key[0], key[1], "warm")
    ctx.notes["numpy_global_rng_reseeded_by_library"] = bool((np.random.get_state()[1][:4] != np_state).any()) or \
        ctx.notes.get("numpy_global_rng_reseeded_by_library", False)
    ctx.sample({"program": k, "readonly_operands": readonly, "steps": len(trace),
                "first_ops": [t[0] + ":" + str(t[1]) for t in trace[:5]]}, per_family=2)


# ------------------------------------------------------------------ a really fresh process per operation
_SERVER_CODE = r"""
import sys, os, pickle, struct, warnings, logging
warnings.simplefilter("ignore")
logging.getLogger("skfem").setLevel(logging.ERROR)
import numpy, scipy.sparse, scipy.sparse.linalg, scipy.spatial, scipy.linalg, skfem, skfem.models.poisson
import rv.monitors.c04
import rv.monitors.c15 as M          # imports only: this process never executes an operation of the library
inp, out = sys.stdin.buffer, sys.stdout.buffer
while True:
    hdr = inp.read(8)
    if len(hdr) < 8:
        break
    req = inp.read(struct.unpack("<Q", hdr)[0])
    r, w = os.pipe()
    pid = os.fork()
    if pid == 0:                     # the child: a process in which nothing has been computed yet
        os.close(r)
        try:
            res = M.child_run(pickle.loads(req))
        except BaseException as e:
            res = {"error": type(e).__name__ + ":" + repr(e)[:200]}
        data = pickle.dumps(res)
        with os.fdopen(w, "wb") as f:
            f.write(data)
        os._exit(0)
    os.close(w)
    with os.fdopen(r, "rb") as f:
        data = f.read()
    os.waitpid(pid, 0)
    out.write(struct.pack("<Q", len(data)) + data)
    out.flush()
"""
_SERVER = None


def child_run(req):
    """Runs in a forked child of the import-only server: one operation on freshly built objects, nothing else."""
    import warnings
    warnings.simplefilter("ignore")
    runner = {o[0]: o[2] for o in OPS}[req["op"]]
    with np.errstate(all="ignore"):
        res = runner(Env(req["specs"], pooled=False), req["args"])[0]
    return {"digest": [digest(x) for x in flat_result(res)]}


def _server():
    global _SERVER
    import atexit
    import subprocess
    import sys
    if _SERVER is not None and _SERVER.poll() is None:
        return _SERVER
    from ..engine import REPO, VERIF
    env = dict(os.environ, PYTHONPATH=os.pathsep.join([REPO, VERIF, os.path.join(VERIF, ".deps")]), PYTHONHASHSEED="0",
               PYTHONDONTWRITEBYTECODE="1")
    _SERVER = subprocess.Popen([sys.executable, "-B", "-c", _SERVER_CODE], stdin=subprocess.PIPE, stdout=subprocess.PIPE,
                               stderr=subprocess.DEVNULL, env=env)
    atexit.register(_stop_server)
    return _SERVER


def _stop_server():
    global _SERVER
    srv, _SERVER = _SERVER, None
    if srv is not None:
        try:
            srv.stdin.close()
            srv.wait(timeout=5)
        except Exception:
            srv.kill()


def fresh_process_digest(specs, name, args):
    """Digest of the result of ONE operation computed in a process that has executed nothing before it (forked from
    a server that only imported the modules).  None when the reference could not be obtained."""
    import pickle
    import struct
    try:
        srv = _server()
        data = pickle.dumps({"specs": specs, "op": name, "args": args})
        srv.stdin.write(struct.pack("<Q", len(data)) + data)
        srv.stdin.flush()
        hdr = srv.stdout.read(8)
        if len(hdr) < 8:
            raise EOFError("server gone")
        return pickle.loads(srv.stdout.read(struct.unpack("<Q", hdr)[0]))
    except BaseException:
        _stop_server()       # (a case timeout in the middle of a request would desynchronise the pipe)
        raise


def form_programs(ctx, k):
    """Focused programs: a handful of pooled Form objects assembled over and over on the few pooled cell / facet bases
    of two or three meshes (different local sizes, different meshes, random order), interleaved with the other
    consumers of the same bases."""
    program(ctx, k, ops={"form": 8, "asm": 1, "probe": 1, "mapping": 1, "transform": 1}, nmesh=[2, 3][k % 2],
            nsteps=ctx.scale(24, 80))


def facet_programs(ctx, k):
    """Focused programs on the facet side: G / detDG / normals of one pooled mapping object with changing facet
    subsets (equal length, other dtype, all facets) and point layouts, facet bases built from pooled mesh and
    element objects, facet forms."""
    program(ctx, k, ops={"mapping-facet": 6, "facet-basis": 3, "mapping": 2, "form": 2, "transform": 1},
            nmesh=[1, 2][k % 2], nsteps=ctx.scale(24, 80))


def buffer_programs(ctx, k):
    """Focused programs in which the caller refills ONE point buffer in place between calls (same object, same
    address, same shape, other content) for lbasis of the elements that keep tables and for the mapping methods."""
    def tweak(specs, rng):
        specs.lbasis_kinds = [["line"], ["quad"], ["line", "quad"]][k % 3]
        specs.lbasis_nelems = None
        specs.inplace_bias = 0.8
        specs.mapping_xvars, specs.mapping_tvars = ["shared", "percell"], ["none", "int32-two"]
        for kind in specs.points:                 # equal counts only: every refill has the shape of the last one
            specs.points[kind] = [q for q in specs.points[kind] if q.shape[1] == 4]
        if k % 4:                                 # mostly cells whose Jacobian depends on the point
            specs.meshes = {i: v for i, v in specs.meshes.items() if v.get("unit") or v["kind"] in ("quad", "hex")}
    program(ctx, k, ops={"lbasis": 6, "mapping": 5, "probe": 1, "basis": 1, "form": 1}, nmesh=1, nsteps=ctx.scale(24, 80),
            tweak=tweak)


def derived_programs(ctx, k):
    """Focused programs on derived meshes: results that share arrays with their operand (translated/scaled share t,
    with_* share p, t and tag arrays, from_mesh passes t through) are KEPT in the pool and operated on further
    (second-order meshes touch Mesh.dofs), while the meshes they were derived from keep being used."""
    program(ctx, k, ops={"derive": 4, "transform": 4, "basis": 2, "asm": 2, "form": 2, "mapping": 2, "facet-basis": 1,
                         "finder": 1, "mapping-facet": 1}, nmesh=[2, 3][k % 2], nsteps=ctx.scale(26, 80))


HELPER_PROGRAM_CLASSES = [["vec"], ["vec", "mixed"], ["global"], ["scalar", "vec"], ["hdiv", "hcurl"]]


def helper_programs(ctx, k):
    """Focused programs on forms written with skfem.helpers: the few pooled cell / facet / interior-facet bases of one
    or two meshes (vector, mixed, H(div), H(curl), globally defined and scalar elements) are handed to generated
    integrands that apply every helper to the stored trial / test functions and to coefficient fields the caller
    keeps, interleaved with interpolate() and the library's model forms on the same bases.  Every step: operand
    checksums around the call (basis, mapping, element, mesh, coefficient arrays) and comparison with a fresh replay
    (for a sample: in a process that executed nothing else)."""
    import inspect
    import skfem.helpers as H
    public = {n for n, f in vars(H).items() if inspect.isfunction(f) and f.__module__ == H.__name__ and not n.startswith("_")}
    if public <= set(HELPER_TARGETS):
        ctx.reached("helper-catalogue-covers-skfem.helpers")
    else:
        for n in sorted(public - set(HELPER_TARGETS)):
            ctx.drop("helper-without-a-form-in-the-catalogue:" + n)
    classes = HELPER_PROGRAM_CLASSES[k % len(HELPER_PROGRAM_CLASSES)]

    def tweak(specs, rng):
        specs.hform_classes = classes
        kinds = set().union(*[set(HELPER_ELEMS[c]) for c in classes if c != "global"])
        if kinds:
            specs.meshes = {i: v for i, v in specs.meshes.items() if v.get("unit") or v["kind"] in kinds}
    program(ctx, k, ops={"hform": 12, "form": 1, "asm": 1, "transform": 1}, nmesh=1 + (k // 2) % 2, nsteps=ctx.scale(24, 80),
            tweak=tweak)


# ------------------------------------------------------------------ retained objects
def read_basis(b):
    """Everything a consumer reads from a basis, copied."""
    import skfem
    from .c04 import generic_mass
    out = []
    for bf in b.basis:
        for f in (bf if isinstance(bf, tuple) else (bf,)):
            out.append(np.array(f))
            for nm in ("grad", "div", "curl", "hess"):
                a = getattr(f, nm, None)
                if a is not None:
                    out.append(np.array(a))
    out += [np.array(b.dx), np.array(b.element_dofs), np.array(b.X), np.array(b.W)]
    out.append(skfem.BilinearForm(generic_mass).assemble(b))
    return out


RETAINED = [("line", "ElementLinePp(3)"), ("line", "ElementLinePp(5)"), ("quad", "ElementQuadP(3)"), ("quad", "ElementQuadP(4)"),
            ("line", "ElementLineP2"), ("tri", "ElementTriP2"), ("quad", "ElementQuad2"), ("tri", "ElementTriRT1"),
            ("tet", "ElementTetP1"), ("ws-tri", "ElementTriMorley"), ("ws-quad", "ElementQuad2G"), ("ws-line", "ElementLineHermite")]


def retained_basis(ctx, k):
    """A basis is built, read, KEPT, and read again after its element / mesh objects were used for other things
    (other point sets of the same size, refinterp, a second basis with another rule of equal length or on another
    mesh, point evaluation): the second reading equals the first and equals a fresh build."""
    import skfem
    rng = ctx.rng()
    kindkey, ename = RETAINED[k % len(RETAINED)]
    specs = Specs(ctx, rng)
    unit = kindkey.startswith("ws-")
    kind = kindkey[3:] if unit else kindkey
    mids = _mesh_ids(specs, kinds=[kind], unit=unit)
    mid = str(rng.choice(mids))
    pool = Env(specs, pooled=True)
    fresh = Env(specs, pooled=False)
    m, e = pool.mesh(mid), pool.elem(ename)
    B = skfem.CellBasis(m, e)
    R0 = read_basis(B)
    before = snapshot([m])
    nq = B.X.shape[1]
    done = []
    actions = ["lbasis-other-points", "refinterp", "second-basis-same-length-rule", "other-mesh", "probe", "subset",
               "facet-basis", "lbasis-other-points"]
    for act in [actions[i] for i in rng.permutation(len(actions))[: int(rng.integers(2, 6))]]:
        try:
            if act == "lbasis-other-points":
                X = GEO.random_ref_points(rng, kind, nq)
                for i in range(min(3, B.Nbfun)):
                    e.lbasis(X, i)
            elif act == "refinterp":
                if kind in ("line", "tri", "quad"):
                    B.refinterp(np.arange(B.N, dtype=float), nrefs=1)
                else:
                    continue
            elif act == "second-basis-same-length-rule":
                X = GEO.random_ref_points(rng, kind, nq)
                W = np.full(nq, float(np.sum(B.W)) / nq)
                b2 = skfem.CellBasis(m, e, quadrature=(X, W))
                read_basis(b2)
            elif act == "other-mesh":
                others = [x for x in mids if x != mid]
                if not others:
                    continue
                read_basis(skfem.CellBasis(pool.mesh(str(rng.choice(others))), e))
            elif act == "probe":
                if kind not in ("line", "tri", "quad"):
                    continue
                s_ = specs.meshes[mid]
                c = int(rng.integers(0, m.t.shape[1]))
                Xr = GEO.random_ref_points(rng, kind, 1)
                x = GEO.map_points(kind, s_["p"], s_["t"], Xr, np.array([c]))[:, 0, :]
                B.probes(x)
            elif act == "subset":
                B.with_elements(np.arange(max(1, m.t.shape[1] // 2)))
            elif act == "facet-basis":
                if kind == "line" or unit:
                    continue
                skfem.FacetBasis(m, e)
        except Exception as ex:  # the interleaved operation itself is not the subject
            ctx.drop(f"retained:action-raised:{act}:{type(ex).__name__}")
            continue
        done.append(act)
    if not done:
        raise Skip("no-action-applicable")
    R1 = read_basis(B)
    v01, d01 = compare(ctx, R1, R0)
    base = ename.split("(")[0]
    ctx.check("retained-object-unchanged-by-later-use", v01 == "bitwise", mech=f"retained-basis-changed:{base}",
              elem=ename, mesh=mid, actions=done, difference=d01)
    Rf = read_basis(skfem.CellBasis(fresh.mesh(mid), fresh.elem(ename)))
    v, d = compare(ctx, R1, Rf)
    if v == "close":
        ctx.tolerated("pooled-equals-fresh")
    ctx.check("pooled-equals-fresh", v != "different", mech=f"retained-basis-differs-from-fresh:{base}", elem=ename,
              mesh=mid, actions=done, difference=d)
    ch = changed(before, [m])
    ctx.check("operands-unchanged", not ch, mech="operand-mutated:retained-basis", changed=[str(c) for c in ch[:6]],
              actions=done)
    ctx.reached("retained-basis-reread")
    for a in done:
        ctx.reached("retained:" + a)
    ctx.nontrivial("retained", base, tuple(sorted(set(done))))
    ctx.sample({"elem": ename, "mesh": mid, "actions": done}, per_family=1)


def composite_bases(ctx, k):
    """CompositeBasis (b1 * b2, b1 @ b2) borrows its component bases: assembling over the combination leaves the
    components bit-for-bit unchanged, and the components (alone, recombined, in the other order) give what fresh
    ones give."""
    import skfem
    rng = ctx.rng()
    specs = Specs(ctx, rng)
    kind = ("tri", "quad", "line", "tet")[k % 4]
    pairs = {"tri": [("ElementTriP2", "ElementTriP1"), ("ElementTriP1", "ElementTriP0"), ("ElementTriP2", "ElementTriP2")],
             "quad": [("ElementQuad2", "ElementQuad1"), ("ElementQuad1", "ElementQuad0")],
             "line": [("ElementLineP2", "ElementLineP1"), ("ElementLineP1", "ElementLineP1")],
             "tet": [("ElementTetP2", "ElementTetP1")]}[kind]
    n1, n2 = pairs[(k // 4) % len(pairs)]
    mid = str(rng.choice(_mesh_ids(specs, kinds=[kind], unit=False)))

    def build(env):
        m = env.mesh(mid)
        b1 = skfem.CellBasis(m, EL.by_name(n1).make(), intorder=4)
        b2 = b1.with_element(EL.by_name(n2).make())
        return m, b1, b2

    def coupled(u1, u2, v1, v2, w):
        return u1 * v1 + 2.0 * u2 * v2 + 3.0 * u1 * v2 + (1.0 + w.x[0]) * u2 * v1

    def use(b1, b2, how):
        if how == "product":
            return skfem.BilinearForm(coupled).assemble(b1 * b2)
        if how == "reversed":
            return skfem.BilinearForm(coupled).assemble(b2 * b1)
        if how == "second-alone":
            from .c04 import generic_mass
            return [skfem.BilinearForm(generic_mass).assemble(b2), np.array(b2.element_dofs)]
        if how == "first-alone":
            from .c04 import generic_mass
            return [skfem.BilinearForm(generic_mass).assemble(b1), np.array(b1.element_dofs)]
        if how == "equal-dofnum":
            if b1.N != b2.N:
                raise Skip("equal-dofnum-needs-equal-N")
            return skfem.BilinearForm(coupled).assemble(b1 @ b2)
        raise ValueError(how)

    m, b1, b2 = build(Env(specs, pooled=True))
    hows = ["product", "reversed", "second-alone", "first-alone", "product"] + (["equal-dofnum"] if n1 == n2 else [])
    seq = [hows[i] for i in rng.permutation(len(hows))]
    if "product" not in seq[:2]:
        seq.insert(0, "product")
    for step, how in enumerate(seq):
        # every array the two component bases hold (tabulated basis functions with their derivatives, dx, X, W, DOF
        # tables, mapping arrays) and the defining arrays of their element objects
        keep = [m, {"b1.element_dofs": np.asarray(b1.element_dofs), "b2.element_dofs": np.asarray(b2.element_dofs)},
                Held(deep_arrays(b1, "b1")), Held(deep_arrays(b2, "b2")),
                Held(element_static_arrays(b1.elem)), Held(element_static_arrays(b2.elem))]
        before = snapshot(keep)
        try:
            _, f1, f2 = build(Env(specs, pooled=False))
            ref = use(f1, f2, how)
        except Skip:
            continue
        try:
            got = use(b1, b2, how)
        except Exception as ex:
            ctx.check("pooled-equals-fresh", False, mech="composite-basis:component-unusable-after-history", how=how,
                      sequence=seq[:step + 1], error=repr(ex)[:200], elems=[n1, n2])
            continue
        v, d = compare(ctx, got, ref)
        if v == "close":
            ctx.tolerated("pooled-equals-fresh")
        ctx.check("pooled-equals-fresh", v != "different", mech="composite-basis:result-depends-on-history", how=how,
                  sequence=seq[:step + 1], difference=d, elems=[n1, n2])
        ch = changed(before, keep)
        ctx.check("operands-unchanged", not ch, mech="operand-mutated:composite-basis-components", how=how,
                  changed=[str(c) for c in ch[:6]], elems=[n1, n2])
    ctx.reached("composite-basis-components-reused")
    ctx.reached("operand:composite-component-basis-arrays")
    ctx.nontrivial("composite-basis", kind, n1, n2)


# ------------------------------------------------------------------ a really fresh interpreter
PROBES = {
    # name: source of a function probe() -> list of arrays (run alone in a new interpreter, and here after a history)
    "tet-adaptive-ties": """
def probe():
    import numpy as np, skfem
    m = skfem.MeshTet().refined(1)            # many cells with several longest edges of equal length
    c = m.refined(np.array([0, 5, 17]))
    c2 = c.refined(np.array([1, 2]))
    return [c.p, c.t, c2.p, c2.t]
""",
    "tet-adaptive-small-after-large": """
def probe():
    import numpy as np, skfem
    m = skfem.MeshTet()
    c = m.refined(np.array([0])).refined(np.array([0, 1]))
    return [c.p, c.t]
""",
    "tri-adaptive-and-finder": """
def probe():
    import numpy as np, skfem
    m = skfem.MeshTri().refined(2)
    c = m.refined(np.array([0, 3, 9]))
    f = c.element_finder()(np.array([0.3, 0.71]), np.array([0.2, 0.55]))
    return [c.p, c.t, f]
""",
    "eigen-solver-defaults": """
def probe():
    import numpy as np, skfem
    from skfem.models.poisson import laplace, mass
    from skfem.utils import solver_eigen_scipy_sym
    b = skfem.Basis(skfem.MeshTri().refined(3), skfem.ElementTriP1())
    L, X = skfem.solve(*skfem.condense(laplace.assemble(b), mass.assemble(b), D=b.get_dofs()),
                       solver=solver_eigen_scipy_sym(k=4, sigma=0.0))
    return [np.round(np.sort(L), 8)]
""",
}
HISTORY = """
def history():
    import numpy as np, skfem
    from skfem.models.poisson import laplace, mass
    from skfem.utils import solver_eigen_scipy_sym
    big = skfem.MeshTet().refined(2)
    big.refined(np.arange(0, big.t.shape[1], 3))
    skfem.MeshTet.init_tensor(*(np.linspace(0, 1, 4),) * 3).refined(np.array([1, 2, 3]))
    skfem.MeshTri().refined(3).refined(np.arange(10))
    b = skfem.Basis(skfem.MeshTri().refined(2), skfem.ElementTriP2())
    s = solver_eigen_scipy_sym(k=2, sigma=1.0)
    skfem.solve(*skfem.condense(laplace.assemble(b), mass.assemble(b), D=b.get_dofs()), solver=s)
    skfem.solve(*skfem.condense(laplace.assemble(b), mass.assemble(b), D=b.get_dofs()), solver=s, k=3)
    np.random.seed(99)
    np.random.rand(5)
"""


def fresh_interpreter(ctx, k):
    """"the same whether computed first in a fresh interpreter or after any sequence of other operations": the
    probe is run alone in a new interpreter (subprocess) and here, in this process, after a history of other
    operations (and after everything the earlier families did)."""
    import json
    import subprocess
    import sys
    names = sorted(PROBES)
    name = names[k % len(names)]
    src = PROBES[name]
    code = ("import sys, json, hashlib\nimport numpy as np\n" + src +
            "\nout = probe()\nprint('RESULT ' + json.dumps([hashlib.blake2b(np.ascontiguousarray(a).tobytes(), digest_size=12).hexdigest()"
            " + str(np.asarray(a).shape) for a in out]))\n")
    from ..engine import REPO
    env = dict(os.environ, PYTHONPATH=REPO, PYTHONHASHSEED="0")
    r = subprocess.run([sys.executable, "-B", "-c", code], capture_output=True, text=True, timeout=300, env=env)
    line = [l for l in r.stdout.splitlines() if l.startswith("RESULT ")]
    if r.returncode != 0 or not line:
        raise Skip("fresh-interpreter-run-failed:" + (r.stderr or "")[-120:])
    fresh = json.loads(line[0][7:])
    ns = {}
    exec(HISTORY, ns)
    exec(src, ns)
    ns["history"]()
    here = [hashlib.blake2b(np.ascontiguousarray(a).tobytes(), digest_size=12).hexdigest() + str(np.asarray(a).shape)
            for a in ns["probe"]()]
    ctx.check("pooled-equals-fresh", here == fresh, mech=f"differs-from-fresh-interpreter:{name}", probe=name,
              here=here[:4], fresh=fresh[:4])
    ctx.reached("fresh-interpreter-reference")
    ctx.nontrivial("fresh-interpreter", name)


FAMILIES = [Family("programs", program, 100, 3200, budget={"quick": 80, "thorough": 1500}),
            Family("form-programs", form_programs, 40, 800, budget={"quick": 30, "thorough": 600}),
            Family("facet-programs", facet_programs, 40, 800, budget={"quick": 30, "thorough": 600}),
            Family("derived-programs", derived_programs, 40, 800, budget={"quick": 30, "thorough": 600}),
            Family("buffer-programs", buffer_programs, 24, 480, budget={"quick": 20, "thorough": 400}),
            Family("helper-programs", helper_programs, 20, 600, budget={"quick": 45, "thorough": 900}),
            Family("retained-basis", retained_basis, 48, 960, budget={"quick": 40, "thorough": 600}),
            Family("composite-bases", composite_bases, 16, 320, budget={"quick": 20, "thorough": 300}),
            Family("fresh-interpreter", fresh_interpreter, 4, 8, budget={"quick": 60, "thorough": 120})]
